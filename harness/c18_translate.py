"""Fail-closed Python-ast -> Gallina translator for kawin/precipitation/coupling/Strength.py and the
structural methods of kawin/precipitation/coupling/GrainGrowth.py (C18).

What is translated (anything outside the accepted subset raises TranslationError, which the check
reports as a broken tie):

  * every formula method of StrengthModel (line tension, J factor, the five weak / strong cutting
    contributions with their helper terms, Orowan, and the edge / screw comparison formulas) as a
    real-valued Gallina definition inside one `Section` whose variables are the attributes read
    through `self.` (scalars `self.G`, per-phase dictionary reads `self.eps[phase]`, the bound method
    `self.T` as a function variable, the number `self.J`).  After the section is closed every
    definition is abstracted over exactly the variables it uses, in declaration order, so a formula
    that starts reading another attribute changes type and the bridge lemma breaks;
  * the numeric skeleton of getStrengthContributions: the two effective spacings r0Weak / r0Strong,
    and HOW each of the three result arrays is clipped (`x[(x < 0) | ~np.isfinite(x)] = 0` or
    `x[~np.isfinite(x)] = 0`), emitted as `clip_*_gen : clipmode`; the table of `_getStrengthFunctions`;
  * every other method the hand-written model mirrors (combineStrengthContributions, precStrength,
    totalStrength, rssterm, Lsterm, updateCoupledModel of both coupling models, constrainedGrowth,
    grainGrowth, Rcr, Rm, Normalize, getdXdt, correctdXdt, getDt, postProcess, computeZenerRadius) is
    accepted in exactly the shape it had when the model was written (AST equality with the frozen
    text below, docstrings and comments ignored); for these the translator emits fixed definitions
    that restate that shape in Gallina (`tausum_gen`, `combine_gen`, `mix_gen`, `total_gen`,
    `constrained1_gen`, ...), which the bridge proves equal to the model.

numpy -> Reals: np.pi -> PI, np.sqrt -> sqrt, np.log -> ln, np.sin/np.cos -> sin/cos, np.abs -> Rabs,
np.power(x, y) -> npow x y (Model.v: Rpower for x > 0, 0 otherwise), `x**n` with n a non-negative
integer literal -> x ^ n, int literals -> integers, float literals -> the exact decimal written.
Formula methods are assumed to act elementwise on arrays (validated by the enclosures of the check).
"""
import ast, hashlib, textwrap, copy
import c18_normalize as N
from fractions import Fraction
from decimal import Decimal


class TranslationError(Exception):
    def __init__(self, msg, node=None, where=''):
        line = getattr(node, 'lineno', None)
        super().__init__('%s%s%s' % (where + ': ' if where else '', msg, ' (line %d)' % line if line else ''))
        self.lineno = line


SCALARS = ['G', 'b', 'nu', 'ri', 'theta', 'psi', 'w1', 'w2', 's', 'beta', 'V', 'ySFM']
DICTS = ['eps', 'Gp', 'yAPB', 'ySFP', 'bp', 'gamma']
# declaration order of the section variables (= argument order of the closed definitions)
VAR_ORDER = ['G', 'b', 'nu', 'ri', 'theta', 'psi', 'T', 'J', 'eps', 'Gp', 'w1', 'w2', 'yAPB', 's', 'beta', 'V',
             'ySFM', 'ySFP', 'bp', 'gamma']
RESERVED = {'beta', 'delta', 'iota', 'zeta', 'eta', 'fix', 'let', 'in', 'fun', 'match', 'end', 'if', 'then', 'else',
            'PI', 'sqrt', 'ln', 'sin', 'cos', 'exp', 'at', 'as', 'by', 'R'}
NPFUN = {'sqrt': 'sqrt', 'log': 'ln', 'sin': 'sin', 'cos': 'cos', 'abs': 'Rabs'}

MIXED = ['coherencyWeak', 'coherencyStrong', 'modulusWeak', 'modulusStrong', 'APBweak', 'APBstrong', 'SFEweak', 'SFEstrong',
         'interfacialWeak', 'interfacialStrong']
HELPERS = ['Tcomplex', 'Tsimple', 'Jcomplex', 'Jsimple', 'Fmod', 'K', 'SFEWeff', 'SFEFterm', 'orowan']
COMPARISON = ['coherencyWeakEdge', 'coherencyWeakScrew', 'coherencyStrongEdge', 'coherencyStrongScrew',
              'modulusWeakEdge', 'modulusWeakScrew', 'APBweakEdge', 'APBweakScrew', 'APBstrongEdge', 'APBstrongScrew',
              'SFEweakNarrowEdge', 'SFEweakNarrowScrew', 'SFEstrongNarrowEdge', 'SFEstrongNarrowScrew',
              'interfacialWeakEdge', 'interfacialWeakScrew', 'interfacialStrongOld']
FORMULAS = HELPERS + MIXED + COMPARISON


def cname(n):
    return n + '_' if n in RESERVED else n


def _num(v, node):
    if isinstance(v, bool) or not isinstance(v, (int, float)):
        raise TranslationError('unsupported constant %r' % (v,), node)
    if isinstance(v, int):
        return '%d' % v if v >= 0 else '(%d)' % v
    if v != v or v in (float('inf'), float('-inf')):
        raise TranslationError('non-finite literal', node)
    fr = Fraction(Decimal(repr(v)))
    if fr.denominator == 1:
        return '%d' % fr.numerator if fr.numerator >= 0 else '(%d)' % fr.numerator
    return '(%d / %d)' % (fr.numerator, fr.denominator)


def _is_np(e, attr=None):
    return isinstance(e, ast.Attribute) and isinstance(e.value, ast.Name) and e.value.id == 'np' and (attr is None or e.attr == attr)


def _is_self_attr(e, attr=None):
    return isinstance(e, ast.Attribute) and isinstance(e.value, ast.Name) and e.value.id == 'self' and (attr is None or e.attr == attr)


def strip_doc(body):
    return [s for s in body if not (isinstance(s, ast.Expr) and isinstance(s.value, ast.Constant) and isinstance(s.value.value, str))]


def same_body(fn, template_src, what):
    """AST equality of a function (signature + body, docstrings ignored) with a frozen template"""
    t = ast.parse(textwrap.dedent(template_src)).body[0]
    a = ast.dump(ast.Module(body=strip_doc(fn.body), type_ignores=[]))
    b = ast.dump(ast.Module(body=strip_doc(t.body), type_ignores=[]))
    sa, sb = ast.dump(fn.args), ast.dump(t.args)
    da, db = [ast.dump(d) for d in fn.decorator_list], [ast.dump(d) for d in t.decorator_list]
    if a != b or sa != sb or da != db:
        # find the first statement that differs, for the message
        fa, fb = strip_doc(fn.body), strip_doc(t.body)
        node = fn
        if sa == sb:
            for x, y in zip(fa, fb):
                if ast.dump(x) != ast.dump(y):
                    node = x
                    break
            else:
                node = fa[len(fb)] if len(fa) > len(fb) else fn
        raise TranslationError('%s no longer has the shape the model mirrors' % what, node)


class Formulas:
    def __init__(self, cls, consts=None):
        self.consts = consts or {}          # module-level numeric constants: name -> expression
        self.methods = {}
        for st in cls.body:
            if isinstance(st, ast.FunctionDef):
                if st.name in self.methods:
                    raise TranslationError('method %s defined twice' % st.name, st)
                self.methods[st.name] = st
        self.done = {}
        self.out = []
        self.active = set()
        self.used = {}            # method -> set of section variables used (transitively)

    def signature(self, fn):
        a = fn.args
        if a.vararg or a.kwarg or a.kwonlyargs or a.posonlyargs:
            raise TranslationError('unsupported signature', fn)
        names = [x.arg for x in a.args]
        if not names or names[0] != 'self':
            raise TranslationError('formula method without self', fn)
        names = names[1:]
        nd = len(a.defaults)
        for nm, d in zip(names[len(names) - nd:], a.defaults):
            if nm != 'phase' or not (isinstance(d, ast.Constant) and d.value == 'all'):
                raise TranslationError("only `phase='all'` may have a default", fn)
        isprop = False
        if fn.decorator_list:
            if len(fn.decorator_list) == 1 and isinstance(fn.decorator_list[0], ast.Name) and fn.decorator_list[0].id == 'property':
                isprop = True
                if names:
                    raise TranslationError('property with arguments', fn)
            else:
                raise TranslationError('decorated formula method', fn)
        return [n for n in names if n != 'phase'], ('phase' in names), isprop

    def formula(self, name, node=None):
        if name in self.done:
            return self.done[name]
        if name not in self.methods:
            raise TranslationError('method %s not found' % name, node)
        if name in self.active:
            raise TranslationError('recursive formula %s' % name, node)
        self.active.add(name)
        fn = self.methods[name]
        params, hasphase, isprop = self.signature(fn)
        used = set()
        # python parameters that collide with a section variable (theta) are renamed
        env = {}
        for p in params:
            env[p] = (p + '0') if p in VAR_ORDER or p in RESERVED else p
        lets, ret, cnt = [], None, {}
        for st in strip_doc(fn.body):
            if ret is not None:
                raise TranslationError('statement after return', st)
            if isinstance(st, ast.Assign) and len(st.targets) == 1 and isinstance(st.targets[0], ast.Name):
                n = st.targets[0].id
                txt = self.expr(st.value, env, used, hasphase)
                cnt[n] = cnt.get(n, 0) + 1
                v = n if cnt[n] == 1 and n not in params else '%s_%d' % (n, cnt[n])
                if v in VAR_ORDER or v in RESERVED:
                    v += '_loc'
                lets.append('let %s := %s in' % (v, txt))
                env[n] = v
            elif isinstance(st, ast.Return) and st.value is not None:
                ret = self.expr(st.value, env, used, hasphase)
            else:
                raise TranslationError('unsupported statement %s in %s' % (type(st).__name__, name), st)
        if ret is None:
            raise TranslationError('no return in %s' % name, fn)
        gname = name + '_gen'
        binders = ''.join(' (%s : R)' % env[p] for p in params)
        body = ('\n  '.join(lets) + '\n  ' if lets else '') + ret
        self.out.append('(* StrengthModel.%s (line %d) *)\nDefinition %s%s : R :=\n  %s.' % (name, fn.lineno, gname, binders, body))
        self.active.discard(name)
        self.done[name] = (gname, len(params), isprop)
        self.used[name] = used
        return self.done[name]

    def expr(self, e, env, used, hasphase):
        rec = lambda x: self.expr(x, env, used, hasphase)
        if isinstance(e, ast.Constant):
            return _num(e.value, e)
        if isinstance(e, ast.Name):
            if e.id in env:
                return env[e.id]
            if e.id in self.consts:
                return self.expr(self.consts[e.id], {}, used, False)
            raise TranslationError('unknown name %s' % e.id, e)
        if _is_np(e, 'pi'):
            return 'PI'
        if _is_self_attr(e):
            if e.attr in SCALARS:
                used.add(e.attr)
                return cname(e.attr)
            if e.attr == 'J':
                used.add('J')
                return 'J'
            if e.attr in self.methods:
                g, npar, isprop = self.formula(e.attr, e)
                if not isprop:
                    raise TranslationError('method %s used as a value' % e.attr, e)
                used |= self.used[e.attr]
                return g
            raise TranslationError('unsupported attribute self.%s' % e.attr, e)
        if isinstance(e, ast.Subscript):
            if _is_self_attr(e.value) and e.value.attr in DICTS and isinstance(e.slice, ast.Name) and e.slice.id == 'phase' and hasphase:
                used.add(e.value.attr)
                return cname(e.value.attr)
            raise TranslationError('unsupported subscript', e)
        if isinstance(e, ast.UnaryOp) and isinstance(e.op, ast.USub):
            return '(- %s)' % rec(e.operand)
        if isinstance(e, ast.BinOp):
            if isinstance(e.op, ast.Pow):
                if not (isinstance(e.right, ast.Constant) and isinstance(e.right.value, int) and not isinstance(e.right.value, bool) and e.right.value >= 0):
                    raise TranslationError('exponent of ** must be a non-negative integer literal', e)
                return '(%s ^ %d)' % (rec(e.left), e.right.value)
            ops = {ast.Add: '+', ast.Sub: '-', ast.Mult: '*', ast.Div: '/'}
            if type(e.op) not in ops:
                raise TranslationError('unsupported operator %s' % type(e.op).__name__, e)
            return '(%s %s %s)' % (rec(e.left), ops[type(e.op)], rec(e.right))
        if isinstance(e, ast.Call):
            if e.keywords:
                raise TranslationError('keyword arguments in a formula', e)
            if _is_np(e.func) and e.func.attr in NPFUN and len(e.args) == 1:
                return '(%s %s)' % (NPFUN[e.func.attr], rec(e.args[0]))
            if _is_np(e.func, 'power') and len(e.args) == 2:
                return '(npow %s %s)' % (rec(e.args[0]), rec(e.args[1]))
            if _is_self_attr(e.func, 'T') and len(e.args) == 2:
                used.add('T')
                return '(T %s %s)' % (rec(e.args[0]), rec(e.args[1]))
            if _is_self_attr(e.func) and e.func.attr in self.methods:
                g, npar, isprop = self.formula(e.func.attr, e)
                if isprop:
                    raise TranslationError('property %s called' % e.func.attr, e)
                args = [a for a in e.args if not (isinstance(a, ast.Name) and a.id == 'phase')]
                if len(args) != len(e.args) and not hasphase:
                    raise TranslationError('phase passed on by a method that has no phase argument', e)
                if len(args) != npar:
                    raise TranslationError('call of %s with %d arguments, expected %d' % (e.func.attr, len(args), npar), e)
                used |= self.used[e.func.attr]
                return '(%s%s)' % (g, ''.join(' ' + rec(a) for a in args))
            raise TranslationError('unsupported call', e)
        raise TranslationError('unsupported expression %s' % type(e).__name__, e)


# ------------------------------------------------------------------------------------------------
# frozen shapes of the structural methods (docstrings / comments are ignored in the comparison)
T_GETFUNCS_HEAD = ['wfuncs', 'sfuncs', 'contributions', 'labels']

T_COMBINE = '''
def combineStrengthContributions(self, weakContributions, strongContributions, orowan, returnComparison = False):
    tausumweak = np.zeros(orowan.shape) if len(weakContributions) == 0 else np.array(np.power(np.sum(np.power(weakContributions, self.singlePhaseExp), axis=0), 1/self.singlePhaseExp))
    tausumstrong = np.zeros(orowan.shape) if len(strongContributions) == 0 else np.array(np.power(np.sum(np.power(strongContributions, self.singlePhaseExp), axis=0), 1/self.singlePhaseExp))
    tausumweak[~np.isfinite(tausumweak)] = 0
    tausumstrong[~np.isfinite(tausumstrong)] = 0
    orowan[~np.isfinite(orowan)] = 0
    taumin = np.amin(np.array([tausumweak, tausumstrong, orowan]), axis=0)
    if returnComparison:
        return self.M * taumin, (tausumweak > tausumstrong) & (tausumweak > orowan), (self.M * tausumweak, self.M * tausumstrong, self.M * orowan)
    else:
        return self.M * taumin
'''
G_COMBINE = '''(* combineStrengthContributions: superposition of each branch, minimum of the three, Taylor factor *)
Definition tausum_gen (n : R) (l : list R) : R :=
  match l with [] => 0 | _ => npow (sumR (map (fun x => npow x n) l)) (1 / n) end.
Definition taumin_gen (n : R) (w s : list R) (o : R) : R := Rmin (Rmin (tausum_gen n w) (tausum_gen n s)) o.
Definition combine_gen (M n : R) (w s : list R) (o : R) : R := M * taumin_gen n w s o.
Definition compare_gen (n : R) (w s : list R) (o : R) : bool :=
  Rltb (tausum_gen n s) (tausum_gen n w) && Rltb o (tausum_gen n w).'''

T_PREC = '''
def precStrength(self, model):
    rss = self.rss
    Ls = self.ls

    ps = []
    totalCompare = np.zeros(len(rss[:,0]))
    for i in range(len(model.phases)):
        weakContributions, strongContributions, orowan, _ = self.getStrengthContributions(rss[:,i], Ls[:,i], model.phases[i])
        strength, compare, _ = self.combineStrengthContributions(weakContributions, strongContributions, orowan, returnComparison=True)
        compare[~np.isfinite(strength)] = 0
        strength[~np.isfinite(strength)] = 0
        ps.append(strength)
        totalCompare += np.array(compare, dtype='int')
    ps = np.array(ps)
    totalStrength = np.zeros(len(ps[0]))
    indices = (totalCompare == 0) | (totalCompare == len(model.phases))
    totalStrength[indices] = np.power(np.sum(np.power(ps[:,indices], self.multiphaseSameExp), axis=0), 1/self.multiphaseSameExp)
    totalStrength[~indices] = np.power(np.sum(np.power(ps[:,~indices], self.multiphaseMixedExp), axis=0), 1/self.multiphaseMixedExp)
    return totalStrength
'''
G_PREC = '''(* precStrength: one (strength, weak-branch-largest flag) pair per phase at one time sample *)
Definition mix_gen (eSame eMixed : R) (ph : list (R * bool)) : R :=
  let cnt := length (filter (fun p => snd p) ph) in
  let e := if Nat.eqb cnt 0 || Nat.eqb cnt (length ph) then eSame else eMixed in
  npow (sumR (map (fun p => npow (fst p) e) ph)) (1 / e).'''

T_TOTAL = '''
def totalStrength(self, ssStrength, precStrength):
    sigma0 = self.sigma0*np.ones(len(ssStrength))
    return np.power(np.sum(np.power([sigma0, ssStrength, precStrength], self.totalStrengthExp), axis=0), 1/self.totalStrengthExp)
'''
G_TOTAL = '''(* totalStrength *)
Definition total_gen (n sigma0 ss ps : R) : R :=
  npow (sumR (map (fun x => npow x n) [sigma0; ss; ps])) (1 / n).'''

T_SS = '''
def ssStrength(self, model, n):
    val = 0
    for i in range(len(model.elements)):
        if model.elements[i] in self.ssweights:
            val += self.ssweights[model.elements[i]]*model.pData.composition[n,i]**self.ssexp
    return val
'''

T_RSS = '''
def rssterm(self, model, p):
    r1 = np.sum(model.PBM[p].PSD * model.PBM[p].PSDsize)
    r2 = np.sum(model.PBM[p].PSD * model.PBM[p].PSDsize**2)
    if r1 == 0:
        rss = 0
    else:
        rss = np.sqrt(2/3) * r2 / r1
    return rss
'''
T_LS = '''
def Lsterm(self, model, p):
    r1 = np.sum(model.PBM[p].PSD * model.PBM[p].PSDsize)
    r2 = np.sum(model.PBM[p].PSD * model.PBM[p].PSDsize**2)
    if r1 == 0:
        Ls = 0
    else:
        rss = np.sqrt(2/3) * r2 / r1
        Ls = np.sqrt(np.log(3) / (2*np.pi*r1) + (2*rss)**2) - 2*rss
    return Ls
'''
G_RSS = '''(* rssterm / Lsterm on the two moments r1 = sum(PSD * PSDsize), r2 = sum(PSD * PSDsize^2) *)
Definition rssterm_gen (r1 r2 : R) : R := if Req_EM_T r1 0 then 0 else sqrt (2 / 3) * r2 / r1.
Definition Lsterm_gen (r1 r2 : R) : R :=
  if Req_EM_T r1 0 then 0
  else let rss := sqrt (2 / 3) * r2 / r1 in sqrt (ln 3 / (2 * PI * r1) + (2 * rss) ^ 2) - 2 * rss.'''

T_SUPD = '''
def updateCoupledModel(self, model):
    if self.rss is None:
        self.rss = np.zeros((1, len(model.phases)))
        self.ls = np.zeros((1, len(model.phases)))
        self.solidStrength = np.zeros(1)
        self.solidStrength[0] = self.ssStrength(model, 0)

    self.rss = np.append(self.rss, [[self.rssterm(model, p) for p in range(len(model.phases))]], axis=0)
    self.ls = np.append(self.ls, [[self.Lsterm(model, p) for p in range(len(model.phases))]], axis=0)
    self.solidStrength = np.append(self.solidStrength, [self.ssStrength(model, model.pData.n)], axis=0)
'''
G_SUPD = '''(* StrengthModel.updateCoupledModel on the history (None = the three arrays are still None) *)
Definition supdate_gen (nph : nat) (h : option shist) (row_rss row_ls : list R) (ss0 ssn : R) : option shist :=
  let h0 := match h with
            | None => {| h_rss := [repeat 0 nph]; h_ls := [repeat 0 nph]; h_ss := [ss0] |}
            | Some x => x end in
  Some {| h_rss := h_rss h0 ++ [row_rss]; h_ls := h_ls h0 ++ [row_ls]; h_ss := h_ss h0 ++ [ssn] |}.'''

# ---- GrainGrowth.py -------------------------------------------------------------------------------
T_GG = {
    'Rcr': '''
def Rcr(self, x):
    return self.pbm.SecondMomentFromN(x) / self.pbm.FirstMomentFromN(x)
''',
    'Rm': '''
def Rm(self, x):
    return np.cbrt(self.pbm.ThirdMomentFromN(x) / self.pbm.ZeroMomentFromN(x))
''',
    'grainGrowth': '''
def grainGrowth(self, x):
    return self.alpha * self.M * self.gbe * (1 / self.Rcr(x) - 1 / self.pbm.PSDbounds)
''',
    'Normalize': '''
def Normalize(self):
    self.pbm.PSD *= 1 / self.pbm.ThirdMoment()
''',
    'constrainedGrowth': '''
def constrainedGrowth(self, growthRate, z = 0):
    upper = growthRate + self.alpha * self.M * self.gbe * z
    lower = growthRate - self.alpha * self.M * self.gbe * z
    growIndices = lower > 0
    dissolveIndices = upper < 0
    cG = np.zeros(len(growthRate))
    cG[growIndices] = lower[growIndices]
    cG[dissolveIndices] = upper[dissolveIndices]
    return cG
''',
    'getCurrentX': '''
def getCurrentX(self):
    return self.time[-1], [self.pbm.PSD]
''',
    'getdXdt': '''
def getdXdt(self, t, x):
    self._growthRate = self.grainGrowth(x[0])
    self._growthRate = self.constrainedGrowth(self._growthRate, self._z)
    return [self.pbm.getdXdtEuler(self._growthRate, 0, 0, x[0])]
''',
    'correctdXdt': '''
def correctdXdt(self, dt, x, dXdt):
    dXdt[0] = self.pbm.correctdXdtEuler(dt, self._growthRate, 0, 0, x[0])
''',
    'getDt': '''
def getDt(self, dXdt):
    return self.pbm.getDTEuler(self.finalTime - self.time[-1], self._growthRate, self.dissolutionIndex)
''',
    'postProcess': '''
def postProcess(self, time, x):
    self.pbm.UpdatePBMEuler(time, x[0])
    self.pbm.adjustSizeClassesEuler(True)
    self.dissolutionIndex = self.pbm.getDissolutionIndex(self.maxDissolution, 0)
    self.Normalize()
    self.time = np.append(self.time, time)
    self.avgR = np.append(self.avgR, self.Rm(self.pbm.PSD))
    self.updateCoupledModels()
    return [self.pbm.PSD], False
''',
    'computeZenerRadius': '''
def computeZenerRadius(self, model):
    z = np.zeros(len(model.phases))
    for p in range(len(model.phases)):
        phaseName = model.phases[p] if model.phases[p] in self.m else 'all'
        if model.pData.Ravg[model.pData.n,p] > 0:
            z[p] += np.power(model.pData.volFrac[model.pData.n,p], self.m[phaseName]) / (self.K[phaseName] * model.pData.Ravg[model.pData.n,p])
    self._z = np.sum(z)
''',
    'LoadDistribution': '''
def LoadDistribution(self, data):
    self.pbm.reset()
    self.pbm.PSD, self.pbm.PSDbounds = np.histogram(data, self.pbm.PSDbounds)
    self.pbm.PSD = self.pbm.PSD.astype('float')
    self.Normalize()
    self.avgR[0] = self.Rm(self.pbm.PSD)
    self._oldPSD, self._oldPSDbounds = np.array(self.pbm.PSD), np.array(self.pbm.PSDbounds)
    self.dissolutionIndex = self.pbm.getDissolutionIndex(self.maxDissolution, 0)
''',
    'LoadDistributionFunction': '''
def LoadDistributionFunction(self, function):
    self.pbm.reset()
    self.pbm.PSD = function(self.pbm.PSDsize)
    self.Normalize()
    self.avgR[0] = self.Rm(self.pbm.PSD)
    self._oldPSD, self._oldPSDbounds = np.array(self.pbm.PSD), np.array(self.pbm.PSDbounds)
    self.dissolutionIndex = self.pbm.getDissolutionIndex(self.maxDissolution, 0)
''',
    'reset': '''
def reset(self):
    self.time = np.zeros(1)
    self.avgR = np.zeros(1)
    self._z = 0
    self._growthRate = np.zeros(len(self.pbm.PSDbounds))
    self.pbm.reset()
    self.pbm.PSD, self.pbm.PSDbounds = np.array(self._oldPSD), np.array(self._oldPSDbounds)
    self.dissolutionIndex = 0
''',
    'updateCoupledModel': '''
def updateCoupledModel(self, model):
    self.computeZenerRadius(model)
    self.solve(model.pData.time[model.pData.n] - model.pData.time[model.pData.n-1], solverType=self.solverType)
''',
}
G_GG = '''(* GrainGrowthModel: constrainedGrowth entry by entry (cz = alpha*M*gbe*z; the dissolving branch is
   assigned last), grainGrowth entry (c = alpha*M*gbe), Normalize, one drag term of computeZenerRadius,
   the time span handed to solve by updateCoupledModel *)
Definition constrained1_gen (O : Ops) (cz g : T O) : T O :=
  let upper := add O g cz in
  let lower := sub O g cz in
  if ltb O upper (zero O) then upper else if ltb O (zero O) lower then lower else zero O.
Definition growth1_gen (O : Ops) (c rcr bnd : T O) : T O :=
  mul O c (sub O (dvd O (one O) rcr) (dvd O (one O) bnd)).
Definition Rcr_gen (O : Ops) (size x : list (T O)) : T O :=
  dvd O (momentFromN O size x 2) (momentFromN O size x 1).
Definition normalize_gen (O : Ops) (size psd : list (T O)) : list (T O) :=
  let f := dvd O (one O) (momentFromN O size psd 3) in map (fun p => mul O p f) psd.
Definition Rm3_gen (O : Ops) (size x : list (T O)) : T O :=
  dvd O (momentFromN O size x 3) (momentFromN O size x 0).
Definition zener1_gen (f m K Ravg : R) : R := if Rlt_dec 0 Ravg then npow f m / (K * Ravg) else 0.
Definition span_gen (O : Ops) (tn tprev : T O) : T O := sub O tn tprev.
(* LoadDistribution / LoadDistributionFunction: the loaded distribution is normalised and THEN backed up; reset() restores the backup *)
Definition gload_gen (O : Ops) (size raw : list (T O)) : gstate O :=
  let p := normalize_gen O size raw in {| g_psd := p; g_backup := p |}.
Definition greset_gen (O : Ops) (s : gstate O) : gstate O := {| g_psd := g_backup s; g_backup := g_backup s |}.'''


def _find_class(mod, name):
    for n in mod.body:
        if isinstance(n, ast.ClassDef) and n.name == name:
            return n
    raise TranslationError('class %s not found' % name)


def _clip_mode(st, arr):
    """`arr[cond] = 0` -> 'ClipNonfinite' | 'ClipNegNonfinite'"""
    ok = (isinstance(st, ast.Assign) and len(st.targets) == 1 and isinstance(st.targets[0], ast.Subscript)
          and isinstance(st.targets[0].value, ast.Name) and st.targets[0].value.id == arr
          and isinstance(st.value, ast.Constant) and st.value.value == 0 and not isinstance(st.value.value, bool))
    if not ok:
        raise TranslationError('expected `%s[<condition>] = 0`' % arr, st)
    cond = ast.dump(st.targets[0].slice)
    nonfin = ast.dump(ast.parse('~np.isfinite(%s)' % arr).body[0].value)
    negnonfin = ast.dump(ast.parse('(%s < 0) | ~np.isfinite(%s)' % (arr, arr)).body[0].value)
    if cond == negnonfin:
        return 'ClipNegNonfinite'
    if cond == nonfin:
        return 'ClipNonfinite'
    raise TranslationError('unsupported clipping condition on %s' % arr, st)


T_GETCONTRIB = '''
def getStrengthContributions(self, rss, Ls, phase = 'all', selectedContributions=None):
    r0Weak = Ls / np.sqrt(np.cos(self.psi / 2))
    r0Strong = Ls
    weakContributions = []
    strongContributions = []
    contributionsList = []
    wfuncs, sfuncs, contributions, ylabel = self._getStrengthFunctions(selectedContributions)
    for i in range(len(wfuncs)):
        if contributions[i]['all'] or (phase in contributions[i] and contributions[i][phase]):
            with np.errstate(divide='ignore', invalid='ignore'):
                if (phase in contributions[i] and contributions[i][phase]):
                    weakContributions.append(wfuncs[i](rss, Ls, r0Weak, phase))
                    strongContributions.append(sfuncs[i](rss, Ls, r0Strong, phase))
                else:
                    weakContributions.append(wfuncs[i](rss, Ls, r0Weak, 'all'))
                    strongContributions.append(sfuncs[i](rss, Ls, r0Strong, 'all'))
                contributionsList.append(ylabel[i])
    weakContributions = np.array(weakContributions)
    weakContributions[CONDW] = 0
    strongContributions = np.array(strongContributions)
    strongContributions[CONDS] = 0
    tauowo = np.array(self.orowan(rss, Ls))
    tauowo[CONDO] = 0
    return weakContributions, strongContributions, tauowo, contributionsList
'''
HOLES = {'CONDW', 'CONDS', 'CONDO'}

T_GETFUNCS = '''
def _getStrengthFunctions(self, selectedContributions = None):
    wfuncs = [self.coherencyWeak, self.modulusWeak, self.APBweak, self.SFEweak, self.interfacialWeak]
    sfuncs = [self.coherencyStrong, self.modulusStrong, self.APBstrong, self.SFEstrong, self.interfacialStrong]
    contributions = [self.coherencyEffect, self.modulusEffect, self.APBEffect, self.SFEffect, self.IFEffect]
    labels = ['Coherency', 'Modulus', 'APB', 'SFE', 'Interfacial']
    if selectedContributions is None:
        return wfuncs, sfuncs, contributions, labels
    else:
        wfuncsSub, sfuncsSub, contributionsSub, labelsSub = [], [], [], []
        lowerLabels = [l.lower() for l in labels]
        for c in selectedContributions:
            if c.lower() in lowerLabels:
                index = lowerLabels.index(c.lower())
                wfuncsSub.append(wfuncs[index])
                sfuncsSub.append(sfuncs[index])
                contributionsSub.append(contributions[index])
                labelsSub.append(labels[index])
        return wfuncsSub, sfuncsSub, contributionsSub, labelsSub
'''

S_TEMPLATES = None      # filled below (name -> template text), in the order the private attributes are numbered


def shape_check(cls, templates, what):
    """every method named in `templates` has the NORMAL FORM (harness/c18_normalize.py) of its frozen text.
    Returns (normal forms of the source methods, bindings of the template holes)."""
    info_s = N.ClassInfo(cls)
    tcls = copy.deepcopy(cls)
    tmeth = {}
    for name, src in templates.items():
        tmeth[name] = ast.parse(textwrap.dedent(src)).body[0]
    tcls.body = [tmeth.get(st.name, st) if isinstance(st, ast.FunctionDef) else st for st in tcls.body]
    tcls.body += [f for n, f in tmeth.items() if n not in info_s.methods]
    info_t = N.ClassInfo(tcls)
    order = list(templates)
    pm_s, pm_t = N.private_attrs(info_s.methods, order), N.private_attrs(info_t.methods, order)
    forms, binds = {}, {}
    for name in order:
        if name not in info_s.methods:
            raise TranslationError('%s.%s not found' % (what, name))
        fs, ft = info_s.methods[name], info_t.methods[name]
        if ast.dump(fs.args) != ast.dump(ft.args) or [ast.dump(d) for d in fs.decorator_list] != [ast.dump(d) for d in ft.decorator_list]:
            raise TranslationError('%s.%s: signature changed' % (what, name), fs)
        try:
            ns, nt = N.normal_form(fs, info_s, pm_s), N.normal_form(ft, info_t, pm_t)
        except RecursionError:
            raise TranslationError('%s.%s cannot be normalised' % (what, name), fs)
        if not N.unify(ast.Module(body=nt.body, type_ignores=[]), ast.Module(body=ns.body, type_ignores=[]), HOLES, binds):
            raise TranslationError('%s.%s no longer has the shape the model mirrors (its normal form differs from the frozen one)' % (what, name), fs)
        forms[name] = ns
    return forms, binds


def _clip_of(e, what):
    """np.where(C, 0.0, E) in normal form -> clip mode"""
    ok = (N.np_call(e, 'where') and len(e.args) == 3 and isinstance(e.args[1], ast.Constant) and e.args[1].value == 0
          and not isinstance(e.args[1].value, bool))
    if not ok:
        raise TranslationError('getStrengthContributions: %s is not clipped by a mask assignment / np.where' % what)
    c, E = e.args[0], ast.unparse(e.args[2])
    nonfin = ast.dump(ast.parse('~np.isfinite(%s)' % E).body[0].value)
    negnonfin = ast.dump(ast.parse('(%s < 0) | ~np.isfinite(%s)' % (E, E)).body[0].value)
    if ast.dump(c) == negnonfin:
        return 'ClipNegNonfinite'
    if ast.dump(c) == nonfin:
        return 'ClipNonfinite'
    raise TranslationError('getStrengthContributions: unsupported clipping condition on %s' % what)


def translate_strength(src):
    try:
        mod = ast.parse(src)
    except SyntaxError as e:
        raise TranslationError('source does not parse: %s' % e)
    cls = _find_class(mod, 'StrengthModel')
    consts = {st.targets[0].id: st.value for st in mod.body
              if isinstance(st, ast.Assign) and len(st.targets) == 1 and isinstance(st.targets[0], ast.Name)}
    F = Formulas(cls, consts)
    for m in FORMULAS:
        F.formula(m)
    out = []
    decl = []
    for v in VAR_ORDER:
        if v == 'T':
            decl.append('Variable T : R -> R -> R.     (* self.T: the bound line-tension method *)')
        else:
            decl.append('Variable %s : R.' % cname(v))
    out.append('Section StrengthGen.\n' + '\n'.join(decl))
    out += F.out

    # ---- structural methods: normal form of the source = normal form of the frozen text ---------------
    templates = {'_getStrengthFunctions': T_GETFUNCS, 'getStrengthContributions': T_GETCONTRIB, 'combineStrengthContributions': T_COMBINE,
                 'precStrength': T_PREC, 'totalStrength': T_TOTAL, 'ssStrength': T_SS, 'rssterm': T_RSS, 'Lsterm': T_LS,
                 'updateCoupledModel': T_SUPD}
    forms, binds = shape_check(cls, templates, 'StrengthModel')
    # effective spacings: third argument of the weak / strong formula calls in the normal form
    gsc = forms['getStrengthContributions']
    calls = [n for n in ast.walk(gsc) if isinstance(n, ast.Call) and isinstance(n.func, ast.Attribute) and n.func.attr == 'append'
             and n.args and isinstance(n.args[0], ast.Call) and len(n.args[0].args) == 4]
    if len(calls) != 2:
        raise TranslationError('getStrengthContributions: weak / strong formula calls not found', F.methods['getStrengthContributions'])
    r0 = []
    for c in calls:
        e = c.args[0].args[2]
        if isinstance(e, ast.Name) and e.id.startswith('_v'):
            defs = [st.value for st in gsc.body if isinstance(st, ast.Assign) and len(st.targets) == 1 and isinstance(st.targets[0], ast.Name) and st.targets[0].id == e.id]
            if len(defs) != 1:
                raise TranslationError('getStrengthContributions: effective spacing is not a single assignment', F.methods['getStrengthContributions'])
            e = defs[0]
        r0.append(F.expr(e, {'Ls': 'Ls'}, set(), False))
    ret = gsc.body[-1]
    if not (isinstance(ret, ast.Return) and isinstance(ret.value, ast.Tuple) and len(ret.value.elts) == 4):
        raise TranslationError('getStrengthContributions: unexpected result', F.methods['getStrengthContributions'])
    clips = {'CLIPW': _clip_of(ret.value.elts[0], 'the weak contributions'), 'CLIPS': _clip_of(ret.value.elts[1], 'the strong contributions'),
             'CLIPO': _clip_of(ret.value.elts[2], 'the Orowan contribution')}
    out.append('(* getStrengthContributions: effective spacings handed to the weak / strong formulas *)\n'
               'Definition r0Weak_gen (Ls : R) : R := %s.\nDefinition r0Strong_gen (Ls : R) : R := %s.' % (r0[0], r0[1]))
    out.append('End StrengthGen.')
    out.append('(* getStrengthContributions: how the three result arrays are clipped *)\n'
               'Definition clip_weak_gen : clipmode := %s.\nDefinition clip_strong_gen : clipmode := %s.\nDefinition clip_orowan_gen : clipmode := %s.'
               % (clips['CLIPW'], clips['CLIPS'], clips['CLIPO']))
    # the table of _getStrengthFunctions is the frozen one (its normal form was just compared with T_GETFUNCS)
    tf = ast.parse(textwrap.dedent(T_GETFUNCS)).body[0]
    tab = {}
    for st, nm in zip(tf.body[:4], T_GETFUNCS_HEAD):
        tab[nm] = [el.value if isinstance(el, ast.Constant) else el.attr for el in st.value.elts]
    rows = ['("%s", "%s", "%s", "%s")' % r for r in zip(tab['wfuncs'], tab['sfuncs'], tab['contributions'], tab['labels'])]
    out.append('(* _getStrengthFunctions: (weak method, strong method, enabling dictionary, label) *)\n'
               'Definition strength_functions_gen : list (string * string * string * string) :=\n  [%s]%%string.' % ';\n   '.join(rows))
    out += [G_COMBINE, G_PREC, G_TOTAL, G_RSS, G_SUPD]
    names = [F.done[m][0] for m in FORMULAS] + ['r0Weak_gen', 'r0Strong_gen', 'clip_weak_gen', 'clip_strong_gen', 'clip_orowan_gen',
                                                 'strength_functions_gen', 'tausum_gen', 'taumin_gen', 'combine_gen', 'compare_gen',
                                                 'mix_gen', 'total_gen', 'rssterm_gen', 'Lsterm_gen', 'supdate_gen']
    return out, names, {'clips': clips, 'uses': {m: sorted(F.used[m]) for m in FORMULAS}}


def translate_graingrowth(src):
    try:
        mod = ast.parse(src)
    except SyntaxError as e:
        raise TranslationError('source does not parse: %s' % e)
    cls = _find_class(mod, 'GrainGrowthModel')
    if [ast.dump(b) for b in cls.bases] != [ast.dump(ast.parse('GenericModel').body[0].value)]:
        raise TranslationError('GrainGrowthModel no longer derives from GenericModel only', cls)
    meths = {st.name: st for st in cls.body if isinstance(st, ast.FunctionDef)}
    shape_check(cls, T_GG, 'GrainGrowthModel')
    # solve / setTimeInfo / updateCoupledModels must be the inherited ones
    for inherited in ('solve', 'setTimeInfo', 'updateCoupledModels', 'addCouplingModel', 'flattenX', 'unflattenX'):
        if inherited in meths:
            raise TranslationError('GrainGrowthModel overrides %s' % inherited, meths[inherited])
    return [G_GG], ['constrained1_gen', 'growth1_gen', 'Rcr_gen', 'normalize_gen', 'Rm3_gen', 'zener1_gen', 'span_gen', 'gload_gen', 'greset_gen']


T_GENERIC = {
    'addCouplingModel': '''
def addCouplingModel(self, model):
    self.couplingModels.append(model)
''',
    'updateCoupledModels': '''
def updateCoupledModels(self):
    for cm in self.couplingModels:
        cm.updateCoupledModel(self)
''',
    'setTimeInfo': '''
def setTimeInfo(self, currTime, simTime):
    self.deltaTime = simTime
    self.initialTime = currTime
    self.finalTime = currTime+simTime
''',
    'solve': '''
def solve(self, simTime, solverType = SolverType.RK4, verbose=False, vIt=10, minDtFrac = 1e-8, maxDtFrac = 1):
    self.setup()

    solver = DESolver(solverType, minDtFrac = minDtFrac, maxDtFrac = maxDtFrac)
    solver.setFunctions(preProcess=self.preProcess, postProcess=self.postProcess, printHeader=self.printHeader, printStatus=self.printStatus)
    solver.setdXdtFunctions(self.getdXdt, self.correctdXdt, self.getDt, self.flattenX, self.unflattenX)

    t, X0 = self.getCurrentX()
    self.setTimeInfo(t, simTime)
    solver.solve(self.initialTime, X0, self.finalTime, verbose, vIt)
''',
}


def translate_generic(src):
    try:
        mod = ast.parse(src)
    except SyntaxError as e:
        raise TranslationError('source does not parse: %s' % e)
    cls = _find_class(mod, 'GenericModel')
    shape_check(cls, T_GENERIC, 'GenericModel')
    return ['(* GenericModel.solve / setTimeInfo: the callee of GrainGrowthModel.updateCoupledModel (defaults of the call) *)\n'
            'Definition solve_minDtFrac_gen : R := %s.\nDefinition solve_maxDtFrac_gen : R := 1.' % _num(1e-8, None)], ['solve_minDtFrac_gen', 'solve_maxDtFrac_gen']


def translate(strength_src, grain_src, generic_src):
    out, names, info = translate_strength(strength_src)
    o2, n2 = translate_graingrowth(grain_src)
    o3, n3 = translate_generic(generic_src)
    header = ('(* GENERATED on every run by harness/c18_translate.py from kawin/precipitation/coupling/Strength.py,\n'
              '   kawin/precipitation/coupling/GrainGrowth.py and kawin/GenericModel.py.  Do not edit. *)\n'
              'From Coq Require Import Reals String List Bool Arith.\n'
              'Require Import Kawin.Common.Ops Kawin.Common.Vec Kawin.Common.VecLemmas Kawin.C07.Model Kawin.C18.Model.\n'
              'Import ListNotations.\nOpen Scope R_scope.\n\n')
    text = header + '\n\n'.join(out + o2 + o3) + '\n'
    info = dict(info)
    info.update(definitions=names + n2 + n3, sha256=hashlib.sha256(text.encode()).hexdigest())
    return text, info


if __name__ == '__main__':
    import sys, os
    repo = sys.argv[1]
    rd = lambda p: open(os.path.join(repo, p)).read()
    t, i = translate(rd('kawin/precipitation/coupling/Strength.py'), rd('kawin/precipitation/coupling/GrainGrowth.py'), rd('kawin/GenericModel.py'))
    sys.stdout.write(t)
