"""Fail-closed structural translator for C20 (Python ast -> Coq data).

save / load side.  From the ASTs of
    PrecipitationData.ATTRIBUTES / toDict / fromDict      kawin/precipitation/PrecipitationParameters.py
    PrecipitateBase.toDict / fromDict                     kawin/precipitation/KWNBase.py
    PrecipitateModel.toDict / fromDict                    kawin/precipitation/KWNEuler.py
    PopulationBalanceModel.__init__ (+ the methods it calls) kawin/precipitation/PopulationBalance.py
    DiffusionModel.toDict / fromDict                      kawin/diffusion/Diffusion.py
    GenericModel.save / load                              kawin/GenericModel.py
    StrengthModel.save / load                             kawin/precipitation/coupling/Strength.py
it produces, per model class, the *writer entries* (key or per-phase key prefix, source field(s), None
guards) and the *reader actions* (field := data[key] / data[key][i] / int(..) / constructor-guarded,
conditional on keys, constant assignments, derived fields, constructor resets) of coq/C20/Model.v.

surrogate side.  From kawin/thermo/Surrogate.py every method that returns `self.therm.<callee>(...)`
in the else-branch of `if <key> in self.<...>Models:` gives one `ftentry`.

Accepted statement forms are listed in the handlers below; anything else raises TranslationError
(reported by the check as a broken tie).  Field naming: attributes of the model object by name,
attributes of `self.pData` as `pData.<name>`, per-phase `self.PBM[p].<a>` as `PBM.<a>` (phase scope),
`self.<a>[p]` as `<a>` (phase scope).
"""
import ast, hashlib, os, copy


class TranslationError(Exception):
    def __init__(self, msg, node=None, where=''):
        line = getattr(node, 'lineno', None)
        super().__init__('%s%s%s' % (where + ': ' if where else '', msg, ' (line %d)' % line if line else ''))


# ------------------------------------------------------------------------------------------
def _parse(path):
    return ast.parse(open(path).read(), filename=path)


def _class(tree, name, where):
    for n in tree.body:
        if isinstance(n, ast.ClassDef) and n.name == name:
            return n
    raise TranslationError('class %s not found' % name, where=where)


def _method(cls, name, where, required=True):
    for n in cls.body:
        if isinstance(n, ast.FunctionDef) and n.name == name:
            return n
    if required:
        raise TranslationError('method %s.%s not found' % (cls.name, name), where=where)
    return None


def _body(fn):
    """statements without the docstring"""
    b = list(fn.body)
    if b and isinstance(b[0], ast.Expr) and isinstance(getattr(b[0], 'value', None), ast.Constant) and isinstance(b[0].value.value, str):
        b = b[1:]
    return b


def _is_self_attr(e, attr=None):
    return isinstance(e, ast.Attribute) and isinstance(e.value, ast.Name) and e.value.id == 'self' and (attr is None or e.attr == attr)


def _str_const(e):
    return e.value if isinstance(e, ast.Constant) and isinstance(e.value, str) else None


def _is_phase_name(e, loopvar):
    """self.phases[p]"""
    return (isinstance(e, ast.Subscript) and _is_self_attr(e.value, 'phases')
            and isinstance(e.slice, ast.Name) and e.slice.id == loopvar)


def _phase_key(e, loopvar):
    """'<prefix>' + self.phases[p]  ->  prefix"""
    if isinstance(e, ast.BinOp) and isinstance(e.op, ast.Add) and _str_const(e.left) is not None and _is_phase_name(e.right, loopvar):
        return e.left.value
    return None


def _is_phase_loop(st):
    """for p in range(len(self.phases)):  -> loop variable"""
    if (isinstance(st, ast.For) and isinstance(st.target, ast.Name) and not st.orelse
            and isinstance(st.iter, ast.Call) and isinstance(st.iter.func, ast.Name) and st.iter.func.id == 'range'
            and len(st.iter.args) == 1 and isinstance(st.iter.args[0], ast.Call)
            and isinstance(st.iter.args[0].func, ast.Name) and st.iter.args[0].func.id == 'len'
            and len(st.iter.args[0].args) == 1 and _is_self_attr(st.iter.args[0].args[0], 'phases')):
        return st.target.id
    return None


# ------------------------------------------------------------------------------------------
# normalisation: behaviour-preserving spellings are brought to the form the handlers below translate.
#   * `for p, name in enumerate(self.phases)`            ->  `for p in range(len(self.phases))`, name := self.phases[p]
#   * single-assignment local temporaries (also tuple assignments and `[f(k) for k in (<constants>)]`)
#     are substituted into their uses, `(a, b, c)[i]` is reduced to the element
#   * `all(<expr in r> for r in (a, b, c))`                  ->  `<expr in a> and <expr in b> and <expr in c>`
#   * `v = Ctor(...)` ... `self.X[p] = v`                    ->  `self.X[p] = Ctor(...)`, v := self.X[p] afterwards
#   * `t1, t2 = e1, e2` on attributes                        ->  `t1 = e1; t2 = e2` (right-hand sides must be pure)
# Substitution is only done where it cannot change the meaning: a temporary's value must be free of calls
# and must not read what the function writes (a toDict may read self - it never writes it; a fromDict
# temporary may read the dictionary only).  Anything else is left alone and is rejected by the handlers.
class _Subst(ast.NodeTransformer):
    def __init__(self, env):
        self.env = env

    def visit_Name(self, n):
        if isinstance(n.ctx, ast.Load) and n.id in self.env:
            return copy.deepcopy(self.env[n.id])
        return n

    def visit_Subscript(self, n):
        n = self.generic_visit(n)
        if (isinstance(n.value, (ast.Tuple, ast.List)) and isinstance(n.slice, ast.Constant) and isinstance(n.slice.value, int)
                and 0 <= n.slice.value < len(n.value.elts) and not any(isinstance(e, ast.Starred) for e in n.value.elts)):
            return n.value.elts[n.slice.value]
        return n

    def visit_Call(self, n):
        n = self.generic_visit(n)
        # all(<elt> for r in (<literal tuple>))
        if (isinstance(n.func, ast.Name) and n.func.id == 'all' and len(n.args) == 1 and not n.keywords
                and isinstance(n.args[0], (ast.GeneratorExp, ast.ListComp)) and len(n.args[0].generators) == 1):
            g = n.args[0].generators[0]
            if isinstance(g.target, ast.Name) and not g.ifs and isinstance(g.iter, (ast.Tuple, ast.List)) and g.iter.elts:
                vals = [_Subst({g.target.id: e}).visit(copy.deepcopy(n.args[0].elt)) for e in g.iter.elts]
                return vals[0] if len(vals) == 1 else ast.BoolOp(op=ast.And(), values=vals)
        return n

    def visit_ListComp(self, n):
        n = self.generic_visit(n)
        if len(n.generators) == 1:
            g = n.generators[0]
            if isinstance(g.target, ast.Name) and not g.ifs and isinstance(g.iter, (ast.Tuple, ast.List)) and g.iter.elts:
                return ast.List(elts=[_Subst({g.target.id: e}).visit(copy.deepcopy(n.elt)) for e in g.iter.elts], ctx=ast.Load())
        return n


class _HidePhases(ast.NodeTransformer):
    def visit_Attribute(self, n):
        if _is_self_attr(n, 'phases'):
            return ast.Constant(value=0)
        return self.generic_visit(n)


def _pure(e, forbid):
    """no calls (except int / len / all), and none of the names in `forbid` is read; `self.phases` (the
    configuration, never written by a toDict / fromDict - checked by the caller) may always be read"""
    e = _HidePhases().visit(copy.deepcopy(e))
    for n in ast.walk(e):
        if isinstance(n, ast.Call) and not (isinstance(n.func, ast.Name) and n.func.id in ('int', 'len', 'all')):
            return False
        if isinstance(n, (ast.Lambda, ast.Await, ast.Yield, ast.YieldFrom, ast.NamedExpr, ast.Starred)):
            return False
        if isinstance(n, ast.Name) and n.id in forbid:
            return False
    return True


def normalise(fn, mode, ctors=(), where=''):
    """mode 'writer' (toDict-like: never writes self) or 'reader' (fromDict-like); returns the statement list"""
    params = [a.arg for a in fn.args.args]
    stores = {}
    for n in ast.walk(fn):
        if isinstance(n, ast.Name) and isinstance(n.ctx, ast.Store):
            stores[n.id] = stores.get(n.id, 0) + 1
    writes_self = any(isinstance(t, (ast.Attribute, ast.Subscript)) and any(isinstance(x, ast.Name) and x.id == 'self' for x in ast.walk(t))
                      for n in ast.walk(fn) if isinstance(n, (ast.Assign, ast.AugAssign))
                      for t in (n.targets if isinstance(n, ast.Assign) else [n.target]))
    for n in ast.walk(fn):
        if isinstance(n, (ast.Assign, ast.AugAssign)):
            for t in (n.targets if isinstance(n, ast.Assign) else [n.target]):
                if any(_is_self_attr(x, 'phases') for x in ast.walk(t)):
                    return _body(fn)         # the phase list itself is written: nothing is substituted
    if mode == 'writer' and writes_self:
        return _body(fn)                     # not a pure writer: no substitution at all
    dname = params[1] if (mode == 'reader' and len(params) > 1) else None
    forbid = {'self'} if mode == 'reader' else set()
    if mode == 'writer':
        # the dictionary that is being filled must not be read through a temporary
        b0 = _body(fn)
        if b0 and isinstance(b0[0], ast.Assign) and isinstance(b0[0].targets[0], ast.Name):
            forbid = {b0[0].targets[0].id}

    def is_temp(name):
        return name not in params and name not in forbid and stores.get(name, 0) == 1

    def proc(stmts, env, pending):
        out = []
        for st in stmts:
            # ---- loop header
            if (isinstance(st, ast.For) and isinstance(st.target, ast.Tuple) and len(st.target.elts) == 2
                    and all(isinstance(e, ast.Name) for e in st.target.elts) and not st.orelse
                    and isinstance(st.iter, ast.Call) and isinstance(st.iter.func, ast.Name) and st.iter.func.id == 'enumerate'
                    and len(st.iter.args) == 1 and not st.iter.keywords and _is_self_attr(st.iter.args[0], 'phases')
                    and all(stores.get(e.id, 0) == 1 for e in st.target.elts)):
                iv, nv = st.target.elts[0].id, st.target.elts[1].id
                env2 = dict(env)
                env2[nv] = ast.Subscript(value=ast.Attribute(value=ast.Name(id='self', ctx=ast.Load()), attr='phases', ctx=ast.Load()),
                                         slice=ast.Name(id=iv, ctx=ast.Load()), ctx=ast.Load())
                rng = ast.Call(func=ast.Name(id='range', ctx=ast.Load()),
                               args=[ast.Call(func=ast.Name(id='len', ctx=ast.Load()), args=[st.iter.args[0]], keywords=[])], keywords=[])
                new = ast.For(target=ast.Name(id=iv, ctx=ast.Store()), iter=rng, body=proc(st.body, env2, dict(pending)), orelse=[])
                out.append(ast.copy_location(new, st))
                continue
            if isinstance(st, ast.For):
                new = copy.copy(st)
                new.iter = _Subst(env).visit(copy.deepcopy(st.iter))
                new.body = proc(st.body, dict(env), dict(pending))
                out.append(new)
                continue
            if isinstance(st, ast.If):
                new = copy.copy(st)
                new.test = _Subst(env).visit(copy.deepcopy(st.test))
                new.body = proc(st.body, dict(env), dict(pending))
                new.orelse = proc(st.orelse, dict(env), dict(pending))
                out.append(new)
                continue
            if isinstance(st, ast.Assign) and len(st.targets) == 1:
                tgt = st.targets[0]
                # tuple assignment: split when the right-hand sides are pure
                if isinstance(tgt, ast.Tuple):
                    val = _Subst(env).visit(copy.deepcopy(st.value))
                    if (isinstance(val, (ast.Tuple, ast.List)) and len(val.elts) == len(tgt.elts)
                            and all(_pure(v, forbid) for v in val.elts)):
                        for t, v in zip(tgt.elts, val.elts):
                            out.extend(proc([ast.copy_location(ast.Assign(targets=[t], value=v), st)], env, pending))
                        continue
                    out.append(st)
                    continue
                if isinstance(tgt, ast.Name) and is_temp(tgt.id):
                    val = _Subst(env).visit(copy.deepcopy(st.value))
                    if isinstance(val, ast.Call) and isinstance(val.func, ast.Name) and val.func.id in ctors:
                        pending[tgt.id] = val
                        continue
                    if _pure(val, forbid):
                        env[tgt.id] = val
                        continue
                    new = copy.copy(st); new.value = val
                    out.append(new)
                    continue
                # self.X[p] = v   with v a pending constructor call
                if isinstance(st.value, ast.Name) and st.value.id in pending and not isinstance(tgt, ast.Name):
                    new = ast.copy_location(ast.Assign(targets=[_Subst(env).visit(copy.deepcopy(tgt))], value=pending.pop(st.value.id)), st)
                    load = copy.deepcopy(new.targets[0])
                    for n in ast.walk(load):
                        if hasattr(n, 'ctx') and isinstance(n.ctx, ast.Store):
                            n.ctx = ast.Load()
                    env[st.value.id] = load
                    out.append(new)
                    continue
            out.append(_Subst(env).visit(copy.deepcopy(st)))
        return out

    return proc(_body(fn), {}, {})


# ------------------------------------------------------------------------------------------
# object fields
def _glob_field(e, root=''):
    """self.<attr> -> field name"""
    if _is_self_attr(e):
        return root + e.attr
    return None


def _phase_field(e, loopvar):
    """self.PBM[p].<a> -> 'PBM.<a>' ;  self.<a>[p] -> '<a>'"""
    if (isinstance(e, ast.Attribute) and isinstance(e.value, ast.Subscript) and _is_self_attr(e.value.value)
            and isinstance(e.value.slice, ast.Name) and e.value.slice.id == loopvar):
        return e.value.value.attr + '.' + e.attr
    if (isinstance(e, ast.Subscript) and _is_self_attr(e.value) and isinstance(e.slice, ast.Name) and e.slice.id == loopvar):
        return e.value.attr
    return None


def _not_none_fields(test, fieldfn):
    """A is not None [and B is not None ...] -> [fields]"""
    parts = test.values if isinstance(test, ast.BoolOp) and isinstance(test.op, ast.And) else [test]
    out = []
    for t in parts:
        if (isinstance(t, ast.Compare) and len(t.ops) == 1 and isinstance(t.ops[0], ast.IsNot)
                and isinstance(t.comparators[0], ast.Constant) and t.comparators[0].value is None):
            f = fieldfn(t.left)
            if f is None:
                raise TranslationError('unsupported operand of `is not None`', t)
            out.append(f)
        else:
            raise TranslationError('unsupported condition in a toDict (only `<field> is not None` joined by `and`)', t)
    return out


def _in_data_keys(test, keyfn, dataname):
    """'<k>' in data [and ...] -> [keys]"""
    parts = test.values if isinstance(test, ast.BoolOp) and isinstance(test.op, ast.And) else [test]
    out = []
    for t in parts:
        if (isinstance(t, ast.Compare) and len(t.ops) == 1 and isinstance(t.ops[0], ast.In)
                and isinstance(t.comparators[0], ast.Name) and t.comparators[0].id == dataname):
            k = keyfn(t.left)
            if k is None:
                raise TranslationError('unsupported key expression in `in data`', t)
            out.append(k)
        else:
            raise TranslationError('unsupported condition in a fromDict (only `<key> in data` joined by `and`)', t)
    return out


# ------------------------------------------------------------------------------------------
class Ctx:
    """sources and memoised class translations"""

    def __init__(self, repo):
        self.repo = repo
        self.files = {
            'PrecipitationData': 'kawin/precipitation/PrecipitationParameters.py',
            'PrecipitateBase': 'kawin/precipitation/KWNBase.py',
            'PrecipitateModel': 'kawin/precipitation/KWNEuler.py',
            'PopulationBalanceModel': 'kawin/precipitation/PopulationBalance.py',
            'DiffusionModel': 'kawin/diffusion/Diffusion.py',
            'GenericModel': 'kawin/GenericModel.py',
            'StrengthModel': 'kawin/precipitation/coupling/Strength.py',
        }
        self.bases = {'PrecipitateModel': 'PrecipitateBase', 'PrecipitateBase': 'GenericModel', 'DiffusionModel': 'GenericModel'}
        self.members = {'pData': 'PrecipitationData'}          # self.<member> objects with their own toDict / fromDict
        self.trees = {}
        self.sha = hashlib.sha256()

    def cls(self, name):
        if name not in self.trees:
            path = os.path.join(self.repo, self.files[name])
            src = open(path).read()
            self.sha.update(src.encode())
            self.trees[name] = _class(ast.parse(src, filename=path), name, self.files[name])
        return self.trees[name]

    def check_base(self, name):
        """the statically assumed base class is the declared one"""
        c = self.cls(name)
        want = self.bases.get(name)
        got = [b.id if isinstance(b, ast.Name) else getattr(b, 'attr', '?') for b in c.bases]
        if want is not None and got != [want]:
            raise TranslationError('class %s derives from %r, translator assumes [%r]' % (name, got, want), c, self.files[name])

    def attributes_const(self, clsname, const):
        c = self.cls(clsname)
        for n in c.body:
            if isinstance(n, ast.Assign) and len(n.targets) == 1 and isinstance(n.targets[0], ast.Name) and n.targets[0].id == const:
                if isinstance(n.value, (ast.List, ast.Tuple)) and all(_str_const(e) is not None for e in n.value.elts):
                    return [e.value for e in n.value.elts]
                raise TranslationError('%s.%s is not a literal list of strings' % (clsname, const), n, self.files[clsname])
        raise TranslationError('%s.%s not found' % (clsname, const), c, self.files[clsname])


# ------------------------------------------------------------------------------------------
# writer:  returns (global entries, phase entries), entry = (key, src, cond)
#   src = ('field', name) | ('list', [names])
def translate_writer(cx, clsname, root=''):
    where = cx.files[clsname]
    cx.check_base(clsname)
    fn = _method(cx.cls(clsname), 'toDict', where)
    if [a.arg for a in fn.args.args] != ['self'] or fn.args.vararg or fn.args.kwarg:
        raise TranslationError('%s.toDict has unexpected parameters' % clsname, fn, where)
    body = normalise(fn, 'writer', where=where)
    wg, wp = [], []
    dname = None
    seen_loop = False
    i = 0
    if not body:
        raise TranslationError('%s.toDict is empty' % clsname, fn, where)
    # ---- initialisation of the dictionary
    st = body[0]
    if isinstance(st, ast.Return) and isinstance(st.value, ast.Dict) and not st.value.keys and len(body) == 1:
        return [], []                                           # GenericModel.toDict: return {}
    if not (isinstance(st, ast.Assign) and len(st.targets) == 1 and isinstance(st.targets[0], ast.Name)):
        raise TranslationError('%s.toDict must start with `<name> = <dictionary>`' % clsname, st, where)
    dname = st.targets[0].id
    v = st.value
    if isinstance(v, ast.Dict):
        for k, e in zip(v.keys, v.values):
            ks = _str_const(k)
            f = _glob_field(e, root)
            if ks is None or f is None:
                raise TranslationError('dictionary literal entry is not `<str>: self.<attr>`', k or e, where)
            wg.append((ks, ('field', f), []))
    elif isinstance(v, ast.DictComp):
        # {name: getattr(self, name) for name in self.ATTRIBUTES}
        g = v.generators
        ok = (len(g) == 1 and not g[0].ifs and isinstance(g[0].target, ast.Name) and _is_self_attr(g[0].iter)
              and isinstance(v.key, ast.Name) and v.key.id == g[0].target.id
              and isinstance(v.value, ast.Call) and isinstance(v.value.func, ast.Name) and v.value.func.id == 'getattr'
              and len(v.value.args) == 2 and isinstance(v.value.args[0], ast.Name) and v.value.args[0].id == 'self'
              and isinstance(v.value.args[1], ast.Name) and v.value.args[1].id == g[0].target.id)
        if not ok:
            raise TranslationError('unsupported dictionary comprehension in %s.toDict' % clsname, v, where)
        for name in cx.attributes_const(clsname, g[0].iter.attr):
            wg.append((name, ('field', root + name), []))
    elif (isinstance(v, ast.Call) and isinstance(v.func, ast.Attribute) and v.func.attr == 'toDict' and not v.args and not v.keywords):
        tgt = v.func.value
        if isinstance(tgt, ast.Call) and isinstance(tgt.func, ast.Name) and tgt.func.id == 'super' and not tgt.args:
            base = cx.bases.get(clsname)
            if base is None:
                raise TranslationError('super().toDict() in a class without a known base', v, where)
            g0, p0 = translate_writer(cx, base, root)
            wg += g0
            wp += p0
        elif _is_self_attr(tgt) and tgt.attr in cx.members:
            g0, p0 = translate_writer(cx, cx.members[tgt.attr], root + tgt.attr + '.')
            if p0:
                raise TranslationError('member object with per-phase entries is not supported', v, where)
            wg += g0
        else:
            raise TranslationError('unsupported toDict() delegation', v, where)
    else:
        raise TranslationError('unsupported initial value of the dictionary in %s.toDict' % clsname, v, where)

    def data_assign(st, keyfn, fieldfn):
        """data[<key>] = <value>  ->  (key, src)"""
        if not (isinstance(st, ast.Assign) and len(st.targets) == 1 and isinstance(st.targets[0], ast.Subscript)
                and isinstance(st.targets[0].value, ast.Name) and st.targets[0].value.id == dname):
            raise TranslationError('unsupported statement in %s.toDict' % clsname, st, where)
        k = keyfn(st.targets[0].slice)
        if k is None:
            raise TranslationError('unsupported key expression', st, where)
        e = st.value
        if isinstance(e, ast.List):
            fs = [fieldfn(x) for x in e.elts]
            if any(f is None for f in fs):
                raise TranslationError('list literal with an unsupported element', e, where)
            return k, ('list', fs)
        f = fieldfn(e)
        if f is None:
            raise TranslationError('unsupported value expression', e, where)
        return k, ('field', f)

    def block(stmts, out, keyfn, fieldfn, cond):
        for st in stmts:
            if isinstance(st, ast.If):
                if st.orelse:
                    raise TranslationError('`else` in a toDict is not supported', st, where)
                if cond:
                    raise TranslationError('nested conditions in a toDict are not supported', st, where)
                block(st.body, out, keyfn, fieldfn, _not_none_fields(st.test, fieldfn))
            else:
                k, src = data_assign(st, keyfn, fieldfn)
                out.append((k, src, list(cond)))

    for st in body[1:]:
        if isinstance(st, ast.Return):
            if not (isinstance(st.value, ast.Name) and st.value.id == dname) or st is not body[-1]:
                raise TranslationError('%s.toDict must end with `return %s`' % (clsname, dname), st, where)
            return wg, wp
        lv = _is_phase_loop(st)
        if lv is not None:
            seen_loop = True
            block(st.body, wp, lambda e: _phase_key(e, lv), lambda e: _phase_field(e, lv), [])
        else:
            if seen_loop:
                raise TranslationError('global entries after the per-phase loop are not supported', st, where)
            block([st], wg, _str_const, lambda e: _glob_field(e, root), [])
    raise TranslationError('%s.toDict does not return the dictionary' % clsname, fn, where)


# ------------------------------------------------------------------------------------------
# constructor flow of PopulationBalanceModel: attribute -> symbolic value after __init__
def ctor_flow(cx, clsname):
    where = cx.files[clsname]
    c = cx.cls(clsname)
    init = _method(c, '__init__', where)
    params = [a.arg for a in init.args.args][1:]
    env = {}
    order = []

    def setattr_(a, v):
        if a not in env:
            order.append(a)
        env[a] = v

    def ev(e, loc):
        if isinstance(e, ast.Name):
            if e.id in loc:
                return loc[e.id]
            return ('other',)
        if isinstance(e, ast.Constant):
            return ('const', e.value)
        if _is_self_attr(e):
            return env.get(e.attr, ('other',))
        # np.amax([10*self.a, b])
        if (isinstance(e, ast.Call) and isinstance(e.func, ast.Attribute) and e.func.attr == 'amax'
                and isinstance(e.func.value, ast.Name) and e.func.value.id == 'np' and len(e.args) == 1 and not e.keywords
                and isinstance(e.args[0], ast.List) and len(e.args[0].elts) == 2):
            a, b = e.args[0].elts
            if (isinstance(a, ast.BinOp) and isinstance(a.op, ast.Mult) and isinstance(a.left, ast.Constant) and a.left.value == 10):
                va, vb = ev(a.right, loc), ev(b, loc)
                if va[0] == 'param' and vb[0] == 'param':
                    return ('guard', va[1], vb[1])
        return ('other',)

    def run(fn, loc, depth):
        if depth > 3:
            raise TranslationError('constructor call chain too deep', fn, where)
        for st in _body(fn):
            if isinstance(st, ast.Assign) and len(st.targets) == 1 and _is_self_attr(st.targets[0]):
                setattr_(st.targets[0].attr, ev(st.value, loc))
            elif (isinstance(st, ast.Expr) and isinstance(st.value, ast.Call) and _is_self_attr(st.value.func)):
                m = _method(c, st.value.func.attr, where)
                mp = [a.arg for a in m.args.args][1:]
                defaults = m.args.defaults
                loc2 = {}
                nd = len(mp) - len(defaults)
                for k, p in enumerate(mp):
                    if k < len(st.value.args):
                        loc2[p] = ev(st.value.args[k], loc)
                    elif k >= nd and isinstance(defaults[k - nd], ast.Constant):
                        loc2[p] = ('const', defaults[k - nd].value)
                    else:
                        loc2[p] = ('other',)
                if st.value.keywords:
                    raise TranslationError('keyword arguments in a constructor helper call', st, where)
                run(m, loc2, depth + 1)
            elif isinstance(st, ast.If) and isinstance(st.test, ast.Name) and loc.get(st.test.id, ('other',))[0] == 'const' and not st.orelse:
                if loc[st.test.id][1]:
                    sub = ast.FunctionDef(name='_', args=None, body=st.body, decorator_list=[])
                    run_block(st.body, loc, depth)
            else:
                raise TranslationError('unsupported statement in the constructor flow of %s' % clsname, st, where)

    def run_block(stmts, loc, depth):
        fake = ast.FunctionDef(name='_', args=None, body=list(stmts), decorator_list=[])
        run(fake, loc, depth)

    run(init, {p: ('param', p) for p in params}, 0)
    return params, [(a, env[a]) for a in order]


# ------------------------------------------------------------------------------------------
# reader: returns (global actions, phase actions)
#   ('set', field, key, how, cond) how = ('whole',) | ('idx', i) | ('intidx', i) | ('guardidx', i, imin)
#   ('const', field, text, cond) | ('derive', field, fn, arg) | ('reset', nones, others)
def translate_reader(cx, clsname, root=''):
    where = cx.files[clsname]
    cx.check_base(clsname)
    fn = _method(cx.cls(clsname), 'fromDict', where)
    ps = [a.arg for a in fn.args.args]
    if len(ps) != 2 or ps[0] not in ('self', 'cls') or fn.args.vararg or fn.args.kwarg:
        raise TranslationError('%s.fromDict has unexpected parameters' % clsname, fn, where)
    dname = ps[1]
    rg, rp = [], []
    body = normalise(fn, 'reader', ctors=tuple(cx.files), where=where)
    if len(body) == 1 and isinstance(body[0], ast.Pass):
        return [], []

    def data_get(e, keyfn):
        """data[<key>] -> key"""
        if isinstance(e, ast.Subscript) and isinstance(e.value, ast.Name) and e.value.id == dname:
            return keyfn(e.slice)
        return None

    def glob_stmt(st, cond, out):
        # self.<attr> = data['key']
        if isinstance(st, ast.Assign) and len(st.targets) == 1 and _is_self_attr(st.targets[0]):
            k = data_get(st.value, _str_const)
            if k is not None:
                out.append(('set', root + st.targets[0].attr, k, ('whole',), list(cond)))
                return
            # self.n = len(self.time) - 1
            e = st.value
            if (not cond and isinstance(e, ast.BinOp) and isinstance(e.op, ast.Sub) and isinstance(e.right, ast.Constant) and e.right.value == 1
                    and isinstance(e.left, ast.Call) and isinstance(e.left.func, ast.Name) and e.left.func.id == 'len'
                    and len(e.left.args) == 1 and _is_self_attr(e.left.args[0])):
                out.append(('derive', root + st.targets[0].attr, 'len-1', root + e.left.args[0].attr))
                return
            if isinstance(e, ast.Constant):
                out.append(('const', root + st.targets[0].attr, repr(e.value), list(cond)))
                return
            raise TranslationError('unsupported assignment in %s.fromDict' % clsname, st, where)
        # for name in self.ATTRIBUTES: setattr(self, name, data[name])
        if (isinstance(st, ast.For) and not cond and isinstance(st.target, ast.Name) and _is_self_attr(st.iter) and len(st.body) == 1 and not st.orelse):
            c = st.body[0]
            nm = st.target.id
            ok = (isinstance(c, ast.Expr) and isinstance(c.value, ast.Call) and isinstance(c.value.func, ast.Name) and c.value.func.id == 'setattr'
                  and len(c.value.args) == 3 and isinstance(c.value.args[0], ast.Name) and c.value.args[0].id == 'self'
                  and isinstance(c.value.args[1], ast.Name) and c.value.args[1].id == nm
                  and isinstance(c.value.args[2], ast.Subscript) and isinstance(c.value.args[2].value, ast.Name) and c.value.args[2].value.id == dname
                  and isinstance(c.value.args[2].slice, ast.Name) and c.value.args[2].slice.id == nm)
            if ok:
                for name in cx.attributes_const(clsname, st.iter.attr):
                    out.append(('set', root + name, name, ('whole',), []))
                return
            raise TranslationError('unsupported loop in %s.fromDict' % clsname, st, where)
        # delegation
        if isinstance(st, ast.Expr) and isinstance(st.value, ast.Call) and isinstance(st.value.func, ast.Attribute) and st.value.func.attr == 'fromDict' and not cond:
            call = st.value
            if not (len(call.args) == 1 and isinstance(call.args[0], ast.Name) and call.args[0].id == dname and not call.keywords):
                raise TranslationError('fromDict delegation with unexpected arguments', st, where)
            tgt = call.func.value
            if isinstance(tgt, ast.Call) and isinstance(tgt.func, ast.Name) and tgt.func.id == 'super' and not tgt.args:
                base = cx.bases.get(clsname)
                if base is None:
                    raise TranslationError('super().fromDict() in a class without a known base', st, where)
                g0, p0 = translate_reader(cx, base, root)
                out.extend(g0)
                rp.extend(p0)
                return
            if _is_self_attr(tgt) and tgt.attr in cx.members:
                g0, p0 = translate_reader(cx, cx.members[tgt.attr], root + tgt.attr + '.')
                if p0:
                    raise TranslationError('member object with per-phase actions is not supported', st, where)
                out.extend(g0)
                return
        if isinstance(st, ast.If) and not cond and not st.orelse:
            keys = _in_data_keys(st.test, _str_const, dname)
            for s2 in st.body:
                glob_stmt(s2, keys, out)
            return
        raise TranslationError('unsupported statement in %s.fromDict' % clsname, st, where)

    def phase_block(stmts, lv, loc, cond, out):
        keyfn = lambda e: _phase_key(e, lv)

        def value(e):
            """expression -> (key, how) read from data, via locals"""
            k = data_get(e, keyfn)
            if k is not None:
                return k, ('whole',)
            if (isinstance(e, ast.Subscript) and isinstance(e.slice, ast.Constant) and isinstance(e.slice.value, int)
                    and data_get(e.value, keyfn) is not None):
                return data_get(e.value, keyfn), ('idx', e.slice.value)
            if isinstance(e, ast.Name) and e.id in loc:
                return loc[e.id], ('whole',)
            if isinstance(e, ast.Subscript) and isinstance(e.value, ast.Name) and e.value.id in loc and isinstance(e.slice, ast.Constant) and isinstance(e.slice.value, int):
                return loc[e.value.id], ('idx', e.slice.value)
            if isinstance(e, ast.Call) and isinstance(e.func, ast.Name) and e.func.id == 'int' and len(e.args) == 1 and not e.keywords:
                k2, h2 = value(e.args[0])
                if h2[0] == 'idx':
                    return k2, ('intidx', h2[1])
            raise TranslationError('unsupported value expression in the per-phase part of %s.fromDict' % clsname, e, where)

        for st in stmts:
            if isinstance(st, ast.If):
                if cond or st.orelse:
                    raise TranslationError('nested / else conditions in a fromDict are not supported', st, where)
                phase_block(st.body, lv, loc, _in_data_keys(st.test, keyfn, dname), out)
                continue
            if not (isinstance(st, ast.Assign) and len(st.targets) == 1):
                raise TranslationError('unsupported statement in the per-phase part of %s.fromDict' % clsname, st, where)
            t = st.targets[0]
            if isinstance(t, ast.Name):
                if cond:
                    raise TranslationError('local variable assigned under a condition', st, where)
                k = data_get(st.value, keyfn)
                if k is None:
                    raise TranslationError('local variable must be `data[<prefix> + self.phases[p]]`', st, where)
                loc[t.id] = k
                continue
            # self.X[p] = ClassName(args)   (constructor)
            if (isinstance(t, ast.Subscript) and _is_self_attr(t.value) and isinstance(t.slice, ast.Name) and t.slice.id == lv
                    and isinstance(st.value, ast.Call) and isinstance(st.value.func, ast.Name) and st.value.func.id in cx.files):
                if cond:
                    raise TranslationError('constructor call under a condition', st, where)
                cname = st.value.func.id
                pfx = t.value.attr + '.'
                params, flow = ctor_flow(cx, cname)
                if st.value.keywords or len(st.value.args) > len(params):
                    raise TranslationError('constructor call with keywords / too many arguments', st, where)
                actual = {}
                for p_, a_ in zip(params, st.value.args):
                    actual[p_] = value(a_)
                nones = [pfx + a for a, v in flow if v == ('const', None)]
                others = [pfx + a for a, v in flow if v != ('const', None)]
                out.append(('reset', nones, others))
                for a, v in flow:
                    if v[0] == 'param' and v[1] in actual:
                        k, h = actual[v[1]]
                        out.append(('set', pfx + a, k, h, []))
                    elif v[0] == 'guard' and v[1] in actual and v[2] in actual:
                        (km, hm), (kx, hx) = actual[v[1]], actual[v[2]]
                        if km != kx or hm[0] != 'idx' or hx[0] != 'idx':
                            raise TranslationError('guarded constructor argument not taken from one list', st, where)
                        out.append(('set', pfx + a, kx, ('guardidx', hx[1], hm[1]), []))
                continue
            f = _phase_field(t, lv)
            if f is None:
                raise TranslationError('unsupported assignment target in the per-phase part of %s.fromDict' % clsname, st, where)
            if isinstance(st.value, ast.Constant):
                out.append(('const', f, repr(st.value.value), list(cond)))
                continue
            k, h = value(st.value)
            out.append(('set', f, k, h, list(cond)))

    seen_loop = False
    for st in body:
        lv = _is_phase_loop(st)
        if lv is not None:
            seen_loop = True
            phase_block(st.body, lv, {}, [], rp)
        else:
            if seen_loop:
                raise TranslationError('global statements after the per-phase loop are not supported', st, where)
            glob_stmt(st, [], rg)
    return rg, rp


# ------------------------------------------------------------------------------------------
def _endswith(t, fname):
    """<fname>.endswith(S) -> S"""
    if (isinstance(t, ast.Call) and isinstance(t.func, ast.Attribute) and t.func.attr == 'endswith'
            and isinstance(t.func.value, ast.Name) and t.func.value.id == fname
            and len(t.args) == 1 and not t.keywords and _str_const(t.args[0]) is not None):
        return t.args[0].value
    return None


def _plus_suffix(e, fname):
    """<fname> + S -> S"""
    if (isinstance(e, ast.BinOp) and isinstance(e.op, ast.Add) and isinstance(e.left, ast.Name) and e.left.id == fname
            and _str_const(e.right) is not None):
        return e.right.value
    return None


def _is_name(e, fname):
    return isinstance(e, ast.Name) and e.id == fname


def _name_steps(stmts, fname, where, what):
    """statements that turn the caller's file name into the name of the file: nothing, or
    `if not <name>.endswith(S): <name> += S` (also `<name> = <name> + S`)  ->  ('id',) | ('ensure_suffix', S)"""
    if not stmts:
        return ('id',)
    if len(stmts) == 1 and isinstance(stmts[0], ast.If) and not stmts[0].orelse and len(stmts[0].body) == 1:
        t, b = stmts[0].test, stmts[0].body[0]
        if isinstance(t, ast.UnaryOp) and isinstance(t.op, ast.Not):
            suf = _endswith(t.operand, fname)
            if suf is not None:
                if (isinstance(b, ast.AugAssign) and isinstance(b.op, ast.Add) and _is_name(b.target, fname) and _str_const(b.value) == suf):
                    return ('ensure_suffix', suf)
                if (isinstance(b, ast.Assign) and len(b.targets) == 1 and _is_name(b.targets[0], fname) and _plus_suffix(b.value, fname) == suf):
                    return ('ensure_suffix', suf)
    raise TranslationError('%s: the file name is computed in a way the translator does not know '
                           '(accepted: the name as given, or `if not name.endswith(S): name += S`, directly or in a helper)' % what, stmts[0], where)


def _compose_name(a, b, node, where, what):
    if a == ('id',):
        return b
    if b == ('id',) or a == b:          # ensuring the same suffix twice is ensuring it once
        return a
    raise TranslationError('%s: two different file-name transformations in a row' % what, node, where)


def _name_expr(e, fname, cx_cls, tree_funcs, where, what, depth=0):
    """expression giving the file name as a function of the variable `fname`:
    the variable; `X if X.endswith(S) else X + S` (or the negated test with swapped branches); a call of a
    helper (method of the class - self.h(X), Class.h(X), cls.h(X) - or module function h(X)) whose body is
    such an expression or `_name_steps` followed by `return X`, or `if X.endswith(S): return X` `return X + S`"""
    if _is_name(e, fname):
        return ('id',)
    if isinstance(e, ast.IfExp):
        t, a, b = e.test, e.body, e.orelse
        if isinstance(t, ast.UnaryOp) and isinstance(t.op, ast.Not):
            t, a, b = t.operand, b, a
        suf = _endswith(t, fname)
        if suf is not None and _is_name(a, fname) and _plus_suffix(b, fname) == suf:
            return ('ensure_suffix', suf)
    if isinstance(e, ast.Call) and len(e.args) == 1 and not e.keywords and depth < 2:
        helper = None
        f = e.func
        if isinstance(f, ast.Attribute) and isinstance(f.value, ast.Name) and cx_cls is not None and f.value.id in ('self', 'cls', cx_cls.name):
            helper = _method(cx_cls, f.attr, where, required=False)
            static = helper is not None and any(isinstance(d, ast.Name) and d.id == 'staticmethod' for d in helper.decorator_list)
            nskip = 0 if static else 1
        elif isinstance(f, ast.Name) and f.id in tree_funcs:
            helper, nskip = tree_funcs[f.id], 0
        if helper is not None:
            hp = [a.arg for a in helper.args.args][nskip:]
            if len(hp) == 1 and not helper.args.vararg and not helper.args.kwarg and not helper.args.kwonlyargs:
                inner = _name_expr(e.args[0], fname, cx_cls, tree_funcs, where, what, depth + 1)
                hb = _body(helper)
                x = hp[0]
                res = None
                if hb and isinstance(hb[-1], ast.Return) and hb[-1].value is not None:
                    if len(hb) == 2 and isinstance(hb[0], ast.If) and not hb[0].orelse and len(hb[0].body) == 1 \
                            and isinstance(hb[0].body[0], ast.Return) and _is_name(hb[0].body[0].value, x):
                        suf = _endswith(hb[0].test, x)
                        if suf is not None and _plus_suffix(hb[-1].value, x) == suf:
                            res = ('ensure_suffix', suf)
                    if res is None and _is_name(hb[-1].value, x):
                        res = _name_steps(hb[:-1], x, where, what + ' (helper %s)' % helper.name)
                    if res is None and len(hb) == 1:
                        res = _name_expr(hb[0].value, x, cx_cls, tree_funcs, where, what, depth + 1)
                if res is not None:
                    return _compose_name(inner, res, e, where, what)
    raise TranslationError('%s: the file name is computed in a way the translator does not know '
                           '(accepted: the name as given, or `if not name.endswith(S): name += S`, directly or in a helper)' % what, e, where)


def generic_wiring(cx):
    """GenericModel.save stores exactly self.toDict() in the file named by a translated function of the
    caller's name; load reads the file named by a translated function of the caller's name and passes its
    dictionary to fromDict"""
    where = cx.files['GenericModel']
    c = cx.cls('GenericModel')
    sv, ld = _method(c, 'save', where), _method(c, 'load', where)
    info = {}
    for fn in (sv, ld):
        if len(fn.args.args) != 2 or fn.args.vararg or fn.args.kwarg or fn.args.kwonlyargs or fn.args.defaults:
            raise TranslationError('GenericModel.%s: expected the parameters (self, filename)' % fn.name, fn, where)
    b = _body(sv)
    fname = sv.args.args[1].arg
    ok = (len(b) >= 2 and isinstance(b[0], ast.Assign) and isinstance(b[0].targets[0], ast.Name)
          and isinstance(b[0].value, ast.Call) and _is_self_attr(b[0].value.func, 'toDict') and not b[0].value.args)
    if not ok:
        raise TranslationError('GenericModel.save does not start with `data = self.toDict()`', sv, where)
    dn = b[0].targets[0].id
    last = b[-1]
    ok = (isinstance(last, ast.Expr) and isinstance(last.value, ast.Call) and isinstance(last.value.func, ast.Attribute)
          and last.value.func.attr in ('savez_compressed', 'savez') and isinstance(last.value.func.value, ast.Name) and last.value.func.value.id == 'np'
          and len(last.value.args) == 1
          and len(last.value.keywords) == 1 and last.value.keywords[0].arg is None
          and isinstance(last.value.keywords[0].value, ast.Name) and last.value.keywords[0].value.id == dn)
    if not ok:
        raise TranslationError('GenericModel.save does not end with np.savez*(%s, **data)' % fname, last, where)
    for st in b[1:-1]:
        if any(isinstance(n, ast.Name) and n.id == dn for n in ast.walk(st)):
            raise TranslationError('GenericModel.save modifies the dictionary before writing it', st, where)
    info['save_name'] = _compose_name(_name_steps(b[1:-1], fname, where, 'GenericModel.save'),
                                      _name_expr(last.value.args[0], fname, c, {}, where, 'GenericModel.save'), last, where, 'GenericModel.save')
    info['writer'] = last.value.func.attr
    b = _body(ld)
    fname = ld.args.args[1].arg
    last = b[-1]
    ok = (isinstance(last, ast.Expr) and isinstance(last.value, ast.Call) and _is_self_attr(last.value.func, 'fromDict')
          and len(last.value.args) == 1 and isinstance(last.value.args[0], ast.Call)
          and isinstance(last.value.args[0].func, ast.Name) and last.value.args[0].func.id == 'dict'
          and len(last.value.args[0].args) == 1 and isinstance(last.value.args[0].args[0], ast.Name))
    if not ok:
        raise TranslationError('GenericModel.load does not end with `self.fromDict(dict(data))`', last, where)
    dn = last.value.args[0].args[0].id
    if len(b) < 2:
        raise TranslationError('GenericModel.load does not read a file', ld, where)
    rd = b[-2]
    ok = (isinstance(rd, ast.Assign) and len(rd.targets) == 1 and isinstance(rd.targets[0], ast.Name) and rd.targets[0].id == dn
          and isinstance(rd.value, ast.Call) and isinstance(rd.value.func, ast.Attribute) and rd.value.func.attr == 'load'
          and isinstance(rd.value.func.value, ast.Name) and rd.value.func.value.id == 'np'
          and len(rd.value.args) == 1 and not rd.value.keywords)
    if not ok:
        raise TranslationError('GenericModel.load does not read the dictionary with `data = np.load(%s)` just before fromDict' % fname, rd, where)
    info['load_name'] = _compose_name(_name_steps(b[:-2], fname, where, 'GenericModel.load'),
                                      _name_expr(rd.value.args[0], fname, c, {}, where, 'GenericModel.load'), rd, where, 'GenericModel.load')
    info['reader'] = 'np.load'
    return info


def strength_io(cx):
    """StrengthModel.save: np.savez[_compressed](filename, k=self.a, ...) (both branches equal);
    load: self.a = data['k']"""
    where = cx.files['StrengthModel']
    c = cx.cls('StrengthModel')
    sv, ld = _method(c, 'save', where), _method(c, 'load', where)

    def savez_entries(call):
        if not (isinstance(call, ast.Expr) and isinstance(call.value, ast.Call) and isinstance(call.value.func, ast.Attribute)
                and call.value.func.attr in ('savez', 'savez_compressed') and len(call.value.args) == 1):
            raise TranslationError('unsupported statement in StrengthModel.save', call, where)
        out = []
        for kw in call.value.keywords:
            f = _glob_field(kw.value)
            if kw.arg is None or f is None:
                raise TranslationError('unsupported keyword in np.savez', call, where)
            out.append((kw.arg, ('field', f), []))
        return out

    b = _body(sv)
    if len(b) == 1 and isinstance(b[0], ast.If) and len(b[0].body) == 1 and len(b[0].orelse) == 1:
        e1, e2 = savez_entries(b[0].body[0]), savez_entries(b[0].orelse[0])
        if e1 != e2:
            raise TranslationError('the two branches of StrengthModel.save store different entries', b[0], where)
        wg = e1
    elif len(b) == 1:
        wg = savez_entries(b[0])
    else:
        raise TranslationError('unsupported body of StrengthModel.save', sv, where)
    b = _body(ld)
    if not (b and isinstance(b[0], ast.Assign) and isinstance(b[0].targets[0], ast.Name) and isinstance(b[0].value, ast.Call)
            and isinstance(b[0].value.func, ast.Attribute) and b[0].value.func.attr == 'load'):
        raise TranslationError('StrengthModel.load does not start with np.load', ld, where)
    dn = b[0].targets[0].id
    rg = []
    for st in b[1:]:
        if (isinstance(st, ast.Assign) and len(st.targets) == 1 and _is_self_attr(st.targets[0])
                and isinstance(st.value, ast.Subscript) and isinstance(st.value.value, ast.Name) and st.value.value.id == dn
                and _str_const(st.value.slice) is not None):
            rg.append(('set', st.targets[0].attr, st.value.slice.value, ('whole',), []))
        else:
            raise TranslationError('unsupported statement in StrengthModel.load', st, where)
    return wg, rg


# ------------------------------------------------------------------------------------------
# surrogate fall-through
def _always_returns(stmts):
    """every path through the statement list ends in return / raise"""
    if not stmts:
        return False
    last = stmts[-1]
    if isinstance(last, (ast.Return, ast.Raise)):
        return True
    if isinstance(last, ast.If):
        return _always_returns(last.body) and _always_returns(last.orelse)
    return False


def translate_surrogate(repo):
    path = os.path.join(repo, 'kawin/thermo/Surrogate.py')
    src = open(path).read()
    tree = ast.parse(src, filename=path)
    where = 'kawin/thermo/Surrogate.py'
    out = []
    for c in tree.body:
        if not isinstance(c, ast.ClassDef):
            continue
        for fn in c.body:
            if not isinstance(fn, ast.FunctionDef):
                continue
            rets = [n for n in ast.walk(fn) if isinstance(n, ast.Return) and n.value is not None
                    and isinstance(n.value, ast.Call) and isinstance(n.value.func, ast.Attribute)
                    and _is_self_attr(n.value.func.value, 'therm')]
            uses = [n for n in ast.walk(fn) if isinstance(n, ast.Attribute) and _is_self_attr(n.value, 'therm')]
            if not rets:
                continue
            if fn.name.startswith('train') or fn.name.startswith('_'):
                raise TranslationError('%s.%s returns a thermodynamics call but is not a getter' % (c.name, fn.name), fn, where)
            if len(rets) != 1 or len(uses) != 1:
                raise TranslationError('%s.%s uses self.therm more than once' % (c.name, fn.name), fn, where)
            body = _body(fn)
            # shape: [key = norm(self.phases, key)] ; if key in self.XModels: ... else: return self.therm.callee(...)
            if len(body) == 3 and isinstance(body[1], ast.If) and not body[1].orelse and body[2] is rets[0] and _always_returns(body[1].body):
                # `if trained: ... return ...` followed by the fall-through: the same as if / else
                iff0 = copy.copy(body[1])
                iff0.orelse = [body[2]]
                body = [body[0], iff0]
            if len(body) != 2:
                raise TranslationError('%s.%s: expected `key = <normalise>(self.phases, key)` followed by one if/else (or an if whose every path returns, followed by the fall-through)' % (c.name, fn.name), fn, where)
            a, iff = body
            ok = (isinstance(a, ast.Assign) and len(a.targets) == 1 and isinstance(a.targets[0], ast.Name)
                  and isinstance(a.value, ast.Call) and isinstance(a.value.func, ast.Name) and len(a.value.args) == 2 and not a.value.keywords
                  and _is_self_attr(a.value.args[0], 'phases') and isinstance(a.value.args[1], ast.Name) and a.value.args[1].id == a.targets[0].id)
            if not ok:
                raise TranslationError('%s.%s: first statement is not `key = <normalise>(self.phases, key)`' % (c.name, fn.name), a, where)
            keyvar, normf = a.targets[0].id, a.value.func.id
            ok = (isinstance(iff, ast.If) and isinstance(iff.test, ast.Compare) and len(iff.test.ops) == 1 and isinstance(iff.test.ops[0], ast.In)
                  and isinstance(iff.test.left, ast.Name) and iff.test.left.id == keyvar and _is_self_attr(iff.test.comparators[0])
                  and len(iff.orelse) == 1 and iff.orelse[0] is rets[0])
            if not ok:
                raise TranslationError('%s.%s: not of the form `if %s in self.<models>: ... else: return self.therm.<callee>(...)`' % (c.name, fn.name, keyvar), iff, where)
            # the trained branch must not rebind the parameters before ... (irrelevant for the else branch)
            models = iff.test.comparators[0].attr
            call = rets[0].value
            params = [x.arg for x in fn.args.args][1:]
            if fn.args.kwonlyargs or fn.args.posonlyargs:
                raise TranslationError('%s.%s: keyword-only / positional-only parameters' % (c.name, fn.name), fn, where)
            if keyvar not in params:
                raise TranslationError('%s.%s: tested variable is not a parameter' % (c.name, fn.name), fn, where)
            args = []
            for x in call.args:
                if isinstance(x, ast.Starred) and isinstance(x.value, ast.Name):
                    args.append(('star', x.value.id))
                elif isinstance(x, ast.Name):
                    args.append(('pos', x.id))
                else:
                    raise TranslationError('%s.%s: forwarded positional argument is not a plain name' % (c.name, fn.name), x, where)
            for kw in call.keywords:
                if not isinstance(kw.value, ast.Name):
                    raise TranslationError('%s.%s: forwarded keyword argument is not a plain name' % (c.name, fn.name), call, where)
                args.append(('starstar', kw.value.id) if kw.arg is None else ('kw', kw.arg, kw.value.id))
            # no parameter other than the key variable is rebound before the fall-through (they are only
            # rebound inside the trained branch)
            out.append({'cls': c.name, 'method': fn.name, 'params': params,
                        'vararg': fn.args.vararg.arg if fn.args.vararg else None,
                        'kwarg': fn.args.kwarg.arg if fn.args.kwarg else None,
                        'models': models, 'keyvar': keyvar, 'norm': normf,
                        'callee': call.func.attr, 'args': args, 'line': fn.lineno})
    if not out:
        raise TranslationError('no fall-through getter found', where=where)
    return out, hashlib.sha256(src.encode()).hexdigest(), rbf_normalisation(tree, where)


def rbf_normalisation(tree, where):
    """RBFKernel: the expression the interpolant is built on (first argument of RBFInterpolator in
    __init__) and the one it is evaluated on (argument of self.rbfModel in predict), as canonical text"""
    c = _class(tree, 'RBFKernel', where)
    init, pred = _method(c, '__init__', where), _method(c, 'predict', where)
    xi = [a.arg for a in init.args.args][1]
    xp = [a.arg for a in pred.args.args][1]
    calls = [n for n in ast.walk(init) if isinstance(n, ast.Call) and isinstance(n.func, ast.Name) and n.func.id == 'RBFInterpolator']
    if len(calls) != 1 or len(calls[0].args) < 2:
        raise TranslationError('RBFKernel.__init__ does not build exactly one RBFInterpolator(inputs, values, ...)', init, where)
    tgt = [n for n in ast.walk(init) if isinstance(n, ast.Assign) and n.value is calls[0]]
    if len(tgt) != 1 or not _is_self_attr(tgt[0].targets[0]):
        raise TranslationError('RBFKernel.__init__ does not store the interpolant in an attribute', init, where)
    attr = tgt[0].targets[0].attr
    b = _body(pred)
    if not (len(b) == 1 and isinstance(b[0], ast.Return) and isinstance(b[0].value, ast.Call) and _is_self_attr(b[0].value.func, attr)
            and len(b[0].value.args) == 1 and not b[0].value.keywords):
        raise TranslationError('RBFKernel.predict is not `return self.%s(<expression>)`' % attr, pred, where)

    class Ren(ast.NodeTransformer):
        def __init__(self, frm):
            self.frm = frm

        def visit_Name(self, n):
            return ast.copy_location(ast.Name(id='X', ctx=n.ctx), n) if n.id == self.frm else n
    # the attributes used for normalisation must not be reassigned after the interpolant is built
    used = {n.attr for n in ast.walk(calls[0].args[0]) if _is_self_attr(n)}
    after = False
    if tgt[0] not in _body(init):
        raise TranslationError('RBFKernel.__init__ builds the interpolant inside a nested statement', init, where)
    for st in _body(init):
        if st is tgt[0]:
            after = True
            continue
        if after and any(isinstance(n, ast.Assign) and any(_is_self_attr(t) and t.attr in used for t in n.targets) for n in ast.walk(st)):
            raise TranslationError('RBFKernel.__init__ changes the normalisation after building the interpolant', st, where)
    def inline(e):
        """self.<helper>(arg) with a one-expression helper (self, x) -> its expression with x := arg"""
        if (isinstance(e, ast.Call) and _is_self_attr(e.func) and len(e.args) == 1 and not e.keywords):
            h = _method(c, e.func.attr, where, required=False)
            if h is not None and len(h.args.args) == 2 and not h.args.vararg and not h.args.kwarg and not h.decorator_list:
                hb = _body(h)
                if len(hb) == 1 and isinstance(hb[0], ast.Return) and hb[0].value is not None \
                        and not any(isinstance(n, ast.Call) for n in ast.walk(hb[0].value)):
                    return _Subst({h.args.args[1].arg: e.args[0]}).visit(copy.deepcopy(hb[0].value))
        return e
    e_train, e_pred = inline(calls[0].args[0]), inline(b[0].value.args[0])
    used = {n.attr for n in ast.walk(e_train) if _is_self_attr(n)}
    after = False
    for st in _body(init):
        if st is tgt[0]:
            after = True
            continue
        if after and any(isinstance(n, ast.Assign) and any(_is_self_attr(t) and t.attr in used for t in n.targets) for n in ast.walk(st)):
            raise TranslationError('RBFKernel.__init__ changes the normalisation after building the interpolant', st, where)
    te = ast.unparse(Ren(xi).visit(copy.deepcopy(e_train)))
    pe = ast.unparse(Ren(xp).visit(copy.deepcopy(e_pred)))
    return te, pe


# ------------------------------------------------------------------------------------------
# rendering
def _s(x):
    return '"%s"' % x.replace('"', '""')


def _sl(xs):
    return '[' + '; '.join(_s(x) for x in xs) + ']'


def render_w(e):
    k, src, cond = e
    s = '(SrcField %s)' % _s(src[1]) if src[0] == 'field' else '(SrcList %s)' % _sl(src[1])
    return 'mkW %s %s %s' % (_s(k), s, _sl(cond))


def render_how(h):
    return {'whole': 'Whole', 'idx': '(Idx %d)', 'intidx': '(IntIdx %d)', 'guardidx': '(GuardIdx %d %d)'}[h[0]] % tuple(h[1:]) if h[0] != 'whole' else 'Whole'


def render_r(a):
    if a[0] == 'set':
        return 'RSet %s %s %s %s' % (_s(a[1]), _s(a[2]), render_how(a[3]), _sl(a[4]))
    if a[0] == 'const':
        return 'RConst %s %s %s' % (_s(a[1]), _s(a[2]), _sl(a[3]))
    if a[0] == 'derive':
        return 'RDerive %s %s %s' % (_s(a[1]), _s(a[2]), _s(a[3]))
    if a[0] == 'reset':
        return 'RReset %s %s' % (_sl(a[1]), _sl(a[2]))
    raise ValueError(a)


def _deflist(name, ty, items):
    if not items:
        return 'Definition %s : list %s := [].\n' % (name, ty)
    return 'Definition %s : list %s :=\n  [ %s ].\n' % (name, ty, ';\n    '.join(items))


def render_namefn(n):
    return 'NameId' if n[0] == 'id' else 'NameEnsureSuffix %s' % _s(n[1])


def render_saveload(models, wiring=None):
    t = ['(* GENERATED by harness/c20_translate.py from the current kawin sources - do not edit *)',
         'From Coq Require Import String List.', 'Require Import Kawin.C20.Model.', 'Import ListNotations.', 'Open Scope string_scope.', '']
    for name, m in models.items():
        t.append(_deflist('gen_%s_wg' % name, 'wentry', [render_w(e) for e in m['wg']]))
        t.append(_deflist('gen_%s_wp' % name, 'wentry', [render_w(e) for e in m['wp']]))
        t.append(_deflist('gen_%s_rg' % name, 'raction', [render_r(a) for a in m['rg']]))
        t.append(_deflist('gen_%s_rp' % name, 'raction', [render_r(a) for a in m['rp']]))
    if wiring is not None:
        t.append('Definition gen_save_name : namefn := %s.' % render_namefn(wiring['save_name']))
        t.append('Definition gen_load_name : namefn := %s.' % render_namefn(wiring['load_name']))
    return '\n'.join(t) + '\n'


def render_surrogate(entries, rbf):
    t = ['(* GENERATED by harness/c20_translate.py from kawin/thermo/Surrogate.py - do not edit *)',
         'From Coq Require Import String List.', 'Require Import Kawin.C20.Model.', 'Import ListNotations.', 'Open Scope string_scope.', '']
    items = []
    for e in entries:
        args = []
        for a in e['args']:
            args.append({'pos': 'APos %s', 'star': 'AStar %s', 'starstar': 'AStarStar %s'}[a[0]] % _s(a[1]) if a[0] != 'kw' else 'AKw %s %s' % (_s(a[1]), _s(a[2])))
        opt = lambda x: '(Some %s)' % _s(x) if x else 'None'
        items.append('mkFT %s %s %s %s %s %s %s %s %s [%s]' % (
            _s(e['cls']), _s(e['method']), _sl(e['params']), opt(e['vararg']), opt(e['kwarg']), _s(e['models']),
            _s(e['keyvar']), _s(e['norm']), _s(e['callee']), '; '.join(args)))
    t.append(_deflist('gen_fallthrough', 'ftentry', items))
    t.append('Definition gen_rbf_train_norm : string := %s.' % _s(rbf[0]))
    t.append('Definition gen_rbf_predict_norm : string := %s.' % _s(rbf[1]))
    return '\n'.join(t) + '\n'


def translate(repo):
    """returns (dict of generated texts, python structures, info)"""
    cx = Ctx(repo)
    models = {}
    wg, wp = translate_writer(cx, 'PrecipitateModel')
    rg, rp = translate_reader(cx, 'PrecipitateModel')
    models['prec'] = {'wg': wg, 'wp': wp, 'rg': rg, 'rp': rp}
    wg, wp = translate_writer(cx, 'DiffusionModel')
    rg, rp = translate_reader(cx, 'DiffusionModel')
    models['diff'] = {'wg': wg, 'wp': wp, 'rg': rg, 'rp': rp}
    wg, rg = strength_io(cx)
    models['strength'] = {'wg': wg, 'wp': [], 'rg': rg, 'rp': []}
    wiring = generic_wiring(cx)
    attrs = cx.attributes_const('PrecipitationData', 'ATTRIBUTES')
    ft, sha_s, rbf = translate_surrogate(repo)
    texts = {'SaveLoad_gen.v': render_saveload(models, wiring), 'Surrogate_gen.v': render_surrogate(ft, rbf)}
    h = hashlib.sha256()
    for k in sorted(texts):
        h.update(texts[k].encode())
    info = {'sha256': h.hexdigest(), 'wiring': wiring, 'ATTRIBUTES': attrs,
            'entries': {k: {kk: len(vv) for kk, vv in m.items()} for k, m in models.items()},
            'fallthrough': [(e['cls'], e['method'], e['callee'], e['models']) for e in ft], 'rbf_normalisation': list(rbf)}
    return texts, {'models': models, 'fallthrough': ft, 'ATTRIBUTES': attrs, 'wiring': wiring}, info


if __name__ == '__main__':
    import sys, json
    texts, py, info = translate(sys.argv[1] if len(sys.argv) > 1 else '/repo')
    for k, v in texts.items():
        print('(* ==== %s ==== *)' % k)
        print(v)
    print(json.dumps(info, indent=1))
