"""C15 - Precipitate shape factors match the geometry they describe.

tie (translator): kawin/precipitation/parameters/ShapeFactors.py is translated to Gallina by
                harness/c15_translate.py on EVERY run (build/C15/ShapeFactors_gen.v): the formulas of the
                four descriptions, their constructors, the clamp and the mask idioms of the public
                wrappers, the ShapeFactor compositions and the bisection `_findRcrit` (over `Ops`).
                coq/C15/run/Bridge.v proves the generated text equal to the hand model by conversion,
                coq/C15/run/GenProperties.v restates the theorems about the generated text.
validation:     pointwise enclosures (Coq `interval`): |generated f(ar) - implementation f(ar)| <= tol
                on sampled exact inputs, scalar and array calls, all shapes and public functions;
                the generated bisection is executed on primitive binary64 floats inside Coq against
                `_findRcrit` with the implementation's own thermoFactor values (bit-exact result and
                iteration count).
proof:          coq/C15/Properties.v (hand model) + coq/C15/run/GenProperties.v (generated text).
search oracle:  written from the property text, independent of the code under test: spheroid surface
                area and ellipsoid capacitance by numerical QUADRATURE (not the closed forms), volumes,
                axis ratios, value 1 at aspect ratio 1, monotonicity, continuity at 1 (all shapes),
                scalar/array agreement (also across argument types: int / integer arrays / lists / float32 / 0-d /
                integer-valued aspect-ratio functions vs the float call), clamp below 1, bitwise non-mutation of the caller's array,
                root property of findRcrit for constant and radius-dependent aspect ratios, also after any sequence
                of reconfigurations of one ShapeFactor object (state carried between calls).
"""
import os, sys, json, math, re, shutil, subprocess, importlib, time
from fractions import Fraction
import numpy as np

from common import VERIF, REPO, COQ, frac, parse_coq, split_evals
import c15_translate as tr

LEVEL = 'proof'
SRC_REL = os.path.join('kawin', 'precipitation', 'parameters', 'ShapeFactors.py')
SHAPES = ['sphere', 'needle', 'plate', 'cubic']
GEN = {'sphere': 'Sphere', 'needle': 'Needle', 'plate': 'Plate', 'cubic': 'Cuboidal'}
FACTORS = ['eqRadiusFactor', 'kineticFactor', 'thermoFactor']
RUN_FILES = ['C15/run/Bridge.v', 'C15/run/GenProperties.v']
EPS = 2.0 ** -52


def impl():
    return importlib.import_module('kawin.precipitation.parameters.ShapeFactors')


def descr(SF, shape):
    return {'sphere': SF.SphereDescription, 'needle': SF.NeedleDescription, 'plate': SF.PlateDescription,
            'cubic': SF.CuboidalDescription}[shape]()


# ==========================================================================================
# independent oracle (geometry by quadrature / elementary formulas; nothing taken from kawin)
_quad_cache = {}


def spheroid_area_quad(a, c):
    """surface of revolution of the ellipse (a sin t, c cos t) about the polar axis"""
    from scipy.integrate import quad
    f = lambda t: 2 * math.pi * a * math.sin(t) * math.sqrt(a * a * math.cos(t) ** 2 + c * c * math.sin(t) ** 2)
    v, err = quad(f, 0, math.pi, epsabs=0, epsrel=1e-13, limit=400)
    return v


def ellipsoid_capacitance_quad(a, b, c):
    """C = 2 / int_0^inf dt / sqrt((a^2+t)(b^2+t)(c^2+t))   (units: sphere of radius r has C = r)"""
    from scipy.integrate import quad
    g = (a * b * c) ** (1 / 3.0)
    a, b, c = a / g, b / g, c / g
    f = lambda t: 1.0 / math.sqrt((a * a + t) * (b * b + t) * (c * c + t))
    # t = u/(1-u)^2-free splitting: [0,1] directly, [1,inf) with t = 1/s^2 (integrand ~ t^-3/2)
    v1, _ = quad(f, 0, 1, epsabs=0, epsrel=1e-13, limit=400)
    h = lambda s: 2.0 / s ** 3 * f(1.0 / (s * s)) if s > 0 else 2.0
    v2, _ = quad(h, 0, 1, epsabs=0, epsrel=1e-13, limit=400)
    return 2.0 / (v1 + v2) * g


def oracle_thermo(shape, ar):
    """surface area / surface area of the equal-volume sphere; short axis = 1"""
    ar = max(float(ar), 1.0)
    key = ('t', shape, ar)
    if key in _quad_cache:
        return _quad_cache[key]
    if shape == 'sphere':
        v = 1.0
    elif shape == 'cubic':
        area = 2 * (1 + 2 * ar)
        r = (3 * ar / (4 * math.pi)) ** (1 / 3.0)
        v = area / (4 * math.pi * r * r)
    else:
        a, c = (1.0, ar) if shape == 'needle' else (ar, 1.0)
        r = (a * a * c) ** (1 / 3.0)
        v = spheroid_area_quad(a, c) / (4 * math.pi * r * r)
    _quad_cache[key] = v
    return v


def oracle_kinetic(shape, ar):
    """capacitance / radius of the equal-volume sphere (needle, plate); None where the property
    gives no geometric meaning (cuboidal: fitted formula)"""
    ar = max(float(ar), 1.0)
    if shape == 'sphere':
        return 1.0
    if shape == 'cubic':
        return None
    key = ('k', shape, ar)
    if key in _quad_cache:
        return _quad_cache[key]
    a, c = (1.0, ar) if shape == 'needle' else (ar, 1.0)
    r = (a * a * c) ** (1 / 3.0)
    v = ellipsoid_capacitance_quad(a, a, c) / r
    _quad_cache[key] = v
    return v


def oracle_eqradius(shape, ar):
    ar = max(float(ar), 1.0)
    if shape == 'sphere':
        return 1.0
    vol = {'needle': 4 / 3 * math.pi * ar, 'plate': 4 / 3 * math.pi * ar * ar, 'cubic': ar}[shape]
    return (3 * vol / (4 * math.pi)) ** (1 / 3.0)


def noise(ar):
    """rounding noise of the implementation's formulas near aspect ratio 1 (cancellation in 1 - 1/ar^2,
    log(1+e) - log(1-e), pi/2 - arccos(e)); not a defect at the tolerance of this check"""
    d = max(float(ar) - 1.0, 0.0)
    return 1e-15 / math.sqrt(d) if d > 0 else 0.0


def ulps(a, b):
    a, b = float(a), float(b)
    if a == b or (a != a and b != b):
        return 0.0
    return abs(a - b) / (EPS * max(abs(a), abs(b), 1e-300))


def hexl(xs):
    return [float(x).hex() for x in xs]


PROCESS_SITE = 'ShapeFactors.ShapeDescriptionBase._processAspectRatio'


def site_of(shape, method):
    if method == '_processAspectRatio':
        return PROCESS_SITE
    return 'ShapeFactors.%sDescription.%s' % (GEN[shape], method)


def aspect_fun(spec, Rs):
    t = spec['type']
    p = spec['p']
    if t == 'const':
        return float(p[0])
    if t == 'linear':
        return lambda R: p[0] + p[1] * (np.asarray(R, dtype=float) / Rs)
    if t == 'power':
        return lambda R: p[0] * (np.asarray(R, dtype=float) / Rs) ** p[1]
    if t == 'saturating':
        return lambda R: 1.0 + p[0] * (1.0 - np.exp(-np.asarray(R, dtype=float) / (p[1] * Rs)))
    if t == 'decreasing':
        return lambda R: 1.0 + p[0] / (1.0 + p[1] * (np.asarray(R, dtype=float) / Rs - 1.0))
    raise ValueError('unknown aspect spec %r' % (spec,))


# ==========================================================================================
# oracle evaluation of one case on the implementation; returns list of (clause, site, cls, msg, mincase)
def evaluate_case(c):
    SF = impl()
    kind = c['kind']
    if kind == 'factors':
        return eval_factors(SF, c)
    if kind == 'continuity':
        return eval_continuity(SF, c)
    if kind == 'mutation':
        return eval_mutation(SF, c)
    if kind == 'rcrit':
        return eval_rcrit(SF, c)
    if kind == 'typed':
        return eval_typed(SF, c)
    if kind == 'sequence':
        return eval_sequence(SF, c)
    if kind == 'interleave':
        return eval_interleave(SF, c)
    if kind == 'sf_array':
        return eval_sf_array(SF, c)
    if kind == 'convention':
        return eval_convention(SF, c)
    raise ValueError('unknown case kind %r' % kind)


def eval_factors(SF, c):
    shape = c['shape']
    ars = [float.fromhex(x) if isinstance(x, str) else float(x) for x in c['ars']]
    d = descr(SF, shape)
    hits = []

    def hit(clause, method, cls, msg, sub):
        hits.append((clause, site_of(shape, method), cls, msg, {'kind': 'factors', 'shape': shape, 'ars': hexl(sub)}))
    arr = np.array(ars, dtype=float)
    out = {}
    for m in FACTORS + ['normalRadii']:
        a = arr.copy()
        try:
            out[m] = np.array(getattr(d, m)(a), dtype=float)
        except Exception as e:
            hit('no_internal_error', m, type(e).__name__, '%s(%r) raised %s: %s' % (m, ars, type(e).__name__, e), ars)
            return hits
        if a.tobytes() != arr.tobytes():
            k = int(np.argmax(a != arr))
            hit('no_argument_mutation', '_processAspectRatio', 'ndarray argument with entries below 1',
                '%s.%s(array) overwrote the caller\'s array: entry %d was %r, is %r afterwards' % (shape, m, k, arr[k], a[k]), [ars[k]] if len(ars) > 1 else ars)
        want = (len(ars), 3) if m == 'normalRadii' else (len(ars),)
        got = out[m].shape
        if len(ars) == 1:
            want = want[1:]
        if got != want:
            hit('scalar_array_agree', m, 'shape', '%s.%s: result shape %r for %d inputs, expected %r' % (shape, m, got, len(ars), want), ars)
            return hits
        out[m] = out[m].reshape((len(ars), 3) if m == 'normalRadii' else (len(ars),))
    for i, x in enumerate(ars):
        xc = max(x, 1.0)
        sc = {}
        for m in FACTORS + ['normalRadii']:
            try:
                sc[m] = np.array(getattr(d, m)(x), dtype=float)
            except Exception as e:
                hit('no_internal_error', m, type(e).__name__, '%s(%r) raised %s: %s' % (m, x, type(e).__name__, e), [x])
                return hits
            want = (3,) if m == 'normalRadii' else ()
            if sc[m].shape != want:
                hit('scalar_array_agree', m, 'shape', '%s.%s(scalar %r): result shape %r' % (shape, m, x, sc[m].shape), [x])
                continue
            u = max(ulps(p, q) for p, q in zip(np.atleast_1d(sc[m]).ravel(), np.atleast_1d(out[m][i]).ravel()))
            if not u <= 2:
                hit('scalar_array_agree', m, 'value', '%s.%s: scalar call at %r gives %r, array call gives %r' % (shape, m, x, sc[m].tolist(), out[m][i].tolist()), ars if len(ars) <= 3 else [x])
        if x < 1:
            for m in FACTORS + ['normalRadii']:
                one = np.array(getattr(d, m)(1.0), dtype=float)
                if one.tobytes() != sc[m].tobytes():
                    hit('below_one_as_one', m, 'value', '%s.%s(%r) = %r differs from the value at 1, %r' % (shape, m, x, sc[m].tolist(), one.tolist()), [x])
        r = sc['normalRadii']
        if r.shape == (3,):
            vol = r[0] * r[1] * r[2] * (1.0 if shape == 'cubic' else 4 * math.pi / 3)
            if not abs(vol - 1) <= 1e-12:
                hit('axes_volume', 'normalRadii', 'volume', '%s.normalRadii(%r) = %r encloses volume %r, not 1' % (shape, x, r.tolist(), vol), [x])
            lng, sht, eq = {'sphere': (r[2], r[0], r[1]), 'needle': (r[2], r[0], r[1]), 'cubic': (r[2], r[0], r[1]), 'plate': (r[0], r[2], r[1])}[shape]
            want_ratio = 1.0 if shape == 'sphere' else xc
            second_ok = (eq == sht) if shape != 'plate' else (eq == lng)
            if not (abs(lng / sht - want_ratio) <= 1e-12 * want_ratio and second_ok):
                hit('axes_ratio', 'normalRadii', 'ratio', '%s.normalRadii(%r) = %r: long/short = %r, requested %r' % (shape, x, r.tolist(), lng / sht, want_ratio), [x])
        eq_v, kin_v, th_v = float(sc['eqRadiusFactor']), float(sc['kineticFactor']), float(sc['thermoFactor'])
        nz = noise(xc)
        if shape != 'cubic' and xc == 1.0:
            for m, v in (('eqRadiusFactor', eq_v), ('kineticFactor', kin_v), ('thermoFactor', th_v)):
                if v != 1.0:
                    hit('one_at_one', m, 'value', '%s.%s(%r) = %r, expected 1' % (shape, m, x, v), [x])
        o = oracle_eqradius(shape, xc)
        if xc > 1 or shape == 'sphere':
            if not abs(eq_v - o) <= 1e-12 * o:
                hit('eqRadius_geometry', 'eqRadiusFactor', 'value', '%s.eqRadiusFactor(%r) = %r, the equal-volume sphere has radius %r (short axis 1)' % (shape, x, eq_v, o), [x])
            o = oracle_thermo(shape, xc)
            if not abs(th_v - o) <= 2e-9 * o + nz:
                hit('thermo_is_area_ratio', 'thermoFactor', 'value', '%s.thermoFactor(%r) = %r, surface area / area of the equal-volume sphere is %r (%s)'
                    % (shape, x, th_v, o, 'elementary' if shape in ('sphere', 'cubic') else 'quadrature'), [x])
            o = oracle_kinetic(shape, xc)
            if o is not None and not abs(kin_v - o) <= 2e-9 * o + nz:
                hit('kinetic_is_capacitance_ratio', 'kineticFactor', 'value', '%s.kineticFactor(%r) = %r, capacitance / radius of the equal-volume sphere is %r (quadrature)'
                    % (shape, x, kin_v, o), [x])
    if shape in ('needle', 'plate'):
        order = sorted(set(max(x, 1.0) for x in ars))
        for m in FACTORS:
            vals = [float(getattr(d, m)(x)) for x in order]
            for j in range(len(order) - 1):
                tol = 1e-12 * abs(vals[j]) + noise(order[j]) + noise(order[j + 1])
                if vals[j] != vals[j] or vals[j + 1] != vals[j + 1]:
                    continue        # a NaN is reported by the clauses about values
                if not vals[j] <= vals[j + 1] + tol:
                    hit('increasing', m, 'order', '%s.%s decreases: f(%r) = %r > f(%r) = %r' % (shape, m, order[j], vals[j], order[j + 1], vals[j + 1]), [order[j], order[j + 1]])
                    break
            for x, v in zip(order, vals):
                if v == v and not v >= 1 - 1e-12 - noise(x):
                    hit('increasing', m, 'below value at 1', '%s.%s(%r) = %r is below its value 1 at aspect ratio 1' % (shape, m, x, v), [x])
                    break
    return hits


def eval_continuity(SF, c):
    shape, k = c['shape'], int(c['k'])
    d = descr(SF, shape)
    delta = 2.0 ** -k
    hits = []
    for m in FACTORS:
        f = getattr(d, m)
        v1, v2 = float(f(1.0)), float(f(1.0 + delta))
        if not abs(v2 - v1) <= 4 * delta + 2e-7:
            hits.append(('continuous_at_one', site_of(shape, m), m,
                         '%s.%s jumps at aspect ratio 1: f(1) = %r, f(1 + 2^-%d) = %r' % (shape, m, v1, k, v2),
                         {'kind': 'continuity', 'shape': shape, 'k': k}))
    return hits


def eval_mutation(SF, c):
    shape, m, cont = c['shape'], c['method'], c['container']
    vals = [float.fromhex(x) if isinstance(x, str) else x for x in c['values']]
    d = descr(SF, shape)
    if cont == 'array':
        a = np.array(vals, dtype=float)
    elif cont == 'zero_d':
        a = np.array(float(vals[0]))
    elif cont == 'int_array':
        a = np.array([int(v) for v in vals], dtype=np.int64)
    elif cont == 'view':
        base = np.array(list(vals) + [0.25, 7.0], dtype=float)
        a = base[:len(vals)]
    else:
        raise ValueError(cont)
    before = a.copy()
    via = c.get('via', 'description')
    if via == 'description':
        getattr(d, m)(a)
    else:
        sf = SF.ShapeFactor()
        sf.setPrecipitateShape(d, lambda R: R)       # aspect ratio function that hands its argument on
        getattr(sf, m)(a)
    if a.tobytes() != before.tobytes() or a.dtype != before.dtype:
        return [('no_argument_mutation', PROCESS_SITE, 'ndarray argument with entries below 1',
                 '%s.%s(%s %r) overwrote the caller\'s data: now %r' % (shape, m, cont, before.tolist(), a.tolist()), dict(c))]
    return []


# ---- the same aspect ratio handed over with another type: the result must be the float call's ----------
TYPED_SCALARS = ('py_int', 'np_int64', 'np_int32', 'np_float32', 'zero_d_int', 'zero_d_float')
TYPED_ARRAYS = ('int64_array', 'int32_array', 'int_list', 'int_tuple', 'float_list', 'float32_array')
TYPED_SF = ('sf_int_function', 'sf_int_function_scalar_R', 'sf_int_constant')
TYPED_CONTAINERS = TYPED_SCALARS + TYPED_ARRAYS + TYPED_SF


def typed_value(cont, vals):
    """the aspect ratio(s) `vals` (whole numbers) in the container / dtype named by `cont`"""
    v0 = vals[0]
    return {'py_int': lambda: int(v0), 'np_int64': lambda: np.int64(v0), 'np_int32': lambda: np.int32(v0),
            'np_float32': lambda: np.float32(v0), 'zero_d_int': lambda: np.array(int(v0)), 'zero_d_float': lambda: np.array(float(v0)),
            'int64_array': lambda: np.array([int(v) for v in vals], dtype=np.int64),
            'int32_array': lambda: np.array([int(v) for v in vals], dtype=np.int32),
            'int_list': lambda: [int(v) for v in vals], 'int_tuple': lambda: tuple(int(v) for v in vals),
            'float_list': lambda: [float(v) for v in vals],
            'float32_array': lambda: np.array([float(v) for v in vals], dtype=np.float32)}[cont]()


def eval_typed(SF, c):
    """scalar/array agreement across argument types: a whole-number aspect ratio given as Python int, numpy
    integer scalar / array, list, float32, 0-d array, or produced by an integer-valued aspect-ratio function
    of the radius, must give what the float64 call gives (the float64 call is checked against the geometry
    by the factor cases)"""
    shape, m, cont = c['shape'], c['method'], c['container']
    vals = [int(v) for v in c['values']]
    d = descr(SF, shape)
    f = getattr(d, m)
    width = 3 if m == 'normalRadii' else 1
    ref = np.array([np.atleast_1d(np.array(f(float(v)), dtype=float)) for v in vals], dtype=float).reshape(len(vals), width)
    rtol = 1e-3 if 'float32' in cont else 4 * EPS
    hits = []

    def hit(cls, msg, sub):
        hits.append(('scalar_array_agree', site_of(shape, m), cls, msg, dict(c, values=[int(x) for x in sub])))
    try:
        if cont in TYPED_SCALARS:
            vals = vals[:1]
            ref = ref[:1]
            got = np.array(f(typed_value(cont, vals)))
            want_shape = (3,) if m == 'normalRadii' else ()
        elif cont in TYPED_ARRAYS:
            arg = typed_value(cont, vals)
            before = np.array(arg).copy()
            got = np.array(f(arg))
            again = np.array(f(arg))                 # the caller re-uses the argument object for the next call
            if np.array(arg).tobytes() != before.tobytes():
                hits.append(('no_argument_mutation', PROCESS_SITE, 'argument of another type', '%s.%s(%s %r) changed its argument to %r' % (shape, m, cont, vals, np.array(arg).tolist()), dict(c)))
            if again.shape != got.shape or again.tobytes() != got.tobytes():
                hit('value', '%s.%s(%s %r): a second call with the same argument object gives %r, the first gave %r' % (shape, m, cont, vals, again.tolist(), got.tolist()), vals)
            want_shape = ((len(vals), 3) if m == 'normalRadii' else (len(vals),)) if len(vals) > 1 else ((3,) if m == 'normalRadii' else ())
        else:
            # through ShapeFactor: the aspect ratio is what the user's function of the radius returns
            r0 = 1e-9
            sf = SF.ShapeFactor()
            if cont == 'sf_int_constant':
                vals, ref = vals[:1], ref[:1]
                sf.setPrecipitateShape(d, int(vals[0]))
                got = np.array(getattr(sf, m)(np.array([0.5 * r0])))
                want_shape = (3,) if m == 'normalRadii' else ()
            else:
                lo, hi = (vals + vals)[:2]
                vals, ref = [lo, hi], np.array([np.atleast_1d(np.array(f(float(v)), dtype=float)) for v in (lo, hi)]).reshape(2, width)
                sf.setPrecipitateShape(d, lambda R: np.where(np.asarray(R) < r0, int(lo), int(hi)))     # integer-valued step function
                if cont == 'sf_int_function':
                    got = np.array(getattr(sf, m)(np.array([0.5 * r0, 2.0 * r0])))
                    want_shape = (2, 3) if m == 'normalRadii' else (2,)
                else:
                    got = np.array([np.array(getattr(sf, m)(0.5 * r0)), np.array(getattr(sf, m)(2.0 * r0))])
                    want_shape = got.shape if got.shape == ((2, 3) if m == 'normalRadii' else (2,)) else None
    except Exception as e:
        return [('no_internal_error', site_of(shape, m), type(e).__name__,
                 '%s.%s(%s %r) raised %s: %s' % (shape, m, cont, vals, type(e).__name__, e), dict(c))]
    if got.dtype.kind not in 'fiu':
        hit('dtype', '%s.%s(%s %r) returns dtype %s: %r; the float call gives %r' % (shape, m, cont, vals, got.dtype, got.tolist(), ref.squeeze().tolist()), vals)
        return hits
    if want_shape is None or got.shape != want_shape:
        hit('shape', '%s.%s(%s %r): result shape %r' % (shape, m, cont, vals, got.shape), vals)
        return hits
    g = got.astype(float).reshape(len(vals), width)
    for i, v in enumerate(vals):
        if not np.all(np.abs(g[i] - ref[i]) <= rtol * np.abs(ref[i])):
            hit('value', '%s.%s(%s %r): aspect ratio %d gives %r (result dtype %s), the float call %s(%r) gives %r'
                % (shape, m, cont, vals, v, g[i].squeeze().tolist(), got.dtype, m, float(v), ref[i].squeeze().tolist()), [v] if cont not in ('sf_int_function', 'sf_int_function_scalar_R') else vals)
            break
    return hits


# ---- sequences of operations on ONE ShapeFactor object ---------------------------------------------------
SETTERS = {'sphere': 'setSpherical', 'needle': 'setNeedleShape', 'plate': 'setPlateShape', 'cubic': 'setCuboidalShape'}


class SeqObj:
    """one ShapeFactor object driven by operations; remembers the configuration it should be in"""

    def __init__(self, SF, Rs, Rmax):
        self.SF, self.Rs, self.Rmax = SF, Rs, Rmax
        self.sf = SF.ShapeFactor()
        self.shape, self.spec = 'sphere', {'type': 'const', 'p': [1.0]}

    def step(self, op):
        """returns None for a reconfiguration, (answer, answer of a fresh object alone, configuration) for a query"""
        SF, sf, Rs = self.SF, self.sf, self.Rs
        k = op[0]
        if k == 'set_shape':
            _, how, self.shape, self.spec = op
            shape, ar = self.shape, aspect_fun(self.spec, Rs)
            if how == 'name':
                sf.setPrecipitateShape(shape, ar)
            elif how == 'setter':
                getattr(sf, SETTERS[shape])(ar)
                if shape == 'sphere':
                    sf.setAspectRatio(ar)       # setSpherical fixes the aspect ratio at 1
            else:
                sf.setPrecipitateShape(descr(SF, shape), ar)
                if shape == 'sphere':
                    sf.setAspectRatio(ar)
        elif k == 'set_aspect':
            self.spec = op[1]
            sf.setAspectRatio(aspect_fun(self.spec, Rs))
        elif k == 'description':
            self.shape = op[1]
            sf.description = descr(SF, self.shape)       # public property; the aspect ratio stays what it was
        elif k in ('find', 'read'):
            fresh = SF.ShapeFactor()
            fresh.description = descr(SF, self.shape)
            fresh.setAspectRatio(aspect_fun(self.spec, Rs))
            if k == 'find':
                a, b = sf.findRcrit(Rs, self.Rmax), fresh.findRcrit(Rs, self.Rmax)
            else:
                R = float(op[2]) * Rs
                a, b = getattr(sf, op[1])(R), getattr(fresh, op[1])(R)
            return np.array(a, dtype=float), np.array(b, dtype=float), (self.shape, self.spec)
        else:
            raise ValueError('unknown operation %r' % (op,))
        return None


def run_sequence(SF, c, upto=None):
    """execute the operations of a sequence case on one object; returns list of (index, op, answer of the reused
    object, answer of a freshly constructed object in the same configuration, configuration)"""
    Rs, Rmax = float.fromhex(c['Rs']), float.fromhex(c['Rmax'])
    o = SeqObj(SF, Rs, Rmax)
    answers = []
    for i, op in enumerate(c['ops'] if upto is None else c['ops'][:upto]):
        r = o.step(op)
        if r is not None:
            answers.append((i, op, *r))
    return answers


def run_interleaved(SF, c):
    """several objects alive at once, each with its own operation list, executed in the given interleaving"""
    Rs, Rmax = float.fromhex(c['Rs']), float.fromhex(c['Rmax'])
    objs = [SeqObj(SF, Rs, Rmax) for _ in c['seqs']]
    pos = [0] * len(objs)
    answers = []
    for step, j in enumerate(c['order']):
        if pos[j] >= len(c['seqs'][j]):
            continue
        op = c['seqs'][j][pos[j]]
        pos[j] += 1
        r = objs[j].step(op)
        if r is not None:
            answers.append((step, op, *r))
    return answers


def sequence_hits(SF, c, answers=None, what='reused object'):
    Rs, Rmax = float.fromhex(c['Rs']), float.fromhex(c['Rmax'])
    out = []
    for i, op, a, b, (shape, spec) in (run_sequence(SF, c) if answers is None else answers):
        cfg = '%s, aspect ratio %s' % (shape, spec['p'][0] if spec['type'] == 'const' else '%s%r' % (spec['type'], spec['p']))
        ar = aspect_fun(spec, Rs)
        arf = (lambda R: float(ar)) if spec['type'] == 'const' else (lambda R: float(ar(R)))
        if a.shape != b.shape or a.tobytes() != b.tobytes():
            if op[0] == 'find':
                out.append((i, 'findRcrit_root', 'ShapeFactors.ShapeFactor.findRcrit', 'state carried over a reconfiguration',
                            'operation %d of the sequence: findRcrit(%r, %r) on the %s (%s) = %r, a freshly constructed ShapeFactor in the same configuration gives %r'
                            % (i, Rs, Rmax, what, cfg, a.tolist(), b.tolist())))
            else:
                out.append((i, 'composition', 'ShapeFactors.ShapeFactor.' + op[1], 'state carried over a reconfiguration',
                            'operation %d of the sequence: %s(%r) on the %s (%s) = %r, a freshly constructed ShapeFactor in the same configuration gives %r'
                            % (i, op[1], float(op[2]) * Rs, what, cfg, a.tolist(), b.tolist())))
            continue
        if op[0] == 'read':
            # the value itself against the independent geometry (a fresh object could share the same stale state)
            R = float(op[2]) * Rs
            x = max(arf(R), 1.0)
            o = {'eqRadiusFactor': oracle_eqradius, 'thermoFactor': oracle_thermo, 'kineticFactor': oracle_kinetic}.get(op[1])
            if o is not None and a.shape == () and (x > 1 or shape in ('sphere', 'cubic')):
                ov = o(shape, x)
                if ov is not None and not abs(float(a) - ov) <= 2e-9 * abs(ov) + noise(x):
                    out.append((i, 'composition', 'ShapeFactors.ShapeFactor.' + op[1], 'value after a history',
                                'operation %d of the sequence: %s(%r) (%s) = %r, the geometry gives %r' % (i, op[1], R, cfg, float(a), ov)))
            if op[1] == 'normalRadii' and a.shape == (3,):
                vol = a[0] * a[1] * a[2] * (1.0 if shape == 'cubic' else 4 * math.pi / 3)
                if not abs(vol - 1) <= 1e-12:
                    out.append((i, 'axes_volume', 'ShapeFactors.ShapeFactor.normalRadii', 'value after a history',
                                'operation %d of the sequence: normalRadii(%r) (%s) = %r encloses volume %r' % (i, R, cfg, a.tolist(), vol)))
        if op[0] == 'find' and a.shape == ():
            # the root condition itself, with the independent thermodynamic factor
            g = lambda R: R / (Rs * oracle_thermo(shape, arf(R))) - 1
            r = float(a)
            if spec['type'] == 'const':
                bad = not abs(g(r)) <= 1e-8
            else:
                g0, g1 = g(Rs), g(Rmax)
                bad = g0 * g1 < 0 and min(abs(g0), abs(g1)) > 1e-6 and not (min(Rs, Rmax) <= r <= max(Rs, Rmax) and abs(g(r)) <= 1e-3 * (1 + 1e-6) + 1e-8)
            if bad:
                out.append((i, 'findRcrit_root', 'ShapeFactors.ShapeFactor.findRcrit', 'sequence',
                            'operation %d of the sequence: findRcrit(%r, %r) (%s) = %r: R/(R_sphere*factor) - 1 = %r' % (i, Rs, Rmax, cfg, r, g(r))))
    return out


def eval_interleave(SF, c):
    """two or three ShapeFactor objects, configured differently and used interleaved: each answer must be the one the
    object would give alone (fresh object in its configuration) and must match the geometry"""
    try:
        found = sequence_hits(SF, c, answers=run_interleaved(SF, c), what='object used interleaved with others')
    except Exception as e:
        return [('no_internal_error', 'ShapeFactors.ShapeFactor', type(e).__name__, 'interleaved objects raised %s: %s' % (type(e).__name__, e), dict(c))]
    hits, seen = [], set()
    for i, clause, site, cls, msg in found:
        if (clause, site, cls) in seen:
            continue
        seen.add((clause, site, cls))
        hits.append((clause, site, 'interleaved objects: ' + cls, msg, dict(c, order=c['order'][:i + 1])))
    return hits


def eval_sf_array(SF, c):
    """ShapeFactor functions of the radius: an array of n radii (n = 1..8) against the n scalar calls, lists and 0-d arrays,
    the argument left unchanged and re-used for a second call"""
    shape = c['shape']
    Rs = float.fromhex(c['Rs'])
    Rv = [float(m) * Rs for m in c['mult']]
    sf = SF.ShapeFactor()
    sf.setPrecipitateShape(descr(SF, shape), aspect_fun(c['aspect'], Rs))
    sf.setAspectRatio(aspect_fun(c['aspect'], Rs))
    hits = []
    for m in FACTORS + ['normalRadii']:
        f = getattr(sf, m)
        site = 'ShapeFactors.ShapeFactor.' + m

        def hit(cls, msg):
            hits.append(('scalar_array_agree', site, cls, msg, dict(c)))
        try:
            # reference: the description's function at the aspect ratio the user's function returns for that radius, taken from the
            # ARRAY evaluation of the aspect-ratio function (numpy may round array and scalar evaluations of x**p differently)
            arfun = aspect_fun(c['aspect'], Rs)
            dm = getattr(descr(SF, shape), m)
            if c['aspect']['type'] == 'const':
                ars_arr, ars_sc = [float(arfun)] * len(Rv), [float(arfun)] * len(Rv)
            else:
                ars_arr, ars_sc = [float(x) for x in np.asarray(arfun(np.array(Rv, dtype=float)))], [float(arfun(R)) for R in Rv]
            ref = np.array([np.array(dm(x), dtype=float) for x in ars_arr], dtype=float)
            for R, x in zip(Rv, ars_sc):
                one, want1 = np.array(f(R), dtype=float), np.array(dm(x), dtype=float)
                if one.shape != want1.shape or one.tobytes() != want1.tobytes():
                    hits.append(('composition', site, 'value', '%s: ShapeFactor.%s(%r) = %r, description.%s(aspect ratio %r) = %r' % (shape, m, R, one.tolist(), m, x, want1.tolist()), dict(c)))
                    break
            arr = np.array(Rv, dtype=float)
            keep = arr.copy()
            A = np.array(f(arr), dtype=float)
            A2 = np.array(f(arr), dtype=float)         # the same argument object again
            L = np.array(f(list(Rv)), dtype=float)
            Z = np.array(f(np.array(Rv[0])), dtype=float)
        except Exception as e:
            hits.append(('no_internal_error', site, type(e).__name__, '%s.%s(%d radii) raised %s: %s' % (shape, m, len(Rv), type(e).__name__, e), dict(c)))
            continue
        want = ref.shape if len(Rv) > 1 else ref.shape[1:]
        if arr.tobytes() != keep.tobytes():
            hits.append(('no_argument_mutation', site, 'radius array', '%s: ShapeFactor.%s changed the caller\'s radius array' % (shape, m), dict(c)))
        if A.shape != want or L.shape != want:
            hit('shape', '%s: ShapeFactor.%s(%d radii) has shape %r (list: %r), expected %r' % (shape, m, len(Rv), A.shape, L.shape, want))
            continue
        refc = ref.reshape(want)
        for name, X in (('array', A), ('same array again', A2), ('list', L)):
            if X.tobytes() != refc.tobytes():
                hit('value', '%s: ShapeFactor.%s(%s of %d radii) = %r, the scalar calls give %r' % (shape, m, name, len(Rv), X.tolist(), refc.tolist()))
                break
        z0 = np.array(dm(ars_sc[0]), dtype=float)
        if Z.shape != z0.shape or Z.tobytes() != z0.tobytes():
            hit('value', '%s: ShapeFactor.%s(0-d array) = %r, the scalar call gives %r' % (shape, m, Z.tolist(), z0.tolist()))
    return hits


def eval_convention(SF, c):
    """the same configuration reached through the different public calling conventions (positional / keyword / omitted
    default arguments, constructor / setPrecipitateShape by name or instance / set...Shape) answers identically"""
    shape, a = c['shape'], c['ar']
    Rs, Rmax = float.fromhex(c['Rs']), float.fromhex(c['Rmax'])
    setter = SETTERS[shape]

    def build(how):
        if how == 'ctor positional':
            return SF.ShapeFactor(shape, a)
        if how == 'ctor keywords':
            return SF.ShapeFactor(precipitateShape=shape, ar=a)
        if how == 'ctor keywords swapped':
            return SF.ShapeFactor(ar=a, precipitateShape=shape.upper())
        sf = SF.ShapeFactor()
        if how == 'setPrecipitateShape name':
            sf.setPrecipitateShape(shape, a)
        elif how == 'setPrecipitateShape keywords instance':
            sf.setPrecipitateShape(precipitateShape=descr(SF, shape), ar=a)
        elif how == 'setter positional':
            getattr(sf, setter)(a)
        elif how == 'setter keyword':
            getattr(sf, setter)(ar=a)
        elif how == 'shape then setAspectRatio keyword':
            sf.setPrecipitateShape(shape)
            sf.setAspectRatio(ar=a)
        elif how == 'default then description':      # omitted arguments: sphere, aspect ratio 1
            sf.setAspectRatio(a)
            sf.description = descr(SF, shape)
        return sf
    hows = ['ctor positional', 'ctor keywords', 'ctor keywords swapped', 'setPrecipitateShape name', 'setPrecipitateShape keywords instance',
            'setter positional', 'setter keyword', 'shape then setAspectRatio keyword', 'default then description']
    if a == 1:
        hows += ['omitted']
    hits = []

    def answers(sf):
        out = [np.array(sf.findRcrit(Rs, Rmax), dtype=float)]
        for m in FACTORS + ['normalRadii']:
            out.append(np.array(getattr(sf, m)(Rs), dtype=float))
            out.append(np.array(getattr(sf, m)(R=np.array([Rs, 2 * Rs, 3 * Rs])), dtype=float))
        return out
    ref = None
    for how in hows:
        try:
            sf = SF.ShapeFactor(shape) if how == 'omitted' else build(how)
            if how == 'omitted' and shape != 'sphere':
                sf2 = SF.ShapeFactor()
                getattr(sf2, setter)()
                if type(sf2.description) is not type(sf.description):
                    hits.append(('shape_dispatch', 'ShapeFactors.ShapeFactor.' + setter, 'omitted argument', '%s() selects %s' % (setter, type(sf2.description).__name__), dict(c)))
            ans = answers(sf)
        except Exception as e:
            hits.append(('no_internal_error', 'ShapeFactors.ShapeFactor', type(e).__name__, '%s, aspect ratio %r via %s raised %s: %s' % (shape, a, how, type(e).__name__, e), dict(c)))
            continue
        if ref is None:
            ref = (how, ans)
            continue
        for k, (x, y) in enumerate(zip(ref[1], ans)):
            if x.shape != y.shape or x.tobytes() != y.tobytes():
                what = 'findRcrit' if k == 0 else (FACTORS + ['normalRadii'])[(k - 1) // 2] + (' (scalar radius)' if k % 2 == 1 else ' (array of radii)')
                hits.append(('composition', 'ShapeFactors.ShapeFactor', 'calling convention',
                             '%s with aspect ratio %r: %s answers %r when configured via "%s" and %r via "%s"' % (shape, a, what, y.tolist(), how, x.tolist(), ref[0]), dict(c)))
                break
    return hits


def eval_sequence(SF, c):
    try:
        found = sequence_hits(SF, c)
    except Exception as e:
        return [('no_internal_error', 'ShapeFactors.ShapeFactor', type(e).__name__, 'sequence raised %s: %s' % (type(e).__name__, e), dict(c))]
    hits = []
    seen = set()
    for i, clause, site, cls, msg in found:
        if (clause, site, cls) in seen:
            continue
        seen.add((clause, site, cls))
        # minimise: cut after the failing operation, then drop operations one by one while the same clause still fails at the end
        ops = list(c['ops'][:i + 1])

        def still(ops_):
            try:
                hs = sequence_hits(SF, dict(c, ops=ops_))
            except Exception:
                return None
            hs = [h for h in hs if h[0] == len(ops_) - 1 and (h[1], h[2], h[3]) == (clause, site, cls)]
            return hs[0][4] if hs else None
        j = 0
        while j < len(ops) - 1:
            trial = ops[:j] + ops[j + 1:]
            if still(trial):
                ops = trial
            else:
                j += 1
        m2 = still(ops) or msg
        hits.append((clause, site, cls, m2, dict(c, ops=ops)))
    return hits


def eval_rcrit(SF, c):
    shape = c['shape']
    Rs, Rmax, tol = (float.fromhex(c[k]) if isinstance(c[k], str) else float(c[k]) for k in ('Rs', 'Rmax', 'tol'))
    spec = c['aspect']
    ar = aspect_fun(spec, Rs)
    sf = SF.ShapeFactor()
    hits = []
    site = 'ShapeFactors.ShapeFactor.findRcrit'
    # the three public ways of choosing a shape must select the same description class
    how = c.get('select', 'instance')
    if how == 'name':
        sf.setPrecipitateShape(shape, ar)
    elif how == 'setter':
        getattr(sf, {'sphere': 'setSpherical', 'needle': 'setNeedleShape', 'plate': 'setPlateShape', 'cubic': 'setCuboidalShape'}[shape])(ar)
        if shape == 'sphere':
            sf.setAspectRatio(ar)      # setSpherical fixes the aspect ratio at 1; the factors do not depend on it
    else:
        sf.setPrecipitateShape(descr(SF, shape), ar)
    want_cls = type(descr(SF, shape)).__name__
    if type(sf.description).__name__ != want_cls:
        return [('shape_dispatch', 'ShapeFactors.ShapeFactor.setPrecipitateShape', how,
                 'shape %r selected by %s gives a %s, expected %s' % (shape, how, type(sf.description).__name__, want_cls), dict(c))]
    sf.tol = tol

    def arf(R):
        return float(ar) if spec['type'] == 'const' else float(ar(R))

    def g(R):
        return R / (Rs * oracle_thermo(shape, arf(R))) - 1
    try:
        r = float(sf.findRcrit(Rs, Rmax))
    except Exception as e:
        return [('no_internal_error', site, type(e).__name__, 'findRcrit raised %s: %s' % (type(e).__name__, e), dict(c))]
    # composition: the ShapeFactor functions are the description's at the aspect ratio of that radius
    for m in FACTORS:
        for R in (Rs, Rmax, 0.5 * (Rs + Rmax)):
            a = np.array(getattr(sf, m)(R), dtype=float)
            b = np.array(getattr(sf.description, m)(arf(R)), dtype=float)
            if a.tobytes() != b.tobytes():
                hits.append(('composition', 'ShapeFactors.ShapeFactor.' + m, 'value', 'ShapeFactor.%s(%r) = %r, description.%s(aspect(%r)) = %r' % (m, R, a.tolist(), m, R, b.tolist()), dict(c)))
    if spec['type'] == 'const':
        if not abs(g(r)) <= 1e-8:
            hits.append(('findRcrit_root', site, 'scalar aspect ratio', 'findRcrit(%r, %r) = %r with constant aspect ratio %r: R/(R_sphere*factor) - 1 = %r' % (Rs, Rmax, r, arf(Rs), g(r)), dict(c)))
        return hits
    g0, g1 = g(Rs), g(Rmax)
    c['_bracketed'] = bool(g0 * g1 < 0 and min(abs(g0), abs(g1)) > 1e-6)
    if c['_bracketed']:
        if not (min(Rs, Rmax) <= r <= max(Rs, Rmax) and abs(g(r)) <= tol * (1 + 1e-6) + 1e-8):
            hits.append(('findRcrit_root', site, 'bracketed root', 'findRcrit(%r, %r) = %r although a root is bracketed (objective %r at R_sphere, %r at Rmax): objective there %r, tolerance %r'
                         % (Rs, Rmax, r, g0, g1, g(r), tol), {k: v for k, v in c.items() if not k.startswith('_')}))
    return hits


# ==========================================================================================
# generators
def ar_samples(rng, n):
    xs = [1.0, 1.5, 2.0, 3.0, 4.0, 8.0, 10.0, 16.0, 64.0, 100.0, 0.5, 0.0, -1.0, 0.999]
    xs += [1.0 + 2.0 ** -k for k in (4, 8, 12, 16, 20, 26, 32, 40)]
    xs += list(np.exp(rng.uniform(0, math.log(100.0), n)))
    xs += list(1.0 + 10.0 ** rng.uniform(-9, -1, max(2, n // 4)))
    xs += list(rng.uniform(-2.0, 1.0, max(2, n // 6)))
    return [float(x) for x in xs]


def gen_factor_cases(rng, quick):
    cases = []
    n = 12 if quick else 400
    for s in SHAPES:
        xs = ar_samples(rng, n)
        rng.shuffle(xs)
        # several arrays (length 1, 2, many) so that scalar / length-1 / general shapes are all met
        cuts = [1, 2, 5] + [len(xs)]
        a = 0
        for b in cuts:
            b = min(len(xs), a + b)
            if b > a:
                cases.append({'kind': 'factors', 'shape': s, 'ars': hexl(xs[a:b])})
            a = b
        # every array length 1..8 (a length that coincides with an internal dimension, e.g. 3 rows of radii, must not matter)
        for n in range(1, 9):
            for rep in range(1 if quick else 6):
                vals = [float(v) for v in np.exp(rng.uniform(0.05, math.log(100.0), n))]
                if rep % 2 == 1 and n > 1:
                    vals[int(rng.integers(0, n))] = float(rng.uniform(-1.0, 1.0))
                cases.append({'kind': 'factors', 'shape': s, 'ars': hexl(vals)})
    return cases


def gen_continuity_cases(rng, quick):
    ks = [8, 12, 16, 20, 24, 28, 32, 36, 40, 44, 48, 52] if quick else list(range(6, 53))
    return [{'kind': 'continuity', 'shape': s, 'k': k} for s in SHAPES for k in ks]


def gen_mutation_cases(rng, quick):
    cases = []
    for s in SHAPES:
        for m in FACTORS + ['normalRadii']:
            for cont, vals in (('array', [0.5, 1.0, 2.0]), ('zero_d', [0.25]), ('int_array', [0, 1, 3]), ('view', [0.75, 5.0])):
                cases.append({'kind': 'mutation', 'shape': s, 'method': m, 'container': cont, 'values': vals, 'via': 'description'})
            cases.append({'kind': 'mutation', 'shape': s, 'method': m, 'container': 'array', 'values': [float(x) for x in rng.uniform(0.0, 3.0, 4)], 'via': 'ShapeFactor'})
    return cases


def gen_typed_cases(rng, quick):
    cases = []
    for s in SHAPES:
        for m in FACTORS + ['normalRadii']:
            for cont in TYPED_CONTAINERS:
                extra = [int(x) for x in rng.integers(2, 101, 2 if quick else 12)]
                if cont in TYPED_SCALARS or cont == 'sf_int_constant':
                    pool = [3, 1, 2, 40, 100, 0] + extra
                    vs = [pool[int(rng.integers(0, len(pool)))]] if quick else pool
                    cases += [{'kind': 'typed', 'shape': s, 'method': m, 'container': cont, 'values': [v]} for v in (vs if not quick else [3] + vs)]
                elif cont in TYPED_SF:
                    cases.append({'kind': 'typed', 'shape': s, 'method': m, 'container': cont, 'values': [2, 5]})
                    cases.append({'kind': 'typed', 'shape': s, 'method': m, 'container': cont, 'values': [1, extra[0]]})
                else:
                    vals = [1, 2, 3, 5, 10, 40, 100, 0, -2] + extra
                    if 'float32' in cont:
                        vals = [1, 2, 3, 5, 10, 0] + [min(v, 16) for v in extra]       # float32 accuracy: stay away from 1 - ecc ~ 1e-5
                    cases.append({'kind': 'typed', 'shape': s, 'method': m, 'container': cont, 'values': vals})
                    cases.append({'kind': 'typed', 'shape': s, 'method': m, 'container': cont, 'values': [extra[0]]})
    return cases


def gen_aspect_spec(rng, const=None):
    if const is None:
        const = rng.random() < 0.6
    if const:
        v = [1.0, 2.0, 5.0, 0.5, 2, 5, float(rng.uniform(1, 100)), float(1 + 10.0 ** rng.uniform(-3, 0))][int(rng.integers(0, 8))]
        return {'type': 'const', 'p': [v]}
    t = ['linear', 'power', 'saturating', 'decreasing'][int(rng.integers(0, 4))]
    p = {'linear': [float(rng.uniform(0.2, 3.0)), float(rng.uniform(0.0, 3.0))], 'power': [float(rng.uniform(0.5, 4.0)), float(rng.uniform(0.2, 1.3))],
         'saturating': [float(rng.uniform(0.0, 40.0)), float(rng.uniform(0.5, 10.0))], 'decreasing': [float(rng.uniform(0.0, 20.0)), float(rng.uniform(0.1, 3.0))]}[t]
    return {'type': t, 'p': p}


def fixed_sequence_cases():
    """the canonical reuse patterns, always run"""
    Rs, Rmax = (1e-9).hex(), (2e-8).hex()
    k = lambda v: {'type': 'const', 'p': [v]}
    fun = {'type': 'linear', 'p': [1.5, 0.5]}
    out = []
    for sh in ('needle', 'plate', 'cubic'):
        out.append({'kind': 'sequence', 'Rs': Rs, 'Rmax': Rmax, 'ops': [['set_shape', 'instance', sh, k(2.0)], ['find'], ['set_aspect', k(5.0)], ['find']]})
        out.append({'kind': 'sequence', 'Rs': Rs, 'Rmax': Rmax,
                    'ops': [['set_shape', 'name', sh, k(2.0)], ['find'], ['set_aspect', fun], ['find'], ['set_aspect', k(3.0)], ['find'], ['read', 'thermoFactor', 1.0]]})
        out.append({'kind': 'sequence', 'Rs': Rs, 'Rmax': Rmax,
                    'ops': [['set_shape', 'setter', sh, fun], ['find'], ['description', 'plate' if sh != 'plate' else 'needle'], ['find'], ['set_aspect', k(2.0)], ['find'],
                            ['set_shape', 'setter', sh, k(7.0)], ['find'], ['description', 'sphere'], ['find']]})
        # returning to an EARLIER setting after something else was set in between (a "nothing changed" shortcut must not fire)
        for how in ('name', 'setter', 'instance'):
            out.append({'kind': 'sequence', 'Rs': Rs, 'Rmax': Rmax,
                        'ops': [['set_shape', how, sh, k(2.0)], ['find'], ['set_aspect', fun], ['find'], ['set_shape', how, sh, k(2.0)], ['find'],
                                ['read', 'thermoFactor', 1.0], ['read', 'normalRadii', 2.0]]})
        out.append({'kind': 'sequence', 'Rs': Rs, 'Rmax': Rmax,
                    'ops': [['set_aspect', k(3.0)], ['description', sh], ['find'], ['set_aspect', fun], ['set_aspect', k(3.0)], ['find'],
                            ['description', 'sphere'], ['description', sh], ['find'], ['read', 'kineticFactor', 1.5]]})
    return out


def gen_sequence_case(rng, i):
    """operations on one ShapeFactor object: queries (findRcrit, factor reads) interleaved with setAspectRatio (scalar and
    function), setPrecipitateShape by instance / name, set...Shape, and assignment of the description property"""
    Rs = float(10.0 ** rng.uniform(-10, -8))
    Rmax = Rs * float(rng.uniform(4.0, 30.0))
    ops = []
    if i % 3 != 0:
        ops.append(['set_shape', ['instance', 'name', 'setter'][int(rng.integers(0, 3))], SHAPES[int(rng.integers(0, 4))], gen_aspect_spec(rng)])
    n = int(rng.integers(4, 11))
    for _ in range(n):
        u = rng.random()
        earlier = [op for op in ops if op[0] in ('set_shape', 'set_aspect', 'description')]
        if earlier and rng.random() < 0.2:
            ops.append(list(earlier[int(rng.integers(0, len(earlier)))]))       # re-apply an earlier setting verbatim
            continue
        if u < 0.36:
            ops.append(['find'])
        elif u < 0.48:
            ops.append(['read', FACTORS[int(rng.integers(0, 3))] if rng.random() < 0.8 else 'normalRadii', float(rng.uniform(1.0, 4.0))])
        elif u < 0.70:
            ops.append(['set_aspect', gen_aspect_spec(rng, const=True)])
        elif u < 0.80:
            ops.append(['set_aspect', gen_aspect_spec(rng, const=False)])
        elif u < 0.92:
            ops.append(['set_shape', ['instance', 'name', 'setter'][int(rng.integers(0, 3))], SHAPES[int(rng.integers(0, 4))], gen_aspect_spec(rng)])
        else:
            ops.append(['description', SHAPES[int(rng.integers(0, 4))]])
    ops.append(['find'])
    return {'kind': 'sequence', 'Rs': Rs.hex(), 'Rmax': Rmax.hex(), 'ops': ops}


def gen_interleave_case(rng, i):
    Rs = float(10.0 ** rng.uniform(-10, -8))
    Rmax = Rs * float(rng.uniform(4.0, 30.0))
    k = 2 + int(i % 3 == 0)
    seqs = []
    for j in range(k):
        ops = gen_sequence_case(rng, 1)['ops']
        seqs.append(ops)
    order = []
    left = [len(q) for q in seqs]
    while any(left):
        j = int(rng.integers(0, k))
        if left[j]:
            left[j] -= 1
            order.append(j)
    return {'kind': 'interleave', 'Rs': Rs.hex(), 'Rmax': Rmax.hex(), 'seqs': seqs, 'order': order}


def gen_sf_array_cases(rng, quick):
    cases = []
    for s in SHAPES:
        for n in range(1, 9):
            for rep in range(1 if quick else 5):
                Rs = float(10.0 ** rng.uniform(-10, -8))
                cases.append({'kind': 'sf_array', 'shape': s, 'aspect': gen_aspect_spec(rng, const=(n + rep) % 3 == 0), 'Rs': Rs.hex(),
                              'mult': [float(x) for x in rng.uniform(0.5, 6.0, n)]})
    return cases


def gen_convention_cases(rng, quick):
    cases = []
    for s in SHAPES:
        for a in [1, 2.0, 5, float(rng.uniform(1, 100))] + ([] if quick else [float(x) for x in rng.uniform(0.5, 100, 6)]):
            Rs = float(10.0 ** rng.uniform(-10, -8))
            cases.append({'kind': 'convention', 'shape': s, 'ar': a, 'Rs': Rs.hex(), 'Rmax': (Rs * 20).hex()})
    return cases


def gen_rcrit_case(rng, i):
    shape = SHAPES[i % 4]
    Rs = float(10.0 ** rng.uniform(-10, -8))
    Rmax = Rs * float(rng.uniform(1.2, 30.0))
    t = ['const', 'linear', 'power', 'saturating', 'decreasing'][(i // 4) % 5]
    if t == 'const':
        p = [float(rng.choice([0.5, 1.0, 1.0 + 10.0 ** rng.uniform(-6, 0), rng.uniform(1, 100)]))]
    elif t == 'linear':
        p = [float(rng.uniform(0.2, 3.0)), float(rng.uniform(0.0, 3.0))]
    elif t == 'power':
        p = [float(rng.uniform(0.5, 4.0)), float(rng.uniform(0.2, 1.3))]
    elif t == 'saturating':
        p = [float(rng.uniform(0.0, 40.0)), float(rng.uniform(0.5, 10.0))]
    else:
        p = [float(rng.uniform(0.0, 20.0)), float(rng.uniform(0.1, 3.0))]
    tol = float(rng.choice([1e-3, 1e-3, 1e-5, 1e-2, 2.0 ** -10, 1e-8, 1e-10]))
    return {'kind': 'rcrit', 'shape': shape, 'aspect': {'type': t, 'p': p}, 'Rs': Rs.hex(), 'Rmax': Rmax.hex(), 'tol': tol.hex(),
            'select': ['instance', 'name', 'setter'][(i // 20) % 3]}


def corpus_cases():
    d = os.path.join(VERIF, 'corpus', 'C15')
    out = []
    for f in sorted(os.listdir(d)) if os.path.isdir(d) else []:
        if f.endswith('.json'):
            c = json.load(open(os.path.join(d, f)))
            c = c.get('input', c)
            c['corpus'] = f
            out.append(c)
    return out


def nontrivial(c):
    if c['kind'] == 'factors':
        return c['shape'] != 'sphere' and any((float.fromhex(x) if isinstance(x, str) else x) > 1 for x in c['ars'])
    if c['kind'] == 'rcrit':
        return bool(c.get('_bracketed')) or c['aspect']['type'] == 'const'
    if c['kind'] == 'mutation':
        return any(float(v) < 1 for v in c['values'])
    if c['kind'] == 'typed':
        return c['shape'] != 'sphere' and any(int(v) > 1 for v in c['values'])
    if c['kind'] in ('sf_array', 'convention'):
        return c['shape'] != 'sphere'
    if c['kind'] == 'sequence':
        # a query after a reconfiguration that followed an earlier query
        ks = [op[0] for op in c['ops']]
        first_q = min([i for i, k in enumerate(ks) if k in ('find', 'read')] or [len(ks)])
        return any(k in ('set_aspect', 'set_shape', 'description') for k in ks[first_q:])
    return True


def search(ctx, quick, budget=1.0):
    rng = ctx.rng
    hits = []
    cases = gen_factor_cases(rng, quick) + gen_continuity_cases(rng, quick) + gen_mutation_cases(rng, quick) + gen_typed_cases(rng, quick)
    nr = int((48 if quick else 6000) * budget)
    cases += [gen_rcrit_case(rng, i) for i in range(nr)]
    cases += fixed_sequence_cases() + [gen_sequence_case(rng, i) for i in range(int((60 if quick else 2000) * budget))]
    cases += [gen_interleave_case(rng, i) for i in range(int((30 if quick else 1000) * budget))]
    cases += gen_sf_array_cases(rng, quick) + gen_convention_cases(rng, quick)
    for c in cases:
        try:
            hs = evaluate_case(c)
        except Exception as e:
            hs = [('no_internal_error', 'harness/c15.py', type(e).__name__, 'case %r raised %s: %s' % (c.get('kind'), type(e).__name__, e), dict(c))]
        key = {k: v for k, v in c.items() if not k.startswith('_')}
        ctx.count(key, nontrivial(c))
        ctx.hist('kind', c['kind'])
        if c['kind'] == 'interleave':
            ctx.hist('interleaved_objects', len(c['seqs']))
        elif c['kind'] == 'sequence':
            ctx.hist('sequence_length', len(c['ops']))
            for op in c['ops']:
                ctx.hist('sequence_op', op[0] + ('' if op[0] != 'set_aspect' else ('(scalar)' if op[1]['type'] == 'const' else '(function)')))
            if len(c['ops']) <= 7:
                ctx.sample(key, limit=10)
        else:
            ctx.hist('shape', c['shape'])
        if c['kind'] == 'rcrit':
            ctx.hist('aspect', c['aspect']['type'])
            ctx.hist('rcrit_bracketed', bool(c.get('_bracketed')))
        if c['kind'] == 'typed':
            ctx.hist('typed_container', c['container'])
        if c['kind'] in ('factors', 'rcrit'):
            ctx.sample(key, limit=6)
        if c['kind'] == 'typed' and c['container'] == 'int64_array' and len(c['values']) > 1:
            ctx.sample(key, limit=8)
        hits += hs
    return hits, len(cases)


def report_hits(ctx, hits):
    for clause, site, cls, msg, mincase in hits:
        mc = {k: v for k, v in mincase.items() if not k.startswith('_') and k != 'corpus'}
        # confirm that the minimised case still shows the violation, else keep the message's case
        ctx.violation(clause, {'site': site, 'cls': cls},
                      {'kind': 'input', 'input': mc, 'observed': msg,
                       'oracle': 'independent geometry (quadrature / elementary formulas) and property text, harness/c15.py'}, msg)


# ==========================================================================================
# Coq side
def regenerate(ctx):
    sp = os.path.join(REPO, SRC_REL)
    try:
        text, info = tr.translate(open(sp).read())
    except tr.TranslationError as e:
        return False, 'translator: ' + str(e)
    except Exception as e:
        return False, 'translator failed unexpectedly: %s: %s' % (type(e).__name__, e)
    path = os.path.join(ctx.build, 'ShapeFactors_gen.v')
    open(path, 'w').write(text)
    ok, out = ctx.coqc(path)
    if not ok:
        return False, 'generated file does not compile: ' + out[-600:]
    return True, info


def dynamic_identity_check():
    """the module that runs is the file that was translated"""
    SF = impl()
    probs = []
    exp = os.path.realpath(os.path.join(REPO, SRC_REL))
    if os.path.realpath(SF.__file__) != exp:
        probs.append('ShapeFactors is loaded from %s, translated file is %s' % (SF.__file__, exp))
    pp = importlib.import_module('kawin.precipitation.PrecipitationParameters')
    if pp.ShapeFactor is not SF.ShapeFactor:
        probs.append('PrecipitateParameters does not use the translated ShapeFactor class')
    return probs


def rlit(x):
    f = frac(x)
    if f.denominator == 1:
        return '(%d)' % f.numerator
    return '(%d / %d)' % (f.numerator, f.denominator)


def run_coq_files(ctx, files, timeout=900):
    """compile files in parallel (16 at a time); returns list of (returncode, output)"""
    outs = [None] * len(files)
    idx, running = 0, []
    while idx < len(files) or running:
        while idx < len(files) and len(running) < 16:
            cmd = ['timeout', str(timeout), 'coqc', '-noglob', '-R', COQ, 'Kawin', '-R', ctx.build, 'KawinRun', files[idx]]
            running.append((idx, subprocess.Popen(cmd, stdout=subprocess.PIPE, stderr=subprocess.PIPE, text=True, cwd=ctx.build)))
            idx += 1
        i, p = running.pop(0)
        o, e = p.communicate()
        outs[i] = (p.returncode, o, e)
    return outs


ENC_HEADER = ('From Coq Require Import Reals.\nRequire Import Kawin.C15.Model Kawin.C15.Enclose KawinRun.ShapeFactors_gen.\n'
              'Open Scope R_scope.\n')


def enclosure_goals(SF, rng, quick):
    """sampled exact inputs, the implementation's values, and the goals about the generated text"""
    goals = []
    n = 6 if quick else 200
    for s in SHAPES:
        d = descr(SF, s)
        xs = [1.0, 2.0, 100.0, 0.5, 1.0 + 2.0 ** -10, 1.0 + 2.0 ** -30] + [float(x) for x in np.exp(rng.uniform(0, math.log(100.0), n))]
        xs += [float(1.0 + 10.0 ** rng.uniform(-8, -1))]
        arr = np.array(xs, dtype=float)
        for m in FACTORS + ['normalRadii']:
            A = np.array(getattr(d, m)(arr.copy()), dtype=float)         # array call
            for i, x in enumerate(xs):
                y = np.atleast_1d(np.array(getattr(d, m)(x), dtype=float)) if i % 2 == 0 else np.atleast_1d(A[i])   # scalar / array call alternate
                if not np.all(np.isfinite(y)):
                    goals.append({'shape': s, 'method': m, 'ar': x, 'goal': None, 'y': [repr(v) for v in y]})
                    continue
                for comp, yv in enumerate(y):
                    tol = 1e-9 * abs(float(yv)) + noise(max(x, 1.0)) + 1e-300
                    name = '%s_%s_public_gen' % (GEN[s], m)
                    lhs = '%s %s' % (name, rlit(x)) if m != 'normalRadii' else 'ax%d (%s %s)' % (comp + 1, name, rlit(x))
                    goals.append({'shape': s, 'method': m, 'ar': x, 'comp': comp, 'y': float(yv), 'tol': tol,
                                  'goal': 'Rabs (%s - %s) <= %s' % (lhs, rlit(float(yv)), rlit(tol))})
    return goals


def run_enclosures(ctx, goals, tag='enc'):
    """returns list of booleans (None for goals without statement)"""
    live = [g for g in goals if g['goal']]
    nshard = max(1, min(64, len(live) // 12))
    files = []
    per = -(-len(live) // nshard)
    for s in range(nshard):
        part = live[s * per:(s + 1) * per]
        if not part:
            continue
        path = os.path.join(ctx.build, '%s_%d.v' % (tag, s))
        with open(path, 'w') as f:
            f.write(ENC_HEADER)
            for j, g in enumerate(part):
                f.write('Definition e%d : {%s} + {True}.\nProof. decide_enclosure ltac:(enclose gen_unfold). Defined.\nEval vm_compute in verdict e%d.\n' % (j, g['goal'], j))
        files.append((path, part))
    outs = run_coq_files(ctx, [p for p, _ in files])
    for (path, part), (rc, o, e) in zip(files, outs):
        if rc != 0:
            raise RuntimeError('enclosure file %s failed:\n%s' % (path, (o + e)[-2000:]))
        vals = [parse_coq(b) for b in split_evals(o)]
        if len(vals) != len(part):
            raise RuntimeError('expected %d verdicts from %s, got %d' % (len(part), path, len(vals)))
        for g, v in zip(part, vals):
            g['ok'] = bool(v)
    return goals


# ---- bisection traces on binary64 ----------------------------------------------------------
def flit(x):
    x = float(x)
    if x != x:
        return 'nan'
    if x in (float('inf'), float('-inf')):
        return 'infinity' if x > 0 else 'neg_infinity'
    h = x.hex()
    return '(%s)' % h if h.startswith('-') else h


TRACE_HEADER = ('From Coq Require Import List Bool ZArith PrimFloat.\nRequire Import Kawin.Common.Ops Kawin.C15.Model Kawin.C15.Corr KawinRun.ShapeFactors_gen.\n'
                'Import ListNotations.\nOpen Scope float_scope.\n')


class Unobservable(Exception):
    pass


MAXITER = [100]          # loop bound read from the source by the translator (n == N exit)


def trace_case(SF, c):
    """run _findRcrit with a logging thermoFactor; returns dict with the table and the result"""
    shape = c['shape']
    Rs, Rmax, tol = (float.fromhex(c[k]) for k in ('Rs', 'Rmax', 'tol'))
    ar = aspect_fun(c['aspect'], Rs)
    sf = SF.ShapeFactor()
    sf.setPrecipitateShape(descr(SF, shape), ar)
    sf.setAspectRatio(ar)          # (a sphere instance resets the aspect ratio to the scalar 1: make it the function again)
    sf.tol = tol
    log = []
    orig = sf.thermoFactor

    def logged(R):
        v = orig(R)
        log.append((float(R), float(v)))
        return v
    sf.thermoFactor = logged
    r = float(sf.findRcrit(Rs, Rmax))        # public entry; for a callable aspect ratio this is the bisection
    if len(log) < 3:
        raise Unobservable('the bisection does not evaluate the thermodynamic factor through self.thermoFactor (%d calls seen)' % len(log))
    iters = len(log) - 3
    return {'table': log, 'r': r, 'iters': iters, 'found': iters < MAXITER[0], 'Rs': Rs, 'Rmax': Rmax, 'tol': tol}


def gen_trace_case(rng, i):
    c = gen_rcrit_case(rng, i)
    if c['aspect']['type'] == 'const':
        c['aspect'] = {'type': 'linear', 'p': [1.0, 1.0]}
    if i % 7 == 3:      # a bracket that cannot reach the tolerance: exercises the n == 100 exit
        c['tol'] = (0.0).hex()
    return c


def run_traces(ctx, quick):
    SF = impl()
    n = 40 if quick else 3000
    cases, terms = [], []
    for i in range(n):
        c = gen_trace_case(ctx.rng, i)
        try:
            t = trace_case(SF, c)
        except Unobservable as e:
            raise RuntimeError(str(e))          # the tie cannot be observed: reported without input by the caller
        except Exception as e:
            cases.append((c, None, 'implementation raised %s: %s' % (type(e).__name__, e)))
            continue
        if not all(math.isfinite(v) for kv in t['table'] for v in kv) or not math.isfinite(t['r']):
            cases.append((c, t, 'skip'))
            continue
        seen, tbl = set(), []
        for k, v in t['table']:
            if k not in seen:
                seen.add(k)
                tbl.append('(%s, %s)' % (flit(k), flit(v)))
        args = '[%s] %s %s %s' % ('; '.join(tbl), flit(t['Rs']), flit(t['tol']), flit(t['Rmax']))
        terms.append('(trace_check (findRcrit_gen F64ops) %s %s %s %d%%nat, trace_check (findRcrit F64ops) %s %s %s %d%%nat)'
                     % (args, 'true' if t['found'] else 'false', flit(t['r']), t['iters'],
                        args, 'true' if t['found'] else 'false', flit(t['r']), t['iters']))
        cases.append((c, t, 'eval'))
    res = ctx.coq_eval('trace', TRACE_HEADER, terms, shard=max(4, -(-len(terms) // 8))) if terms else []
    dis = []
    k = 0
    for c, t, st in cases:
        if st == 'eval':
            okg, okh = res[k]
            k += 1
            ctx.count({'trace': c}, True)
            ctx.hist('trace_iterations', 'gave up' if not t['found'] else ('0' if t['iters'] == 0 else '1-9' if t['iters'] < 10 else '10-29' if t['iters'] < 30 else '30-99'))
            ctx.cov['traces_validated_against_impl'] += 1
            if not (okg and okh):
                dis.append((c, 'findRcrit(%r, %r), tol %r: implementation returned %r after %d iterations; generated model agrees: %s, hand model agrees: %s'
                            % (t['Rs'], t['Rmax'], t['tol'], t['r'], t['iters'], okg, okh)))
        elif st != 'skip':
            dis.append((c, st))
    return dis


def coqchk(ctx):
    """thorough tier: independent re-check of the compiled property files and their whole closure"""
    cmd = ['timeout', '2400', 'coqchk', '-silent', '-o', '-R', COQ, 'Kawin', '-R', ctx.build, 'KawinRun',
           'KawinRun.GenProperties', 'KawinRun.Properties']
    r = subprocess.run(cmd, capture_output=True, text=True, cwd=ctx.build)
    out = r.stdout + r.stderr
    axioms = re.findall(r'^\s{4}(Coq\.[A-Za-z_0-9\.]+|[A-Z][A-Za-z_0-9\.]+)\s*$', out.split('* Axioms:')[1].split('* Constants')[0], re.M) if '* Axioms:' in out else []
    ctx.notes['coqchk'] = {'returncode': r.returncode, 'axioms': axioms}
    std = {'Coq.Logic.FunctionalExtensionality.functional_extensionality_dep', 'Coq.Reals.ClassicalDedekindReals.sig_not_dec',
           'Coq.Reals.ClassicalDedekindReals.sig_forall_dec', 'Coq.Logic.Classical_Prop.classic'}
    bad = [a for a in axioms if a not in std]
    if r.returncode != 0 or bad or '<none>' not in out:
        ctx.violation('coqchk', {'site': 'coq/C15', 'cls': 'coqchk'}, {'broken': {'coqchk': out[-1500:], 'unexpected_axioms': bad}},
                      'coqchk does not accept the compiled property files (exit %d, unexpected axioms %r)' % (r.returncode, bad), no_input=True)


def bridge_failure(ctx):
    """name of the first bridge lemma that no longer holds, or None when Bridge.v compiled"""
    for e in ctx.notes.get('coq_errors', []):
        if e['file'] == 'C15/run/Bridge.v':
            m = re.search(r'File "[^"]*Bridge\.v", line (\d+)', e['output'])
            name = '?'
            if m:
                lines = open(os.path.join(COQ, 'C15', 'run', 'Bridge.v')).read().splitlines()[:int(m.group(1))]
                for ln in reversed(lines):
                    mm = re.match(r'\s*Lemma\s+([A-Za-z_0-9\']+)', ln)
                    if mm:
                        name = mm.group(1)
                        break
            return name, e['output'][-600:]
    return None


def report_proof_failures(ctx, failed):
    bf = bridge_failure(ctx)
    if bf:
        name, out = bf
        rest = [t for t in failed if not t.startswith('C15_gen_')]
        ctx.violation('bridge', {'site': 'coq/C15/run/Bridge.v', 'cls': name},
                      {'broken': {'bridge_lemma': name, 'error': out, 'unchecked_theorems': [t for t in failed if t.startswith('C15_gen_')]}},
                      'the text generated from the current source is no longer the model the theorems are about: bridge lemma %s fails; %d theorems about the generated text are unchecked'
                      % (name, sum(1 for t in failed if t.startswith('C15_gen_'))), no_input=True)
        failed = rest
    for t in failed:
        ctx.violation(t, {'site': 'coq/C15', 'cls': 'proof'},
                      {'broken': {'theorem': t, 'errors': ctx.notes.get('coq_errors', [])[:2]}},
                      'theorem %s no longer checks against the text generated from the current source' % t, no_input=True)


# ==========================================================================================
def run(ctx):
    quick = ctx.quick
    ctx.cov['rule'] = ('factor cases: four shapes x arrays (length 1, 2, 5, many, and EVERY length 1..8) of aspect ratios from {dyadic values, 1 + 2^-k, log-uniform in [1,100], '
                       '1 + 10^U(-9,-1), values below 1 incl. 0 and negatives}, every public function called on the array and on each scalar; '
                       'continuity cases f(1) vs f(1 + 2^-k); argument-type cases (whole-number aspect ratios as Python int, np.int64 / np.int32 / np.float32 scalars, 0-d arrays, int64 / int32 / float32 arrays, lists, tuples, integer-valued aspect-ratio functions and integer constants through ShapeFactor) compared with the float64 call; argument-mutation cases (float / int / 0-d / view arrays, via the description and via ShapeFactor); '
                       'critical-radius cases: R_sphere in [1e-10, 1e-8], Rmax/R_sphere in [1.2, 30], constant and four families of radius-dependent aspect ratios, '
                       'tolerances 1e-2 .. 1e-10, shape selected by instance / by name / by the set...Shape methods; operation sequences on one ShapeFactor object (findRcrit and factor reads interleaved with setAspectRatio scalar / function, setPrecipitateShape, set...Shape, assignment of description), every answer compared bitwise with a freshly constructed object in the same configuration, with the root condition and (factor reads) with the independent geometry, including histories that return to an earlier setting; two or three ShapeFactor objects alive at once and used interleaved; ShapeFactor functions on arrays of 1..8 radii / lists / 0-d arrays vs scalar calls with the argument re-used; the same configuration reached through every public calling convention (constructor / setPrecipitateShape / set...Shape, positional / keyword / omitted arguments); bisection traces replayed bit-exactly in Coq; non-trivial = non-spherical shape with an aspect ratio above 1 / '
                       'bracketed root or constant aspect ratio / array with an entry below 1; distinct by hash of the exact input')
    # ---- 1. regenerate the model of the code -------------------------------------------------
    tie_ok, info = regenerate(ctx)
    failed = []
    if tie_ok:
        ctx.notes['translator'] = info
        ctx.notes['generated_sha256'] = info['sha256']
        MAXITER[0] = int(info.get('findRcrit_maxiter', 100))
        axioms, failed = ctx.prove(['C15/Properties.v'] + RUN_FILES)
    else:
        ctx.notes['tie_broken'] = info
        axioms, failed0 = ctx.prove(['C15/Properties.v'])
        failed = list(failed0)
        for rel in RUN_FILES:
            thms = re.findall(r'^\s*Theorem\s+([A-Za-z_0-9\']+)', open(os.path.join(COQ, rel)).read(), re.M)
            ctx.cov['obligations'] += len(thms)
            failed += thms
    ident = dynamic_identity_check()
    if tie_ok and not failed and not quick:
        coqchk(ctx)
    # ---- 2. corpus + search with the independent oracle (always) -------------------------------
    hits = []
    for c in corpus_cases():
        name = c.pop('corpus')
        try:
            hs = evaluate_case(c)
        except Exception as e:
            hs = [('no_internal_error', 'harness/c15.py', type(e).__name__, 'corpus case %s raised %s' % (name, e), dict(c))]
        ctx.count({'corpus': name}, True)
        ctx.hist('kind', 'corpus')
        hits += hs
    shits, ncases = search(ctx, quick)
    hits += shits
    # ---- 3. translator validation: enclosures and bisection traces ------------------------------
    dis = []
    if tie_ok:
        try:
            goals = run_enclosures(ctx, enclosure_goals(impl(), ctx.rng, quick))
            for g in goals:
                ctx.count({'enclosure': [g['shape'], g['method'], float(g['ar']).hex(), g.get('comp', 0)]}, g['shape'] != 'sphere' and g['ar'] > 1)
                ctx.hist('enclosure', g['shape'] + '.' + g['method'])
                if g['goal'] is None or not g.get('ok'):
                    dis.append(('enclosure', g, '%s.%s(%r): implementation returned %r, not within %r of the generated model'
                                % (g['shape'], g['method'], g['ar'], g['y'], g.get('tol'))))
            ctx.notes['enclosures_proved'] = sum(1 for g in goals if g.get('ok'))
            ctx.notes['enclosures_total'] = len(goals)
            ok_goals = [g for g in goals if g.get('ok')]
            if ok_goals:
                ctx.sample({'enclosure_goal': ok_goals[len(ok_goals) // 2]['goal']}, limit=8)
        except Exception as e:
            dis.append(('enclosure-crash', None, 'enclosures could not be evaluated: %s' % e))
        try:
            for c, d in run_traces(ctx, quick):
                dis.append(('bisection_trace', c, d))
        except Exception as e:
            dis.append(('trace-crash', None, 'bisection traces could not be evaluated: %s' % e))
    ctx.notes['disagreements'] = len(dis)
    ctx.notes['oracle_hits'] = len(hits)
    broken = (not tie_ok) or failed or dis or ident
    if broken and not hits:
        more, _ = search(ctx, quick, budget=3.0)
        hits += more
    report_hits(ctx, hits)
    if not hits:
        if not tie_ok:
            ctx.violation('translator', {'site': 'harness/c15_translate.py', 'cls': 'unsupported source'},
                          {'broken': {'tie': 'translator', 'error': info, 'files': [SRC_REL]}},
                          'tie broken: the source is outside the translated subset (%s); the empirical search found no failing input' % info, no_input=True)
        else:
            report_proof_failures(ctx, failed)
    elif failed or not tie_ok:
        ctx.notes['unchecked_theorems'] = failed
    # a disagreement between generated model and implementation is reported whatever else was found
    seen = set()
    for kind, c, d in dis:
        if kind in seen:
            continue
        seen.add(kind)
        if kind == 'enclosure':
            ctx.violation('correspondence', {'site': site_of(c['shape'], c['method']), 'cls': 'enclosure'},
                          {'kind': 'input', 'input': {'kind': 'enclosure', 'shape': c['shape'], 'method': c['method'], 'ar': float(c['ar']).hex()},
                           'observed': d, 'disagreements': sum(1 for x in dis if x[0] == kind),
                           'broken': {'correspondence': 'generated text (interval enclosure) vs implementation'}},
                          'generated model and implementation disagree (%d goals), e.g. %s' % (sum(1 for x in dis if x[0] == kind), d))
        elif kind == 'bisection_trace':
            ctx.violation('correspondence', {'site': 'ShapeFactors.ShapeFactor._findRcrit', 'cls': 'bisection trace'},
                          {'kind': 'input', 'input': dict(c, kind='trace'), 'observed': d,
                           'broken': {'correspondence': 'generated bisection on binary64 vs implementation'}},
                          'bisection model and implementation disagree: %s' % d)
        else:
            ctx.violation('correspondence', {'site': 'harness/c15.py', 'cls': kind}, {'broken': {'correspondence': d}}, d, no_input=True)
    for pr in ident:
        ctx.violation('identity', {'site': SRC_REL, 'cls': 'dispatch'}, {'broken': {'identity': pr}}, pr, no_input=True)
    ctx.assumptions += [
        'the closed-form spheroid areas are proved equal to the surface-of-revolution integral (coq/C15/Geometry.v); the closed-form spheroid capacitances are proved equal to the classical integral formula C = 2 / int_0^oo dt/((a^2+t) sqrt(c^2+t)) for the ellipsoid with semi-axes a, a, c (coq/C15/Capacitance.v); that formula itself (solution of Laplace\'s equation in ellipsoidal coordinates) is textbook mathematics and is not derived; the search oracle evaluates both integrals by quadrature on every run',
        'np.cbrt x is modelled as Rpower x (1/3), x ** (p/q) as Rpower x (p/q): valid for positive arguments; every theorem carries the guard (aspect ratio >= 1 or > 0) that makes the arguments positive',
        'the translator reads decimal literals as the exact decimals written (0.1, 0.091, 1.736), binary64 stores the nearest double; formula methods are assumed to act elementwise on arrays (validated by the enclosures, scalar and array calls)',
        'argument non-mutation and scalar/array agreement are harness checks on the running code (the Gallina model is pure); the generated constant processAspectRatio_inplace_gen records which of the two accepted clamp idioms the source uses',
        'binary64 rounding of the formulas is not modelled: enclosures use relative tolerance 1e-9 plus the cancellation noise 1e-15/sqrt(ar-1) of 1 - 1/ar^2, log(1+e) - log(1-e), pi/2 - arccos(e) near aspect ratio 1; the bisection (only + - * / abs and comparisons around thermoFactor calls) IS executed bit-exactly on binary64',
        'convergence of the bisection within 100 iterations is proved for objectives that are Lipschitz on the bracket with L (Rmax - R_sphere) <= tol 2^100; for other objectives the theorem only says that a normally returned value meets the tolerance']
    ctx.cov['trusted_base'] += ['Coq 8.16.1 kernel (vm_compute for the interval enclosures and the binary64 traces; primitive floats)',
                                'translator harness/c15_translate.py (fail-closed; validated on every run by interval enclosures against the Python functions and by bit-exact bisection traces)',
                                'Coq Interval library (enclosures of the translator validation and a few numeric side conditions of the proofs)',
                                'float -> rational transport and output parser in harness/common.py',
                                'scipy.integrate.quad (independent oracle for spheroid area and ellipsoid capacitance)']


# ==========================================================================================
def replay(ctx, obj):
    c = obj.get('input') or obj
    c = {k: v for k, v in c.items() if k != 'corpus'}
    kind = c.get('kind')
    if kind in ('factors', 'continuity', 'mutation', 'rcrit', 'typed', 'sequence', 'interleave', 'sf_array', 'convention'):
        hits = evaluate_case(c)
        for h in hits:
            print('replay:', h[0], h[1], h[2], '-', h[3])
        print('replay: %d oracle violations on this input' % len(hits))
        return 1 if hits else 0
    if kind == 'enclosure':
        ok, info = regenerate(ctx)
        if not ok:
            print('replay: translator fails: %s' % info)
            return 1
        SF = impl()
        d = descr(SF, c['shape'])
        x = float.fromhex(c['ar'])
        y = np.atleast_1d(np.array(getattr(d, c['method'])(x), dtype=float))
        goals = []
        for comp, yv in enumerate(y):
            tol = 1e-9 * abs(float(yv)) + noise(max(x, 1.0)) + 1e-300
            name = '%s_%s_public_gen' % (GEN[c['shape']], c['method'])
            lhs = '%s %s' % (name, rlit(x)) if c['method'] != 'normalRadii' else 'ax%d (%s %s)' % (comp + 1, name, rlit(x))
            goals.append({'shape': c['shape'], 'method': c['method'], 'ar': x, 'y': float(yv), 'tol': tol,
                          'goal': 'Rabs (%s - %s) <= %s' % (lhs, rlit(float(yv)), rlit(tol))})
        run_enclosures(ctx, goals, tag='replay_enc')
        bad = [g for g in goals if not g.get('ok')]
        for g in bad:
            print('replay: not enclosed: %s' % g['goal'])
        print('replay: %d of %d enclosure goals fail' % (len(bad), len(goals)))
        return 1 if bad else 0
    if kind == 'trace':
        ok, info = regenerate(ctx)
        if not ok:
            print('replay: translator fails: %s' % info)
            return 1
        SF = impl()
        t = trace_case(SF, c)
        seen, tbl = set(), []
        for k, v in t['table']:
            if k not in seen:
                seen.add(k)
                tbl.append('(%s, %s)' % (flit(k), flit(v)))
        args = '[%s] %s %s %s' % ('; '.join(tbl), flit(t['Rs']), flit(t['tol']), flit(t['Rmax']))
        term = '(trace_check (findRcrit_gen F64ops) %s %s %s %d%%nat)' % (args, 'true' if t['found'] else 'false', flit(t['r']), t['iters'])
        res = ctx.coq_eval('replay_trace', TRACE_HEADER, [term])
        print('replay: implementation returned %r after %d iterations; generated model agrees: %s' % (t['r'], t['iters'], res[0]))
        return 0 if res[0] else 1
    print('replay: nothing to replay (kind=%r): %s' % (obj.get('kind'), obj.get('what')))
    return 1
