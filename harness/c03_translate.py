"""C03 - fail-closed translator: kawin/precipitation/PrecipitationParameters.py, class PrecipitationData
-> Gallina (build/C03/Gen.v).

Translated: the class attribute ATTRIBUTES (list of string literals), the field list of reset(), and the
bodies of appendToArrays / copySlice / setSlice over the store vocabulary of coq/C03/Model.v
(get, set, upd, cat, nth, fresh).  Accepted Python (anything else raises TranslateError):

  ATTRIBUTES = [ 'str', ... ]
  def reset(self, N=1):            self.n = N-1 ;  self.<field> = np.zeros(<shape>)  (one per field)
  def appendToArrays(self, newData):
      [docstring]
      for name in self.ATTRIBUTES:
          setattr(self, name, np.concatenate([getattr(o, name), ...], axis=0))
      self.n = len(self.time) - 1
  def copySlice(self, N=0):
      sliceData = PrecipitationData(self.phases, self.elements, N=1)
      for name in self.ATTRIBUTES:
          getattr(sliceData, name)[0] = getattr(self, name)[N]
      return sliceData
  def setSlice(self, sliceData, N=0):
      for name in self.ATTRIBUTES:
          getattr(self, name)[N] = getattr(sliceData, name)[0]

Loop statements are translated one by one into updates of the object they mutate (the fold accumulator [s]);
a read of the mutated object inside the loop reads the accumulator.
"""
import ast, hashlib


class TranslateError(Exception):
    pass


def _fail(node, msg):
    raise TranslateError('%s (line %s: %s)' % (msg, getattr(node, 'lineno', '?'), ast.dump(node)[:160]))


def _is_name(n, ident):
    return isinstance(n, ast.Name) and n.id == ident


def _attr_of_self(n, attr=None):
    return isinstance(n, ast.Attribute) and _is_name(n.value, 'self') and (attr is None or n.attr == attr)


def _strip_doc(body):
    if body and isinstance(body[0], ast.Expr) and isinstance(body[0].value, ast.Constant) and isinstance(body[0].value.value, str):
        return body[1:]
    return body


def _index(n, params):
    """subscript index: non-negative int literal or an int parameter"""
    if isinstance(n, ast.Constant) and isinstance(n.value, int) and not isinstance(n.value, bool) and n.value >= 0:
        return '%d' % n.value
    if isinstance(n, ast.Name) and n.id in params:
        return n.id
    _fail(n, 'unsupported index')


class LoopCtx:
    def __init__(self, loopvar, mutated, readable, params):
        self.loopvar, self.mutated, self.readable, self.params = loopvar, mutated, readable, params

    def obj(self, n):
        """Coq name of the store an object expression denotes when READ inside the loop"""
        if not isinstance(n, ast.Name):
            _fail(n, 'unsupported object expression')
        if n.id == self.mutated:
            return 's'
        if n.id in self.readable:
            return n.id
        _fail(n, 'unknown object')

    def getattr_call(self, n):
        if not (isinstance(n, ast.Call) and _is_name(n.func, 'getattr') and len(n.args) == 2 and not n.keywords
                and _is_name(n.args[1], self.loopvar)):
            _fail(n, 'expected getattr(obj, %s)' % self.loopvar)
        return self.obj(n.args[0])

    def hist_expr(self, n):
        """expression denoting a whole history (list of rows)"""
        if isinstance(n, ast.Call) and isinstance(n.func, ast.Attribute) and _is_name(n.func.value, 'np') and n.func.attr == 'concatenate':
            if len(n.args) != 1 or not isinstance(n.args[0], (ast.List, ast.Tuple)):
                _fail(n, 'np.concatenate needs one list argument')
            kws = {k.arg: k.value for k in n.keywords}
            if set(kws) - {'axis'} or ('axis' in kws and not (isinstance(kws['axis'], ast.Constant) and kws['axis'].value == 0)):
                _fail(n, 'np.concatenate: only axis=0')
            return 'cat [' + '; '.join(self.hist_expr(e) for e in n.args[0].elts) + ']'
        return 'get %s name' % self.getattr_call(n)

    def row_expr(self, n):
        """expression denoting one row: getattr(o, name)[i]"""
        if isinstance(n, ast.Subscript):
            return 'nth %s (get %s name) z' % (_index(n.slice, self.params), self.getattr_call(n.value))
        _fail(n, 'expected getattr(obj, name)[index]')

    def stmt(self, st):
        # setattr(mutated, name, hist)
        if isinstance(st, ast.Expr) and isinstance(st.value, ast.Call) and _is_name(st.value.func, 'setattr'):
            c = st.value
            if len(c.args) != 3 or c.keywords or not _is_name(c.args[0], self.mutated) or not _is_name(c.args[1], self.loopvar):
                _fail(st, 'expected setattr(%s, %s, ...)' % (self.mutated, self.loopvar))
            return 'set s name (%s)' % self.hist_expr(c.args[2])
        # getattr(mutated, name)[i] = row
        if isinstance(st, ast.Assign) and len(st.targets) == 1 and isinstance(st.targets[0], ast.Subscript):
            tg = st.targets[0]
            if not (isinstance(tg.value, ast.Call) and _is_name(tg.value.func, 'getattr') and len(tg.value.args) == 2
                    and _is_name(tg.value.args[0], self.mutated) and _is_name(tg.value.args[1], self.loopvar)):
                _fail(st, 'expected getattr(%s, %s)[i] = ...' % (self.mutated, self.loopvar))
            return 'set s name (upd (get s name) %s (%s))' % (_index(tg.slice, self.params), self.row_expr(st.value))
        _fail(st, 'unsupported statement in the attribute loop')


def _loop(st, mutated, readable, params):
    if not (isinstance(st, ast.For) and isinstance(st.target, ast.Name) and _attr_of_self(st.iter, 'ATTRIBUTES') and not st.orelse):
        _fail(st, 'expected: for name in self.ATTRIBUTES')
    ctx = LoopCtx(st.target.id, mutated, readable, params)
    if not st.body:
        _fail(st, 'empty loop')
    steps = [ctx.stmt(b) for b in st.body]
    body = 's'
    # sequential statements: each one updates the accumulator
    for s_ in steps:
        body = '(let s := %s in %s)' % (body, s_) if body != 's' else s_
    return '(fun s name => %s)' % body.replace('name', 'name')


def _params(fn, expected):
    names = [a.arg for a in fn.args.args]
    if names != expected or fn.args.vararg or fn.args.kwarg or fn.args.kwonlyargs:
        raise TranslateError('%s: parameters %r, expected %r' % (fn.name, names, expected))


def translate(src):
    """returns (gallina text, info dict)"""
    tree = ast.parse(src)
    cls = [n for n in tree.body if isinstance(n, ast.ClassDef) and n.name == 'PrecipitationData']
    if len(cls) != 1:
        raise TranslateError('class PrecipitationData not found exactly once')
    cls = cls[0]
    attrs = None
    fns = {}
    for n in cls.body:
        if isinstance(n, ast.Assign) and len(n.targets) == 1 and _is_name(n.targets[0], 'ATTRIBUTES'):
            if not isinstance(n.value, ast.List) or not all(isinstance(e, ast.Constant) and isinstance(e.value, str) for e in n.value.elts):
                _fail(n, 'ATTRIBUTES must be a list of string literals')
            attrs = [e.value for e in n.value.elts]
        elif isinstance(n, ast.FunctionDef):
            if n.name in fns:
                raise TranslateError('method %s defined twice' % n.name)
            fns[n.name] = n
    if attrs is None:
        raise TranslateError('ATTRIBUTES not found')
    for a in attrs:
        if not a.isidentifier():
            raise TranslateError('attribute name %r is not an identifier' % a)
    for need in ('reset', 'appendToArrays', 'copySlice', 'setSlice', '__init__'):
        if need not in fns:
            raise TranslateError('method %s not found' % need)

    # __init__ must call reset(N) (so that a new object has the fields of reset)
    init = fns['__init__']
    if not any(isinstance(s, ast.Expr) and isinstance(s.value, ast.Call) and _attr_of_self(s.value.func, 'reset') for s in init.body):
        raise TranslateError('__init__ does not call self.reset')

    # reset: field list
    rs = fns['reset']
    _params(rs, ['self', 'N'])
    fields = []
    for st in _strip_doc(rs.body):
        if not (isinstance(st, ast.Assign) and len(st.targets) == 1 and _attr_of_self(st.targets[0])):
            _fail(st, 'reset: expected self.<field> = ...')
        f = st.targets[0].attr
        if f == 'n':
            v = st.value
            if not (isinstance(v, ast.BinOp) and isinstance(v.op, ast.Sub) and _is_name(v.left, 'N') and isinstance(v.right, ast.Constant) and v.right.value == 1):
                _fail(st, 'reset: expected self.n = N-1')
            continue
        v = st.value
        if not (isinstance(v, ast.Call) and isinstance(v.func, ast.Attribute) and _is_name(v.func.value, 'np') and v.func.attr == 'zeros' and len(v.args) == 1 and not v.keywords):
            _fail(st, 'reset: expected np.zeros(shape)')
        shp = v.args[0]
        first = shp.elts[0] if isinstance(shp, ast.Tuple) else shp
        if not _is_name(first, 'N'):
            _fail(st, 'reset: first axis of %s is not N' % f)
        if f in fields:
            raise TranslateError('reset assigns %s twice' % f)
        fields.append(f)

    # appendToArrays
    ap = fns['appendToArrays']
    _params(ap, ['self', 'newData'])
    body = _strip_doc(ap.body)
    if len(body) != 2:
        raise TranslateError('appendToArrays: expected one loop and the counter update, found %d statements' % len(body))
    ap_loop = _loop(body[0], 'self', ['newData'], [])
    st = body[1]
    okc = (isinstance(st, ast.Assign) and len(st.targets) == 1 and _attr_of_self(st.targets[0], 'n') and isinstance(st.value, ast.BinOp)
           and isinstance(st.value.op, ast.Sub) and isinstance(st.value.right, ast.Constant) and st.value.right.value == 1
           and isinstance(st.value.left, ast.Call) and _is_name(st.value.left.func, 'len') and len(st.value.left.args) == 1
           and _attr_of_self(st.value.left.args[0]))
    if not okc:
        _fail(st, 'appendToArrays: expected self.n = len(self.<attr>) - 1')
    counter_attr = st.value.left.args[0].attr

    # copySlice
    cp = fns['copySlice']
    _params(cp, ['self', 'N'])
    body = _strip_doc(cp.body)
    if len(body) != 3:
        raise TranslateError('copySlice: expected 3 statements, found %d' % len(body))
    st = body[0]
    okn = (isinstance(st, ast.Assign) and len(st.targets) == 1 and isinstance(st.targets[0], ast.Name) and isinstance(st.value, ast.Call)
           and _is_name(st.value.func, 'PrecipitationData') and len(st.value.args) == 2 and _attr_of_self(st.value.args[0], 'phases')
           and _attr_of_self(st.value.args[1], 'elements') and len(st.value.keywords) == 1 and st.value.keywords[0].arg == 'N'
           and isinstance(st.value.keywords[0].value, ast.Constant) and st.value.keywords[0].value.value == 1)
    if not okn:
        _fail(st, 'copySlice: expected sliceData = PrecipitationData(self.phases, self.elements, N=1)')
    slice_name = st.targets[0].id
    cp_loop = _loop(body[1], slice_name, ['self'], ['N'])
    if not (isinstance(body[2], ast.Return) and _is_name(body[2].value, slice_name)):
        _fail(body[2], 'copySlice: expected return %s' % slice_name)

    # setSlice
    ss = fns['setSlice']
    _params(ss, ['self', 'sliceData', 'N'])
    body = _strip_doc(ss.body)
    if len(body) != 1:
        raise TranslateError('setSlice: expected one loop, found %d statements' % len(body))
    ss_loop = _loop(body[0], 'self', ['sliceData'], ['N'])

    def strlist(l):
        return '[' + '; '.join('"%s"' % x for x in l) + ']%string'
    text = '''(* GENERATED by harness/c03_translate.py from kawin/precipitation/PrecipitationParameters.py - do not edit *)
From Coq Require Import String.
From Coq Require Import List Arith.
Require Import Kawin.C03.Model.
Import ListNotations.

Definition ATTRIBUTES : list string := %s.
Definition RESET_FIELDS : list string := %s.

Section Gen.
Variable A : Type.
Variable z : A.
Definition appendToArrays_gen (self newData : store A) : store A :=
  fold_left %s ATTRIBUTES self.
Definition counter_gen (self : store A) : nat := length (get self "%s"%%string) - 1.
Definition copySlice_gen (self : store A) (N : nat) : store A :=
  fold_left %s ATTRIBUTES (fresh A RESET_FIELDS z).
Definition setSlice_gen (self sliceData : store A) (N : nat) : store A :=
  fold_left %s ATTRIBUTES self.
End Gen.
''' % (strlist(attrs), strlist(fields), ap_loop, counter_attr, cp_loop, ss_loop)
    info = {'attributes': attrs, 'reset_fields': fields, 'counter_attr': counter_attr,
            'sha1': hashlib.sha1(text.encode()).hexdigest()}
    return text, info


if __name__ == '__main__':
    import sys
    t, i = translate(open(sys.argv[1]).read())
    print(t)
