"""C11 - results are equivariant under reordering of elements and of phases.

proof:          coq/C11/Properties.v.  Part A: the argsort / unsort index algebra (axiom-free);
                Part B: permutation invariance of every step-size rule of `Constraints`, of
                `KWNEuler.getDt` and of the nucleation-site competition, on the real instance.
tie, Part A:    (1) translator - the sortIndices/unsortIndices idioms are extracted from the current
                source by a fail-closed `ast` walk (harness/c11_translate.py), regenerated as Gallina
                and the bridge file coq/C11/run/Bridge.v is re-proved against the generated text;
                (2) numpy argsort / fancy indexing vs the model on random name lists;
                (3) the real wrapper methods executed on a labelled synthetic backend with 3-6
                elements, compared with the model and with the oracle "value follows the name".
tie, Part B:    Constraints.computeDTfrom*, PrecipitateModel.getDt and _calcNucleationSites are run on
                generated per-phase data; the same data, shipped exactly, are evaluated by the model on
                exact rationals inside Coq; outputs compared (2^-36 relative).
search:         an oracle written from the property text: (a) every rule / getDt / nucleation sites on
                permuted per-phase inputs must give the same value; (b) multi-phase stub runs in every
                phase order must give the same time grid and per-phase histories; (c) real ternary
                databases queried in all element orders must give the same value per element name.
"""
import os, json, itertools, io, contextlib, time, types, copy, hashlib, re, math
from fractions import Fraction
import numpy as np
from common import *

LEVEL = 'proof'
SITE_DT = 'PrecipitationParameters.Constraints'
RT = '(1 # 68719476736)'          # 2^-36
RT_F = 2.0 ** -36

HEADER = '''From Coq Require Import QArith List ZArith.
Require Import Kawin.Common.Ops Kawin.Common.Vec Kawin.Common.Out Kawin.C07.Model Kawin.C11.Model Kawin.C11.Corr.
Import ListNotations.
Open Scope Q_scope.
'''

RULES = ['dtPSD', 'dtNucleation', 'dtTemperature', 'dtRcrit', 'dtVolume', 'getDt']


class TieBroken(Exception):
    """the harness cannot reach / observe what it needs (renamed private name, changed signature): not a failing input"""


PLUMBING = (AttributeError, TypeError, NameError, KeyError, NotImplementedError, ImportError)


@contextlib.contextmanager
def quiet():
    with contextlib.redirect_stdout(io.StringIO()):
        with np.errstate(all='ignore'):
            yield


def hx(x):
    if isinstance(x, (list, tuple, np.ndarray)):
        return [hx(v) for v in x]
    if isinstance(x, (bool, np.bool_)):
        return bool(x)
    if isinstance(x, (int, np.integer)):
        return int(x)
    if isinstance(x, (float, np.floating)):
        return float(x).hex()
    if isinstance(x, dict):
        return {k: hx(v) for k, v in x.items()}
    return x


def unhx(x):
    if isinstance(x, list):
        return [unhx(v) for v in x]
    if isinstance(x, dict):
        return {k: unhx(v) for k, v in x.items()}
    if isinstance(x, str) and (x.startswith('0x') or x.startswith('-0x')):
        return float.fromhex(x)
    return x


# ==========================================================================================
# Part B - step-size rules
PHASE_FIELDS = ['bounds', 'size', 'psd', 'growth', 'dissIdx', 'nucCurr', 'nucPrev', 'rcCurr', 'rcPrev', 'dG',
                'rnuc', 'vmBeta', 'areaF', 'volF']
CONS_DEFAULT = dict(checkPSD=True, checkNucleation=True, checkTemperature=True, checkRcrit=True, checkVolumePre=True,
                    maxNonIsothermalDT=1.0, maxRcritChange=0.01, maxNucleationRateChange=0.5, minNucleationRate=1e-5,
                    maxVolumeChange=0.001, dtScale=1e-3)


def gen_phase(rng, exact, focus):
    nb = int(rng.integers(1, 9))
    if exact:
        b0 = float(rng.integers(1, 4))
        w = float(rng.choice([0.5, 1.0, 2.0]))
        bounds = b0 + w * np.arange(nb + 1)
        size = 0.5 * (bounds[1:] + bounds[:-1])
        psd = rng.integers(0, 5, nb).astype(float)
        growth = rng.integers(-3, 4, nb + 1).astype(float) * float(rng.choice([0.5, 1.0, 0.25]))
        nuc_vals = [0.0, 2.0 ** -20, 1.0, 2.0, 8.0, 2.0 ** 18]
        nucCurr = float(rng.choice(nuc_vals))
        nucPrev = float(rng.choice(nuc_vals))
        rc_vals = [0.0, 1.0, 1.5, 2.0, 4.0]
        rcPrev = float(rng.choice(rc_vals))
        rcCurr = float(rng.choice(rc_vals))
        dG = float(rng.choice([-1.0, 0.0, 1.0, 3.0]))
        rnuc = float(rng.choice([0.0, 0.5, 1.0, 2.0]))
        vmBeta = float(rng.choice([1.0, 2.0, 4.0]))
        areaF = float(rng.choice([1.0, 2.0, 8.0]))
        volF = float(rng.choice([0.5, 1.0, 4.0]))
    else:
        b0 = float(10 ** rng.uniform(-10, -9))
        b1 = b0 * float(10 ** rng.uniform(0.5, 2))
        bounds = np.linspace(b0, b1, nb + 1)
        size = 0.5 * (bounds[1:] + bounds[:-1])
        psd = 10 ** rng.uniform(5, 25, nb)
        psd[rng.random(nb) < 0.3] = 0
        growth = rng.normal(0, 1, nb + 1) * float(10 ** rng.uniform(-12, -8))
        if rng.random() < 0.25:
            growth = -np.abs(growth)          # dissolving everywhere: dVi clipped to zero
        cat = rng.choice(['zero', 'low', 'same', 'diff', 'diff', 'huge'])
        if cat == 'zero':
            nucCurr = nucPrev = 0.0
        elif cat == 'low':
            nucCurr, nucPrev = float(10 ** rng.uniform(-9, -5.5)), float(10 ** rng.uniform(-9, -5.5))
        elif cat == 'same':
            nucCurr = nucPrev = float(10 ** rng.uniform(0, 20))
        elif cat == 'huge':
            nucCurr, nucPrev = float(10 ** rng.uniform(6, 25)), float(10 ** rng.uniform(6, 25))
        else:
            nucPrev = float(10 ** rng.uniform(0, 20))
            nucCurr = nucPrev * float(10 ** rng.uniform(-2, 2))
        cat = rng.choice(['idle', 'grow', 'grow', 'shrinkdg', 'new'])
        if cat == 'idle':
            rcPrev = rcCurr = 0.0
            dG = float(-10 ** rng.uniform(0, 4))
        elif cat == 'new':
            rcPrev, rcCurr = 0.0, float(10 ** rng.uniform(-10, -8))
            dG = float(10 ** rng.uniform(0, 4))
        else:
            rcPrev = float(10 ** rng.uniform(-10, -8))
            rcCurr = rcPrev * float(1 + rng.normal(0, 0.05)) if rng.random() < 0.85 else rcPrev
            dG = float(10 ** rng.uniform(0, 4)) * (1 if cat == 'grow' else -1)
        rnuc = float(rng.choice([0.0, 10 ** rng.uniform(-10, -8.5)]))
        vmBeta = float(10 ** rng.uniform(-5.5, -4.5))
        areaF = float(rng.choice([4 * np.pi, rng.uniform(1, 12)]))
        volF = float(rng.choice([4 * np.pi / 3, rng.uniform(0.2, 4)]))
    return dict(bounds=[float(x) for x in bounds], size=[float(x) for x in size], psd=[float(x) for x in psd],
                growth=[float(x) for x in growth], dissIdx=int(rng.integers(0, nb + 1)), nucCurr=nucCurr, nucPrev=nucPrev,
                rcCurr=rcCurr, rcPrev=rcPrev, dG=dG, rnuc=rnuc, vmBeta=vmBeta, areaF=areaF, volF=volF)


def gen_dt_case(rng, idx):
    exact = bool(rng.random() < 0.3)
    k = int(rng.choice([1, 2, 3, 4], p=[0.1, 0.45, 0.4, 0.05]))
    focus = str(rng.choice(['psd', 'nuc', 'temp', 'rcrit', 'vol', 'any']))
    cons = dict(CONS_DEFAULT)
    for f in ('checkPSD', 'checkNucleation', 'checkTemperature', 'checkRcrit', 'checkVolumePre'):
        cons[f] = bool(rng.random() < 0.9)
    if exact:
        cons.update(maxNonIsothermalDT=float(rng.choice([1.0, 2.0])), maxRcritChange=float(rng.choice([0.5, 0.25, 2.0 ** -6])),
                    maxNucleationRateChange=0.5, minNucleationRate=2.0 ** -17, maxVolumeChange=float(rng.choice([2.0 ** -10, 1.0, 64.0])),
                    dtScale=2.0 ** -10)
        dtPrev = float(rng.choice([0.25, 1.0, 4.0]))
        dtMax = float(rng.choice([1.0, 16.0, 2.0 ** 20]))
        Tprev = float(rng.choice([600.0, 700.0]))
        Tcur = Tprev + float(rng.choice([0.0, 0.0, 0.5, 1.0, 4.0, -2.0]))
    else:
        if rng.random() < 0.5:
            cons['maxVolumeChange'] = float(10 ** rng.uniform(-8, 0))
        if rng.random() < 0.3:
            cons['maxRcritChange'] = float(10 ** rng.uniform(-4, 0))
        dtPrev = float(10 ** rng.uniform(-4, 3))
        dtMax = float(10 ** rng.uniform(-3, 12))
        Tprev = float(rng.uniform(400, 1200))
        Tcur = Tprev if rng.random() < 0.6 else Tprev + float(rng.normal(0, 3))
    npos = bool(rng.random() < 0.85)
    phases = [gen_phase(rng, exact, focus) for _ in range(k)]
    vmAlpha = 2.0 if exact else float(10 ** rng.uniform(-5.5, -4.5))
    return dict(kind='exact' if exact else 'physical', k=k, cons=cons, npos=npos, Tcur=Tcur, Tprev=Tprev,
                dtPrev=dtPrev if npos else 0.01, dtMax=dtMax, vmAlpha=vmAlpha, phases=phases)


def lg_nuc(p):
    """|log10(prev/curr)| exactly as the code evaluates it; 1 where the code does not evaluate it"""
    if p['nucCurr'] > 0 and p['nucPrev'] > 0 and p['nucCurr'] != p['nucPrev']:
        with np.errstate(all='ignore'):
            v = float(np.abs(np.log10(p['nucPrev'] / p['nucCurr'])))
        return v
    return 1.0


def usable_dt_case(c):
    """exclude inputs on which the code divides by a rounded-to-zero logarithm (inf step): not a D1 case"""
    for p in c['phases']:
        v = lg_nuc(p)
        if not np.isfinite(v) or v == 0:
            return False
    return True


def make_pbm(p):
    from kawin.precipitation.PopulationBalance import PopulationBalanceModel
    nb = len(p['psd'])
    pbm = PopulationBalanceModel(1e-10, 1e-9, max(nb, 1))
    b = np.array(p['bounds'])
    pbm.PSDbounds = b.copy()
    pbm.PSDsize = np.array(p['size'])
    pbm.PSD = np.array(p['psd'])
    pbm.bins = nb
    pbm.min, pbm.max = b[0], b[-1]
    return pbm


def impl_rules(c, order):
    """the five rules of Constraints called directly with the per-phase inputs listed in `order`"""
    from kawin.precipitation.PrecipitationParameters import Constraints
    ps = [c['phases'][i] for i in order]
    k = len(ps)
    cons = Constraints()
    for key, v in c['cons'].items():
        setattr(cons, key, v)
    n = 1 if c['npos'] else 0
    N = n + 1
    temps = np.array([c['Tprev'], c['Tcur']])[-N:]
    nucRate = np.zeros((N, k)); Rcrit = np.zeros((N, k)); dGs = np.zeros((N, k)); Rnuc = np.zeros((N, k))
    for j, p in enumerate(ps):
        nucRate[n, j] = p['nucCurr']; Rcrit[n, j] = p['rcCurr']; dGs[n, j] = p['dG']; Rnuc[n, j] = p['rnuc']
        if n > 0:
            nucRate[n - 1, j] = p['nucPrev']; Rcrit[n - 1, j] = p['rcPrev']
    PBMs = [make_pbm(p) for p in ps]
    growth = [np.array(p['growth']) for p in ps]
    diss = [p['dissIdx'] for p in ps]
    GB = [types.SimpleNamespace(areaFactor=p['areaF'], volumeFactor=p['volF']) for p in ps]
    VmB = [p['vmBeta'] for p in ps]
    names = np.array(['P%d' % i for i in order])
    dtPrev, dtMax = c['dtPrev'], c['dtMax']
    with np.errstate(all='ignore'):
        out = [cons.computeDTfromPSD(n, temps, PBMs, growth, diss, names, dtMax),
               cons.computeDTfromNucleationRate(n, nucRate, names, dtPrev, dtMax),
               cons.computeDTfromTemperature(n, temps, dtPrev, dtMax),
               cons.computeDTfromRcrit(n, Rcrit, dGs, names, dtPrev, dtMax),
               cons.computeDTfromVolume(n, nucRate, Rnuc, PBMs, growth, c['vmAlpha'], VmB, GB, names, dtMax)]
    return [float(x) for x in out]


class _Model:
    """PrecipitateModel shells (stub backend) reused for getDt: one per ordered tuple of phase names"""
    cache = {}

    @classmethod
    def get(cls, names):
        import stubs
        key = tuple(names)
        if key not in cls.cache:
            with quiet():
                m = stubs.make_binary_model(phases=key)
                m.setup()
            cls.cache[key] = m
        return cls.cache[key]


PNAMES = ['B1', 'B2', 'B3', 'B4']


def impl_getdt(c, order):
    """KWNEuler.getDt on a real model whose step-n state is the case's per-phase data in `order`"""
    from kawin.precipitation.PrecipitationParameters import PrecipitationData
    import stubs
    stubs.StubBinary.P.setdefault('B4', (0.3, 58000., 1.7))
    ps = [c['phases'][i] for i in order]
    k = len(ps)
    m = _Model.get([PNAMES[i] for i in order])
    for key, v in c['cons'].items():
        setattr(m.constraints, key, v)
    n = 1 if c['npos'] else 0
    pd = PrecipitationData(m.phases, m.elements, N=n + 1)
    pd.time[n] = c['dtPrev'] if n > 0 else 0.0
    pd.temperature[n] = c['Tcur']
    if n > 0:
        pd.temperature[n - 1] = c['Tprev']
    for j, p in enumerate(ps):
        pd.nucRate[n, j] = p['nucCurr']; pd.Rcrit[n, j] = p['rcCurr']; pd.drivingForce[n, j] = p['dG']; pd.Rnuc[n, j] = p['rnuc']
        if n > 0:
            pd.nucRate[n - 1, j] = p['nucPrev']; pd.Rcrit[n - 1, j] = p['rcPrev']
        m.precipitateParameters[j].volume.Vm = p['vmBeta']
    m.pData = pd
    m.PBM = [make_pbm(p) for p in ps]
    m.growth = [np.array(p['growth']) for p in ps]
    m.dissolutionIndex = np.array([p['dissIdx'] for p in ps])
    m.matrixParameters.volume.Vm = c['vmAlpha']
    m.finalTime = pd.time[n] + c['dtMax']
    dtmax_eff = float(m.finalTime - pd.time[n])
    with np.errstate(all='ignore'):
        dt = float(m.getDt(None))
    aF = [float(m.precipitateParameters[j].nucleation.areaFactor) for j in range(k)]
    vF = [float(m.precipitateParameters[j].nucleation.volumeFactor) for j in range(k)]
    return dt, dtmax_eff, aF, vF


def phase_term(p, areaF=None, volF=None):
    return '(mkPhase Qops %s %s %s %s %s %s %s %s %s %s %s %s %s %s %s)' % (
        qlist(p['bounds']), qlist(p['size']), qlist(p['psd']), qlist(p['growth']), natlit(p['dissIdx']),
        qlit(p['nucCurr']), qlit(p['nucPrev']), qlit(lg_nuc(p)), qlit(p['rcCurr']), qlit(p['rcPrev']), qlit(p['dG']),
        qlit(p['rnuc']), qlit(p['vmBeta']), qlit(p['areaF'] if areaF is None else areaF), qlit(p['volF'] if volF is None else volF))


def cons_term(cn):
    return '(mkCons Qops %s %s %s %s %s %s %s %s %s %s %s %s)' % (
        boollit(cn['checkPSD']), boollit(cn['checkNucleation']), boollit(cn['checkTemperature']), boollit(cn['checkRcrit']),
        boollit(cn['checkVolumePre']), qlit(cn['maxNonIsothermalDT']), qlit(cn['maxRcritChange']), qlit(cn['maxNucleationRateChange']),
        qlit(cn['minNucleationRate']), qlit(cn['maxVolumeChange']), qlit(cn['dtScale']), qlit(0.4))


def dt_term(c, impl6, dtMax=None, aF=None, vF=None):
    ps = '[' + '; '.join(phase_term(p, None if aF is None else aF[j], None if vF is None else vF[j])
                         for j, p in enumerate(c['phases'])) + ']'
    return 'check_dt %s %s %s %s %s %s %s %s %s %s' % (
        RT, cons_term(c['cons']), boollit(c['npos']), qlit(c['Tcur']), qlit(c['Tprev']), ps, qlit(c['vmAlpha']),
        qlit(c['dtPrev']), qlit(c['dtMax'] if dtMax is None else dtMax), qlist(impl6))


def perms_of(k, rng, limit=6):
    allp = list(itertools.permutations(range(k)))
    if len(allp) <= limit:
        return allp
    idx = rng.choice(len(allp) - 1, limit - 1, replace=False) + 1
    return [allp[0]] + [allp[i] for i in idx]


def oracle_dt(c, rng=None, perms=None):
    """property text: listing the phases in a different order changes nothing in the step the model
    takes.  Returns list of (clause, cls, message, detail)."""
    hits = []
    k = c['k']
    perms = perms or list(itertools.permutations(range(k)))
    base = impl_rules(c, perms[0])
    for pm in perms[1:]:
        r = impl_rules(c, pm)
        for name, a, b in zip(RULES[:5], base, r):
            if a != b and not (np.isnan(a) and np.isnan(b)):
                hits.append(('dt_perm_invariant', name, 'Constraints.%s gives %r for phase order %s and %r for order %s'
                             % ({'dtPSD': 'computeDTfromPSD', 'dtNucleation': 'computeDTfromNucleationRate', 'dtTemperature': 'computeDTfromTemperature',
                                 'dtRcrit': 'computeDTfromRcrit', 'dtVolume': 'computeDTfromVolume'}[name], a, list(perms[0]), b, list(pm)),
                             {'orders': [list(perms[0]), list(pm)], 'values': [a, b]}))
    if k <= len(PNAMES):
        g0 = impl_getdt(c, perms[0])[0]
        for pm in perms[1:]:
            g = impl_getdt(c, pm)[0]
            if g != g0 and not (np.isnan(g) and np.isnan(g0)):
                hits.append(('dt_perm_invariant', 'getDt', 'PrecipitateModel.getDt proposes %r for phase order %s and %r for order %s'
                             % (g0, list(perms[0]), g, list(pm)), {'orders': [list(perms[0]), list(pm)], 'values': [g0, g]}))
    return hits


def shrink_dt(c, pred):
    """drop phases, then size classes, while the predicate keeps failing"""
    cur = c
    changed = True
    while changed:
        changed = False
        if cur['k'] > 2:
            for j in range(cur['k']):
                d = copy.deepcopy(cur)
                del d['phases'][j]
                d['k'] -= 1
                try:
                    if pred(d):
                        cur, changed = d, True
                        break
                except Exception:
                    pass
        for j in range(cur['k']):
            p = cur['phases'][j]
            if len(p['psd']) > 1:
                d = copy.deepcopy(cur)
                q = d['phases'][j]
                q['bounds'] = q['bounds'][:-1]; q['size'] = q['size'][:-1]; q['psd'] = q['psd'][:-1]; q['growth'] = q['growth'][:-1]
                q['dissIdx'] = min(q['dissIdx'], len(q['psd']))
                try:
                    if pred(d):
                        cur, changed = d, True
                except Exception:
                    pass
    return cur


def corpus_cases(kind):
    out = []
    p = os.path.join(VERIF, 'corpus', 'C11')
    if os.path.isdir(p):
        for f in sorted(os.listdir(p)):
            if f.endswith('.json'):
                o = json.load(open(os.path.join(p, f)))
                if o.get('kind') == kind:
                    c = unhx(o['input'])
                    c['corpus'] = f
                    out.append(c)
    return out


def explore_dt(ctx, cases):
    terms, meta, hits = [], [], []
    for ci, c in enumerate(cases):
        k = c['k']
        perms = perms_of(k, ctx.rng)
        hs = oracle_dt(c, perms=perms)
        for h in hs:
            hits.append((c,) + h)
        r5 = impl_rules(c, tuple(range(k)))
        finite = all(np.isfinite(r5))
        # rule-level correspondence (arbitrary per-phase numbers); the model's getDt is compared with
        # the minimum / propose combination of the implementation's own rule values
        dtall = [c['dtMax']] + r5
        comb = float(np.amin(dtall))
        if comb == c['dtMax']:
            comb = (1 + c['cons']['dtScale']) * c['dtPrev']
        binding = 'none' if float(np.amin(dtall)) == c['dtMax'] else RULES[int(np.argmin(r5))]
        ctx.hist('binding_rule', binding)
        ctx.hist('phases', k)
        ctx.hist('dt_kind', c['kind'] + ('/n=0' if not c['npos'] else ''))
        ctx.count(hx(c), binding != 'none' and k > 1)
        if finite and np.isfinite(comb):
            terms.append(dt_term(c, r5 + [comb]))
            meta.append((ci, 'rules', r5 + [comb]))
        # getDt on the real model (Vm, area and volume factors of the model objects)
        if k <= len(PNAMES) and (not ctx.quick or ci % 2 == 0 or c.get("corpus")):
            g, dtm, aF, vF = impl_getdt(c, tuple(range(k)))
            if np.isfinite(g):
                c2 = copy.deepcopy(c)
                r5b = None
                # rule values for the model-object factors, from the same Constraints code
                for j, p in enumerate(c2['phases']):
                    p['areaF'], p['volF'] = aF[j], vF[j]
                c2['dtMax'] = dtm
                r5b = impl_rules(c2, tuple(range(k)))
                if all(np.isfinite(r5b)):
                    terms.append(dt_term(c2, r5b + [g]))
                    meta.append((ci, 'getDt', r5b + [g]))
    res = ctx.coq_eval('dt', HEADER, terms, shard=14) if terms else []
    dis = []
    for (ci, what, impl6), r in zip(meta, res):
        tie, verdict = r
        if tie:
            ctx.notes['indeterminate_near_tie'] = ctx.notes.get('indeterminate_near_tie', 0) + 1
            continue
        if verdict is not None:
            kk, ap = verdict[1]
            dis.append((cases[ci], '%s (%s level): implementation %r, model %r' % (RULES[kk], what, impl6[kk], float(tofrac(ap)))))
    return dis, hits


def report_dt_hits(ctx, hits):
    seen = set()
    for (c, clause, cls, msg, detail) in hits:
        if (clause, cls) in seen:
            continue
        seen.add((clause, cls))
        small = shrink_dt(c, lambda d: any(h[0] == clause and h[1] == cls for h in oracle_dt(d)))
        hs = [h for h in oracle_dt(small) if h[0] == clause and h[1] == cls]
        msg2 = hs[0][2] if hs else msg
        ctx.violation(clause, {'site': SITE_DT, 'cls': cls},
                      {'kind': 'dt', 'input': hx(small), 'observed': msg2, 'detail': hs[0][3] if hs else detail,
                       'oracle': 'the same per-phase inputs listed in a different order must give the same step (harness/c11.py: oracle_dt)'},
                      msg2)


# ==========================================================================================
# Part A - element order
def codepoints(s):
    return '[' + '; '.join('%d%%Z' % ord(ch) for ch in s) + ']'


def strlist(names):
    return '[' + '; '.join(codepoints(n) for n in names) + ']'


ALPH = 'ABCDEFGHIJKLMNOPQRSTUVWXYZ'


def gen_names(rng, n, style):
    """n distinct element-like names (style 'element'), or adversarial ones: shared prefixes, mixed
    case, digits, non-ASCII"""
    out = []
    pool = ALPH if style == 'element' else ALPH + 'abcxyz019_' + 'ÅéΩ中'
    while len(out) < n:
        L = int(rng.integers(1, 3 if style == 'element' else 5))
        if style == 'prefix' and out and rng.random() < 0.6:
            base = out[int(rng.integers(0, len(out)))]
            s = base + ''.join(pool[int(i)] for i in rng.integers(0, len(pool), int(rng.integers(1, 3))))
            if rng.random() < 0.3 and len(base) > 1:
                s = base[:-1]
        else:
            s = ''.join(pool[int(i)] for i in rng.integers(0, len(pool), L))
        if s and s not in out and s != 'VA':
            out.append(s)
    return out


def explore_argsort(ctx, ncases):
    """numpy argsort and the fancy-indexing idioms on labelled vectors vs the model (inside Coq) and
    vs the oracle 'a value stays attached to its name'"""
    rng = ctx.rng
    terms, metas, hits = [], [], []
    for i in range(ncases):
        style = str(rng.choice(['element', 'prefix', 'wild']))
        n = int(rng.integers(0, 8))
        names = gen_names(rng, n, style)
        dup = False
        if n >= 2 and rng.random() < 0.1:
            names[int(rng.integers(0, n))] = names[int(rng.integers(0, n))]
            dup = len(set(names)) < n
        arr = np.array(names) if names else np.array([], dtype='<U1')
        s = np.argsort(arr, kind='stable') if dup else np.argsort(names) if names else np.array([], dtype=int)
        u = np.argsort(s)
        terms.append('check_argsort %s %s %s' % (strlist(names), '[' + '; '.join(natlit(x) for x in s) + ']', '[' + '; '.join(natlit(x) for x in u) + ']'))
        metas.append(('argsort', names, [int(x) for x in s], [int(x) for x in u]))
        ctx.count({'argsort': names}, n >= 3 and sorted(names) != names and [names[j] for j in s] != names[::-1])
        ctx.hist('names', '%s/%s' % (style, 'dup' if dup else 'distinct'))
        # oracle: the value of an element is found at its name's alphabetical rank
        if not dup and n >= 1:
            ranks = {e: r for r, e in enumerate(sorted(names))}
            if [int(x) for x in u] != [ranks[e] for e in names]:
                hits.append(('argsort', names, 'np.argsort(np.argsort(names)) = %r is not the rank of each name %r' % (list(u), [ranks[e] for e in names])))
            # numpy idioms on labelled data
            full = np.arange(n)
            sol = names[1:]
            ss = np.argsort(sol) if sol else np.array([], dtype=int)
            us = np.argsort(ss)
            ns = len(sol)
            M = np.arange(ns * ns).reshape(ns, ns) if ns else np.zeros((0, 0), dtype=int)
            refIndex = sorted(names).index(names[0])
            M2 = M[us, :][:, us] if ns else M
            impl = (list(full[u]), list(full[u[1:]]), list(full[u][1:]), list(np.delete(full, refIndex)[us]) if ns else [],
                    [list(r) for r in M2], list(np.arange(ns)[ss]) if ns else [])
            terms.append('check_wrappers %s' % strlist(names))
            metas.append(('wrappers', names, impl))
    res = ctx.coq_eval('argsort', HEADER, terms, shard=60)
    dis = []
    for meta, r in zip(metas, res):
        if meta[0] == 'argsort':
            ok_s, ok_u, ms, mu = r
            if not (ok_s and ok_u):
                dis.append((meta[1], 'np.argsort(%r) = %r / unsort %r, model sortIdx %r / unsortIdx %r' % (meta[1], meta[2], meta[3], ms, mu)))
        else:
            names, impl = meta[1], meta[2]
            model = tuple([int(x) for x in v] if not (v and isinstance(v[0], list)) else [[int(y) for y in row] for row in v] for v in r)
            impl_n = tuple([int(x) for x in v] if not (v and isinstance(v[0], list)) else [[int(y) for y in row] for row in v] for v in impl)
            if model != impl_n:
                dis.append((names, 'numpy index idioms on labelled data %r differ from the model %r for names %r' % (impl_n, model, names)))
    return dis, hits


# ---- the real wrapper methods on a labelled synthetic backend -------------------------------------
def label(e):
    """a distinct, exactly representable value per element name"""
    v = 0
    for ch in e:
        v = v * 131 + ord(ch)
    return float(v % 99991 + 7)


class FakeCS:
    def __init__(self, phase_name, names_sorted, X, NP=1.0):
        self.X = np.array(X, dtype=np.float64)
        self.NP = NP
        self.phase_record = types.SimpleNamespace(phase_name=phase_name, nonvacant_elements=list(names_sorted))


def fake_sites(elements):
    """elements = [ref, solutes..., 'VA'].  Runs the real wrapper code of kawin with every pycalphad-facing
    callee replaced by a labelled stand-in that answers in alphabetical order.  Returns a list of
    (site, observed (by position), expected (by name))."""
    import kawin.thermo.Thermodynamics as TH
    import kawin.thermo.MultiTherm as MT
    import kawin.diffusion.DiffusionParameters as DP
    names = list(elements[:-1])
    ref, sol = names[0], names[1:]
    sn = sorted(names)
    ssol = sorted(sol)
    n = len(names)
    B = label
    xM = {e: (i + 1) / (2.0 * n * (n + 1)) for i, e in enumerate(sn)}          # matrix composition by name
    xP = {e: 0.25 + (i + 1) / (8.0 * n) for i, e in enumerate(sn)}             # precipitate composition by name
    MUm = {e: -1000.0 * (i + 1) for i, e in enumerate(sn)}
    MUe = {e: -1500.0 - 10.0 * i for i, e in enumerate(sn)}
    G = lambda a, b: B(a) * 1000.0 + B(b)
    D1 = {e: 2.0 ** (-(3 + i)) for i, e in enumerate(sn)}

    class Base:
        def _setup(self, els=None):
            self.elements = list(els if els is not None else elements)
            self.numElements = len(elements) - 1
            self.phases = ['MATRIX', 'PREC']
            self.mobCallables = {'MATRIX': object(), 'PREC': None}
            self.diffCallables = {'MATRIX': None, 'PREC': None}
            self._diffusivity_cache = {}
            self.mobility_correction = None
            self.vacancyPoorInterstitialSublattice = {}
            self._parameters = {}
            self._matrix_cs = None
            self._compset_cache_df = {}
            self._points_cache = {}
            self._curvature_outputs = {}

        def getLocalEq(self, x, T, gExtra=0, precPhase=None, composition_sets=None):
            res = types.SimpleNamespace(chemical_potentials=np.array([MUm[e] for e in sn]))
            return res, [FakeCS('MATRIX', sn, [xM[e] for e in sn])]

        def _getPrecCompositionSetSamplingDF(self, x, T, mu, precPhase, conds):
            return 123.0, FakeCS('PREC', sn, [xP[e] for e in sn])

        def _getCompositionSetsForDF(self, x, T, precPhase):
            return (np.array([MUe[e] for e in sn]), FakeCS('MATRIX', sn, [xM[e] for e in sn]), FakeCS('PREC', sn, [xP[e] for e in sn]))

        def _resetDrivingForceCache(self, phase, removeCache):
            pass

        def getEq(self, x, T, gExtra=0, precPhase=None):
            css = [FakeCS('MATRIX', sn, [xM[e] for e in sn], NP=0.75), FakeCS('PREC', sn, [xP[e] for e in sn], NP=0.25)]
            return types.SimpleNamespace(eq=types.SimpleNamespace(MU=np.array([[[[MUe[e] for e in sn]]]])),
                                         get_composition_sets=lambda: css)

    class FGT(Base, TH.GeneralThermodynamics):
        def __init__(self):
            self._setup()

    class FMT(Base, MT.MulticomponentThermodynamics):
        def __init__(self, els=None):
            self._setup(els)

    ns = len(sol)
    Dalpha = np.array([[G(a, b) for b in ssol] for a in ssol])
    saved = {}

    def patch(mod, name, fn):
        saved[(mod, name)] = getattr(mod, name)
        setattr(mod, name, fn)

    out = []
    try:
        patch(TH, 'inverseMobility', lambda *a, **k: (Dalpha.copy(), None, None))
        patch(TH, 'tracer_diffusivity', lambda *a, **k: np.array([B(e) for e in sn]))
        patch(TH, 'dMudX', lambda mu, cs, refel: Dalpha.copy())
        t = FGT()
        xuser = np.array([xM[e] + 0.015625 * (i + 1) for i, e in enumerate(sol)])     # bulk composition, user order
        xbulk = dict(zip(sol, xuser))
        if ns >= 1:
            Dn = np.atleast_2d(t._interdiffusivitySingle(xuser, 900.0))
            out.append(('Thermodynamics._interdiffusivitySingle', Dn.tolist(), [[G(a, b) for b in sol] for a in sol]))
        out.append(('Thermodynamics._tracerDiffusivitySingle', list(np.atleast_1d(t._tracerDiffusivitySingle(xuser, 900.0))), [B(e) for e in names]))
        dg, bx = t._getDrivingForceSampling(xuser, 900.0, 'PREC')
        out.append(('Thermodynamics._getDrivingForceSampling', list(np.atleast_1d(bx)), [xP[e] for e in sol]))
        dg, bx = t._getDrivingForceApprox(xuser, 900.0, 'PREC')
        out.append(('Thermodynamics._getDrivingForceApprox', list(np.atleast_1d(bx)), [xP[e] for e in sol]))
        exp_dg = sum(xP[e] * MUm[e] for e in sn) - sum(xP[e] * MUe[e] for e in sn)
        out.append(('Thermodynamics._getDrivingForceApprox:dg', [float(dg)], [exp_dg]))
        if ns >= 1:
            dg, bx = t._getDrivingForceCurvature(xuser.copy(), 900.0, 'PREC')
            out.append(('Thermodynamics._getDrivingForceCurvature', list(np.atleast_1d(bx)), [xP[e] for e in sol]))
            exp_dg = sum((xbulk[a] - xM[a]) * G(a, b) * (xP[b] - xM[b]) for a in sol for b in sol)
            out.append(('Thermodynamics._getDrivingForceCurvature:dg', [float(dg)], [exp_dg]))
        # MultiTherm
        Ddiag = np.diag([D1[e] for e in ssol]) if ns else np.zeros((0, 0))
        patch(MT, 'inverseMobility', lambda *a, **k: (Ddiag.copy(), Dalpha.copy(), np.eye(ns)))
        patch(MT, 'tracer_diffusivity', lambda *a, **k: np.array([D1[e] for e in sn]))
        patch(MT, 'dMudX', lambda mu, cs, refel: np.eye(ns))
        mt = FMT()
        a_, b_ = mt._interfacialComposition(xuser, 900.0, 0.0, 'PREC')
        out.append(('MultiTherm._interfacialComposition:xM', list(a_), [xM[e] for e in names]))
        out.append(('MultiTherm._interfacialComposition:xP', list(b_), [xP[e] for e in names]))
        if ns >= 1:
            co = mt._curvatureFactorFromEq(np.array([MUe[e] for e in sn]), FakeCS('MATRIX', sn, [xM[e] for e in sn]),
                                           FakeCS('PREC', sn, [xP[e] for e in sn]), 'PREC')
            den = sum((xP[e] - xM[e]) ** 2 for e in sol)
            out.append(('MultiTherm._curvatureFactorFromEq:dc', list(np.atleast_1d(co.dc)), [(xP[e] - xM[e]) / D1[e] / den for e in sol]))
            out.append(('MultiTherm._curvatureFactorFromEq:gba', np.atleast_2d(co.gba).tolist(), [[G(a, b) for b in sol] for a in sol]))
            out.append(('MultiTherm._curvatureFactorFromEq:c_eq_alpha', list(np.atleast_1d(co.c_eq_alpha)), [xM[e] for e in sol]))
            out.append(('MultiTherm._curvatureFactorFromEq:c_eq_beta', list(np.atleast_1d(co.c_eq_beta)), [xP[e] for e in sol]))
        # mobility
        patch(DP, 'mobility_from_composition_set', lambda cs, *a, **k: np.array([B(e) * (2.0 if cs.phase_record.phase_name == 'PREC' else 1.0) for e in sn]))
        mt.mobCallables = {'MATRIX': object(), 'PREC': object()}
        if ns >= 1:
            md = DP.computeMobility(mt, np.array([xuser]), np.array([900.0]))
            inter = DP.interstitials
            for pi, (ph, xd, f) in enumerate([('MATRIX', xM, 1.0), ('PREC', xP, 2.0)]):
                us = sum(xd[e] for e in names if e not in inter)
                out.append(('DiffusionParameters.computeMobility:mobility[%s]' % ph, list(np.array(md.mobility)[0][pi]), [B(e) * f * xd[e] / us for e in names]))
            out.append(('DiffusionParameters.computeMobility:chemical_potentials', list(np.atleast_1d(np.array(md.chemical_potentials)[0])), [MUe[e] for e in names]))
            # the same queries answered from the cache: second call with the same HashTable, and the second of two
            # nodes with the same composition inside one call - a stored value must be in the user's element order too
            import kawin.diffusion.HomogenizationParameters as HPm
            import importlib
            HPm = importlib.import_module('kawin.diffusion.HomogenizationParameters')
            exp_mob = {}
            for ph, xd, f in (('MATRIX', xM, 1.0), ('PREC', xP, 2.0)):
                us = sum(xd[e] for e in names if e not in inter)
                exp_mob[ph] = {e: B(e) * f * xd[e] / us for e in names}

            def add_md(tag, mobs, mus):
                for pi, ph in enumerate(('MATRIX', 'PREC')):
                    out.append(('DiffusionParameters.computeMobility (%s):mobility[%s]' % (tag, ph), list(np.array(mobs)[pi]), [exp_mob[ph][e] for e in names]))
                out.append(('DiffusionParameters.computeMobility (%s):chemical_potentials' % tag, list(np.atleast_1d(mus)), [MUe[e] for e in names]))
            ht = DP.HashTable()
            md1 = DP.computeMobility(mt, np.array([xuser]), np.array([900.0]), hashTable=ht)
            md2 = DP.computeMobility(mt, np.array([xuser]), np.array([900.0]), hashTable=ht)
            add_md('first call with a HashTable', np.array(md1.mobility)[0], np.array(md1.chemical_potentials)[0])
            add_md('second call, same HashTable', np.array(md2.mobility)[0], np.array(md2.chemical_potentials)[0])
            ht = DP.HashTable()
            md3 = DP.computeMobility(mt, np.array([xuser, xuser]), np.array([900.0, 900.0]), hashTable=ht)
            add_md('second node with the same composition', np.array(md3.mobility)[1], np.array(md3.chemical_potentials)[1])
            # two objects alive in one process: a second backend listing the same elements in another order, each with
            # its own HashTable, asked about the same (numerically equal) composition vector one after the other
            names2 = names[1:] + names[:1]
            mt2 = FMT(names2 + ['VA'])
            mt2.mobCallables = {'MATRIX': object(), 'PREC': object()}
            htA, htB = DP.HashTable(), DP.HashTable()
            DP.computeMobility(mt, np.array([xuser]), np.array([900.0]), hashTable=htA)
            mdB = DP.computeMobility(mt2, np.array([xuser]), np.array([900.0]), hashTable=htB)
            mdA = DP.computeMobility(mt, np.array([xuser]), np.array([900.0]), hashTable=htA)
            add_md('own HashTable while a second model with its own HashTable is alive', np.array(mdA.mobility)[0], np.array(mdA.chemical_potentials)[0])
            for pi, ph in enumerate(('MATRIX', 'PREC')):
                out.append(('DiffusionParameters.computeMobility (second model, elements %s, own HashTable):mobility[%s]' % (names2, ph),
                            list(np.array(mdB.mobility)[0][pi]), [exp_mob[ph][e] for e in names2]))
            out.append(('DiffusionParameters.computeMobility (second model, elements %s, own HashTable):chemical_potentials' % names2,
                        list(np.atleast_1d(np.array(mdB.chemical_potentials)[0])), [MUe[e] for e in names2]))
            # calling conventions: the composition as nested list / tuple / float32-free ndarray; arguments unchanged afterwards
            for conv, xarg in (('nested list', [list(map(float, xuser))]), ('tuple', (tuple(map(float, xuser)),)), ('2-d array', np.array([xuser]))):
                keepx = copy.deepcopy(xarg)
                mdc = DP.computeMobility(mt, xarg, [900.0])
                add_md('composition given as %s' % conv, np.array(mdc.mobility)[0], np.array(mdc.chemical_potentials)[0])
                same = np.array_equal(np.array(keepx, dtype=float), np.array(xarg, dtype=float))
                out.append(('DiffusionParameters.computeMobility (composition given as %s):argument unchanged' % conv, [1.0 if same else 0.0], [1.0]))
            hp = HPm.HomogenizationParameters()
            exp_avg = [0.75 * exp_mob['MATRIX'][e] + 0.25 * exp_mob['PREC'][e] for e in names]
            ht = DP.HashTable()
            for tag in ('first call with a HashTable', 'second call, same HashTable'):
                am, mu = HPm.computeHomogenizationFunction(mt, np.array([xuser]), np.array([900.0]), hp, hashTable=ht)
                out.append(('HomogenizationParameters.computeHomogenizationFunction (%s):average mobility' % tag, list(np.atleast_1d(am)), exp_avg))
                out.append(('HomogenizationParameters.computeHomogenizationFunction (%s):chemical_potentials' % tag, list(np.atleast_1d(mu)), [MUe[e] for e in names]))
    finally:
        for (mod, name), fn in saved.items():
            setattr(mod, name, fn)
    return out


def flat(v):
    return [float(x) for x in np.ravel(np.array(v, dtype=float))]


def oracle_fake(elements):
    hits = []
    try:
        with quiet():
            res = fake_sites(elements)
    except PLUMBING as e:
        # a private hook of the stand-in backend no longer fits (renamed helper, changed signature): the labelled backend
        # cannot be driven any more - that is a broken tie of the harness, not an input on which kawin fails
        raise TieBroken('labelled backend cannot drive the wrapper code: %s: %s' % (type(e).__name__, e))
    except Exception as e:
        return [('wrapper_equivariant', 'exception', 'wrapper code raised %s: %s for elements %r' % (type(e).__name__, e, elements))]
    for site, obs, exp in res:
        o, x = flat(obs), flat(exp)
        if len(o) != len(x) or any(abs(a - b) > 1e-9 * max(abs(a), abs(b)) for a, b in zip(o, x)):
            hits.append(('wrapper_equivariant', re.sub(r', elements \[.*?\]', '', site.split(':')[0]),
                         '%s with elements %r returns %r; the values attached to the element names in that order are %r'
                         % (site, elements[:-1], np.array(obs, dtype=float).tolist(), np.array(exp, dtype=float).tolist())))
    return hits


def explore_fake(ctx, ncases):
    rng = ctx.rng
    hits = []
    for i in range(ncases):
        n = int(rng.choice([2, 3, 4, 5, 6], p=[0.1, 0.3, 0.3, 0.2, 0.1]))
        names = gen_names(rng, n, 'element')
        while names[0] in ('C', 'N', 'O', 'H', 'B'):      # the reference element is substitutional (u-fractions need one)
            names = gen_names(rng, n, 'element')
        els = names + ['VA']
        hs = oracle_fake(els)
        inv = list(np.argsort(np.argsort(names))) == list(np.argsort(names))
        ctx.count({'fake': els}, not inv)
        ctx.hist('fake_backend_elements', '%d%s' % (n, '' if not inv else ' (self-inverse order)'))
        for h in hs:
            hits.append((els,) + h)
    return hits


def shrink_elements(els, pred):
    cur = list(els)
    changed = True
    while changed and len(cur) > 3:
        changed = False
        for j in range(len(cur) - 1):
            d = cur[:j] + cur[j + 1:]
            try:
                if pred(d):
                    cur, changed = d, True
                    break
            except Exception:
                pass
    return cur


def report_fake_hits(ctx, hits):
    seen = set()
    for (els, clause, cls, msg) in hits:
        if (clause, cls) in seen:
            continue
        seen.add((clause, cls))
        small = shrink_elements(els, lambda d: any(h[1] == cls for h in oracle_fake(d)))
        hs = [h for h in oracle_fake(small) if h[1] == cls]
        msg2 = hs[0][2] if hs else msg
        ctx.violation(clause, {'site': cls, 'cls': 'labelled backend'},
                      {'kind': 'fake', 'input': {'elements': small}, 'observed': msg2,
                       'oracle': 'the backend answers in alphabetical order with one labelled value per element name; the wrapper must return, at position i, the value of the i-th listed element (harness/c11.py: fake_sites)'},
                      msg2)


# ==========================================================================================
# Part B - nucleation-site competition
SITE_STR = {'Bulk': 'bulk', 'Disl': 'dislocations', 'GBound': 'grain boundaries', 'GEdge': 'grain edges', 'GCorner': 'grain corners'}


def gen_sites_case(rng, idx):
    k = int(rng.choice([1, 2, 3, 4], p=[0.1, 0.4, 0.4, 0.1]))
    names = PNAMES[:k]
    phases = {}
    for nm in names:
        st = str(rng.choice(list(SITE_STR)))
        others = [o for o in names if o != nm]
        parents = [o for o in others if rng.random() < 0.35]
        if parents and rng.random() < 0.2:
            parents = parents + [parents[0]]          # a parent listed twice is counted twice by the code
        bins = 20
        psd = 10 ** rng.uniform(8, 22, bins)
        psd[rng.random(bins) < 0.4] = 0
        if rng.random() < 0.15:
            psd[:] = 0
        if rng.random() < 0.2:
            psd *= 1e6                                   # more precipitates than sites: clamp at zero
        phases[nm] = dict(site=st, gamma=float(rng.uniform(0.2, 0.5)), vm=float(10 ** rng.uniform(-5.3, -4.7)), parents=parents,
                          psd=[float(x) for x in psd])
    return dict(names=names, phases=phases, vmAlpha=float(10 ** rng.uniform(-5.3, -4.7)), gbEnergy=float(rng.uniform(0.1, 0.3)),
                grainSize=float(10 ** rng.uniform(0, 2)), dislocationDensity=float(10 ** rng.uniform(12, 15)))


def build_sites_model(c, order):
    from kawin.precipitation import PrecipitateModel, VolumeParameter
    import stubs
    stubs.StubBinary.P.setdefault('B4', (0.3, 58000., 1.7))
    names = [c['names'][i] for i in order]
    with quiet():
        m = PrecipitateModel(phases=names, elements=['B'])
        m.setPBMParameters(cMin=1e-10, cMax=1e-8, bins=20, minBins=10, maxBins=40, adaptive=False)
        m.setInitialComposition(2e-2)
        m.setTemperature(700.)
        m.setVolumeAlpha(c['vmAlpha'], VolumeParameter.MOLAR_VOLUME, 4)
        m.setGrainBoundaryEnergy(c['gbEnergy'])
        for nm in names:
            p = c['phases'][nm]
            m.setInterfacialEnergy(p['gamma'], phase=nm)
            m.setVolumeBeta(p['vm'], VolumeParameter.MOLAR_VOLUME, 4, phase=nm)
            m.setNucleationSite(SITE_STR[p['site']], phase=nm)
        m.setNucleationDensity(grainSize=c['grainSize'], dislocationDensity=c['dislocationDensity'])
        for nm in names:
            if c['phases'][nm]['parents']:
                m.setParentPhases(nm, c['phases'][nm]['parents'])
        m.setThermodynamics(stubs.StubBinary(names))
        m.setup()
    return m, names


def impl_sites(c, order):
    """{phase name: available nucleation sites} from the real _calcNucleationSites"""
    m, names = build_sites_model(c, order)
    x = [np.array(c['phases'][nm]['psd']) for nm in names]
    fn = getattr(m, '_calcNucleationSites', None)          # private: there is no public way to read the available sites
    if fn is None:
        raise TieBroken('PrecipitateModel has no _calcNucleationSites any more: available nucleation sites cannot be observed')
    with np.errstate(all='ignore'):
        try:
            return {nm: float(fn(0.0, x, j)) for j, nm in enumerate(names)}, m, x
        except TypeError as e:
            raise TieBroken('_calcNucleationSites(t, x, p) cannot be called any more: %s' % e)


def sites_term(c, impl_by_name, m, x):
    from kawin.Constants import AVOGADROS_NUMBER as AV
    names = list(c['names'])
    ps = []
    for j, nm in enumerate(names):
        p = c['phases'][nm]
        pp = m.precipitateParameters[j]
        pbm = m.PBM[j]
        m0, m1, m2 = float(pbm.ZeroMomentFromN(x[j])), float(pbm.FirstMomentFromN(x[j])), float(pbm.SecondMomentFromN(x[j]))
        parCoef = float((AV / pp.volume.Vm) ** (2 / 3))
        gbRem = float(pp.nucleation.gbRemoval)
        edgeF = float(np.sqrt(1 - pp.nucleation.GBk ** 2))
        ps.append('(mkS Qops %s %s %s %s %s %s %s %s [%s])' % (
            natlit(PNAMES.index(nm)), p['site'], qlit(m0), qlit(m1), qlit(m2), qlit(parCoef), qlit(gbRem), qlit(edgeF),
            '; '.join(natlit(PNAMES.index(q)) for q in p['parents'])))
    ns = m.matrixParameters.nucleationSites
    vmA = m.matrixParameters.volume.Vm
    M = '(mkM Qops %s %s %s %s %s %s %s %s)' % (qlit(ns.bulkN0), qlit(ns.dislocationN0), qlit(ns.GBareaN0), qlit(ns.GBedgeN0), qlit(ns.GBcornerN0),
                                                qlit(float((AV / vmA) ** (1 / 3))), qlit(float((AV / vmA) ** (2 / 3))), qlit(float(4 * np.pi)))
    return 'check_sites %s [%s] %s %s' % (RT, '; '.join(ps), M, qlist([impl_by_name[nm] for nm in names]))


def oracle_sites(c, perms=None):
    k = len(c['names'])
    perms = perms or list(itertools.permutations(range(k)))
    base, m0, _ = impl_sites(c, perms[0])
    ns = m0.matrixParameters.nucleationSites
    scale = max(ns.bulkN0, ns.dislocationN0, ns.GBareaN0, ns.GBedgeN0, ns.GBcornerN0)
    hits = []
    for pm in perms[1:]:
        r, _, _ = impl_sites(c, pm)
        for nm in c['names']:
            a, b = base[nm], r[nm]
            if abs(a - b) > 1e-9 * max(abs(a), abs(b), scale * 1e-3):
                hits.append(('nucleation_sites_perm', c['phases'][nm]['site'],
                             '_calcNucleationSites gives %r sites for phase %s when the phases are listed as %s and %r when listed as %s'
                             % (a, nm, [c['names'][i] for i in perms[0]], b, [c['names'][i] for i in pm])))
                break
    return hits


def explore_sites(ctx, cases):
    terms, hits, meta = [], [], []
    for c in cases:
        k = len(c['names'])
        perms = perms_of(k, ctx.rng)
        for h in oracle_sites(c, perms):
            hits.append((c,) + h)
        r, m, x = impl_sites(c, tuple(range(k)))
        types_ = sorted(set(c['phases'][nm]['site'] for nm in c['names']))
        shared = len(types_) < k
        ctx.count(hx(c), shared or any(c['phases'][nm]['parents'] for nm in c['names']))
        ctx.hist('site_phases', k)
        for nm in c['names']:
            ctx.hist('site_type', c['phases'][nm]['site'])
        if all(np.isfinite(v) for v in r.values()):
            terms.append(sites_term(c, r, m, x))
            meta.append((c, r))
    res = ctx.coq_eval('sites', HEADER, terms, shard=8) if terms else []
    dis = []
    for (c, r), v in zip(meta, res):
        if v is not None:
            kk, ap = v[1]
            nm = c['names'][kk]
            dis.append((c, 'nucleation sites of phase %s (%s): implementation %r, model %r' % (nm, c['phases'][nm]['site'], r[nm], float(tofrac(ap)))))
    return dis, hits


# ==========================================================================================
# multi-phase runs in every phase order
GAMMAS = {'B1': 0.15, 'B2': 0.13, 'B3': 0.16}
RUN_FIELDS = ['drivingForce', 'impingement', 'Gcrit', 'Rcrit', 'nucRate', 'precipitateDensity', 'Rnuc', 'Ravg', 'ARavg', 'volFrac',
              'xEqAlpha', 'xEqBeta', 'fconc']
VOLCONS = dict(checkNucleation=False, checkRcrit=False, maxVolumeChange=1e-5)


class StopRun(Exception):
    pass


class StepCap:
    """observer (addCouplingModel): a changed kawin may make a run take orders of magnitude more steps - stop it"""
    def __init__(self, cap=6000, tmax=90.0):
        self.cap, self.tmax, self.n, self.t0 = cap, tmax, 0, time.time()

    def updateCoupledModel(self, model):
        self.n += 1
        if self.n > self.cap or time.time() - self.t0 > self.tmax:
            raise StopRun()


def capped_solve(m, cfg):
    from kawin.solver import SolverType
    m.addCouplingModel(StepCap(cfg.get('cap', 6000)))
    try:
        m.solve(cfg['tf'], solverType=SolverType.RK4 if cfg.get('solver') == 'RK4' else SolverType.EXPLICITEULER, verbose=False)
        return False
    except StopRun:
        return True


def apply_phase_options(m, cfg, names):
    """non-default per-phase options, always given by phase NAME: cfg['options'] = {phase: {option: value}}"""
    for nm, opts in (cfg.get('options') or {}).items():
        if nm not in names:
            continue
        for k, v in opts.items():
            if k == 'infiniteDiffusion':
                m.setInfinitePrecipitateDiffusivity(bool(v), phase=nm)
            elif k == 'shape':
                m.setPrecipitateShape(v[0], phase=nm, ratio=v[1])
            elif k == 'site':
                m.setNucleationSite(v, phase=nm)
            elif k == 'gamma':
                m.setInterfacialEnergy(v, phase=nm)
            elif k == 'vratio':
                from kawin.precipitation import VolumeParameter
                m.setVolumeBeta(0.4e-9 ** 3 / v, VolumeParameter.ATOMIC_VOLUME, 4, phase=nm)
            else:
                raise ValueError(k)


def run_stub(cfg, order):
    import stubs
    from kawin.solver import SolverType
    names = [cfg['phases'][i] for i in order]
    sites = cfg.get('sites') or {}
    T = cfg.get('T', 700.)
    if isinstance(T, list):
        T = (T[0], T[1])
    with quiet():
        m = stubs.make_binary_model(phases=names, gammas=[GAMMAS[n] for n in names], sites=[sites.get(n, 'dislocations') for n in names],
                                    constraints=cfg.get('constraints'), T=T, x0=cfg.get('x0', 2e-2))
        apply_phase_options(m, cfg, names)
        capped = capped_solve(m, cfg)
    n = m.pData.n
    out = {'n': int(n), 'time': m.pData.time[:n + 1].copy(), 'temperature': m.pData.temperature[:n + 1].copy(),
           'composition': m.pData.composition[:n + 1].copy(), 'phase': {}, 'capped': capped}
    for j, nm in enumerate(names):
        d = {f: np.array(getattr(m.pData, f))[:n + 1, j].copy() for f in RUN_FIELDS}
        d['PSD'] = m.PBM[j].PSD.copy()
        d['PSDbounds'] = m.PBM[j].PSDbounds.copy()
        out['phase'][nm] = d
    return out


def cmp_arrays(a, b, rtol):
    a, b = np.asarray(a, dtype=float), np.asarray(b, dtype=float)
    if a.shape != b.shape:
        return 'shapes %r and %r' % (a.shape, b.shape), None
    if a.size == 0:
        return None, None
    sc = max(np.max(np.abs(a[np.isfinite(a)])) if np.any(np.isfinite(a)) else 0.0, 1e-300)
    bad = ~((np.abs(a - b) <= rtol * sc) | (np.isnan(a) & np.isnan(b)) | (a == b))
    if np.any(bad):
        k = int(np.argmax(bad.reshape(len(a), -1).any(axis=1))) if a.ndim > 1 else int(np.argmax(bad))
        return 'first difference at step/index %d: %r vs %r' % (k, np.ravel(a[k])[:3].tolist(), np.ravel(b[k])[:3].tolist()), k
    return None, None


def oracle_runs(cfg, orders=None):
    """same time grid and same per-phase histories for every listing order (property text)"""
    k = len(cfg['phases'])
    orders = [tuple(o) for o in (orders or cfg.get('orders') or itertools.permutations(range(k)))]
    rtol = 0.0 if k <= 2 else 1e-9          # sums over two phases are commutative in binary64; three are not associative
    base = run_stub(cfg, orders[0])
    hits = []
    info = {'steps': [base['n']]}
    for od in orders[1:]:
        r = run_stub(cfg, od)
        info['steps'].append(r['n'])
        l0 = [cfg['phases'][i] for i in orders[0]]
        l1 = [cfg['phases'][i] for i in od]
        if r['n'] != base['n']:
            hits.append(('run_perm_equivariant', 'time grid', 'listing the phases as %s takes %d steps%s to t=%g, listing them as %s takes %d steps%s'
                         % (l0, base['n'], ' (stopped by the harness)' if base.get('capped') else '', cfg['tf'], l1, r['n'], ' (stopped by the harness)' if r.get('capped') else '')))
            continue
        d, kk = cmp_arrays(base['time'], r['time'], rtol)
        if d:
            hits.append(('run_perm_equivariant', 'time grid', 'time grids differ between phase orders %s and %s: %s' % (l0, l1, d)))
            continue
        for f in ('temperature', 'composition'):
            d, kk = cmp_arrays(base[f], r[f], rtol)
            if d:
                hits.append(('run_perm_equivariant', 'matrix history', '%s history differs between phase orders %s and %s: %s' % (f, l0, l1, d)))
                break
        for nm in cfg['phases']:
            for f in RUN_FIELDS + ['PSD', 'PSDbounds']:
                d, kk = cmp_arrays(base['phase'][nm][f], r['phase'][nm][f], rtol)
                if d:
                    hits.append(('run_perm_equivariant', 'phase history', '%s of phase %s differs between phase orders %s and %s: %s' % (f, nm, l0, l1, d)))
                    break
    return hits, info


def run_configs(quick):
    cfgs = [
        dict(name='two phases, default constraints', phases=['B1', 'B2'], tf=50.),
        dict(name='three phases, default constraints', phases=['B1', 'B2', 'B3'], tf=50.),
        dict(name='two phases, volume rule binding', phases=['B1', 'B2'], tf=0.5, constraints=VOLCONS),
        dict(name='three phases, volume rule binding', phases=['B1', 'B2', 'B3'], tf=0.5, constraints=VOLCONS, orders=[[0, 1, 2], [1, 2, 0], [2, 1, 0]]),
        dict(name='two phases, bulk and dislocation sites, RK4', phases=['B1', 'B2'], tf=10., solver='RK4', sites={'B1': 'bulk'}),
        # non-default per-phase options on a phase that is not listed first in some order
        dict(name='two phases, B2 without internal diffusion', phases=['B1', 'B2'], tf=30., options={'B2': {'infiniteDiffusion': False}}),
        dict(name='three phases, options differ per phase', phases=['B1', 'B2', 'B3'], tf=4.,
             options={'B1': {'infiniteDiffusion': False, 'vratio': 1.1}, 'B3': {'infiniteDiffusion': False, 'shape': ['needle', 1.5]}, 'B2': {'site': 'bulk'}},
             orders=[[0, 1, 2], [2, 0, 1], [1, 2, 0]]),
    ]
    if not quick:
        cfgs += [
            dict(name='two phases, volume rule binding, long', phases=['B1', 'B2'], tf=2., constraints=VOLCONS),
            dict(name='three phases, volume rule binding, long', phases=['B1', 'B2', 'B3'], tf=1., constraints=VOLCONS),
            dict(name='three phases, mixed sites', phases=['B1', 'B2', 'B3'], tf=100., sites={'B1': 'bulk', 'B3': 'bulk'}),
            dict(name='three phases, RK4', phases=['B1', 'B2', 'B3'], tf=50., solver='RK4'),
            dict(name='two phases, heating ramp', phases=['B1', 'B2'], tf=200., T=[[0., 200. / 3600], [650., 720.]]),
            dict(name='three phases, PSD rule only', phases=['B1', 'B2', 'B3'], tf=20.,
                 constraints=dict(checkNucleation=False, checkRcrit=False, checkVolumePre=False)),
        ]
    return cfgs


def explore_runs(ctx, cfgs):
    hits = []
    for cfg in cfgs:
        t0 = time.time()
        hs, info = oracle_runs(cfg)
        ctx.cov['traces_validated_against_impl'] += len(info['steps'])
        ctx.count({'run': cfg}, True)
        ctx.notes.setdefault('runs', []).append({'config': cfg['name'], 'orders': len(info['steps']), 'steps': info['steps'], 'wall_s': round(time.time() - t0, 1)})
        for h in hs:
            hits.append((cfg,) + h)
    return hits


# ==========================================================================================
# real ternary databases in every element order (sampling of the backend hypothesis)
DBS = {
    'NICRAL': dict(tdb='NICRAL_TDB', els=['NI', 'CR', 'AL'], phases=['FCC_A1', 'FCC_L12'], multi=True,
                   points=[({'NI': 0.82, 'CR': 0.08, 'AL': 0.10}, 1073.15), ({'NI': 0.80, 'CR': 0.05, 'AL': 0.15}, 1173.15),
                           ({'NI': 0.78, 'CR': 0.12, 'AL': 0.10}, 973.15)]),
    'NICRAL_DIFF': dict(tdb='NICRAL_TDB_DIFF', els=['NI', 'CR', 'AL'], phases=['FCC_A1', 'FCC_L12'], multi=True,
                        points=[({'NI': 0.82, 'CR': 0.08, 'AL': 0.10}, 1073.15)]),
    'NICRAL_FCC': dict(tdb='NICRAL_TDB', els=['NI', 'CR', 'AL'], phases=['FCC_A1'], multi=False,
                       points=[({'NI': 0.75, 'CR': 0.15, 'AL': 0.10}, 1473.15)]),
    'FECRNI': dict(tdb='FECRNI_DB', els=['FE', 'CR', 'NI'], phases=['FCC_A1', 'BCC_A2'], multi=False,
                   points=[({'FE': 0.70, 'CR': 0.20, 'NI': 0.10}, 1273.15), ({'FE': 0.60, 'CR': 0.15, 'NI': 0.25}, 1373.15)]),
}
_therm_cache = {}


def db_therm(dbkey, order):
    import kawin.tests.datasets as ds
    from kawin.thermo import MulticomponentThermodynamics, GeneralThermodynamics
    key = (dbkey, tuple(order))
    if key not in _therm_cache:
        cfg = DBS[dbkey]
        with quiet():
            if cfg['multi']:
                th = MulticomponentThermodynamics(getattr(ds, cfg['tdb']), list(order), list(cfg['phases']), drivingForceMethod='tangent')
                th.setDFSamplingDensity(2000)
                th.setEQSamplingDensity(500)
            else:
                th = GeneralThermodynamics(getattr(ds, cfg['tdb']), list(order), list(cfg['phases']))
        _therm_cache[key] = th
    return _therm_cache[key]


def db_query(dbkey, order, X, T):
    """every order-sensitive output, keyed by element NAME"""
    from kawin.diffusion.DiffusionParameters import computeMobility
    th = db_therm(dbkey, order)
    ref, sol = order[0], list(order[1:])
    x = [X[e] for e in sol]
    out = {}

    def attempt(name, fn):
        try:
            with quiet():
                out[name] = fn()
        except Exception as e:
            out[name] = 'raised ' + type(e).__name__

    def byname(names, v):
        v = np.atleast_1d(np.squeeze(v))
        return {e: float(v[i]) for i, e in enumerate(names)}

    attempt('tracer', lambda: byname(order, th.getTracerDiffusivity(x, T)))
    attempt('interdiffusivity', lambda: (lambda D: {ref + ':' + a + ',' + b: float(D[i][j]) for i, a in enumerate(sol) for j, b in enumerate(sol)})(np.atleast_2d(th.getInterdiffusivity(x, T))))

    def mob():
        md = computeMobility(th, x, T)
        mobs = np.array(md.mobility)[0]
        ph = list(np.array(md.phases)[0])
        r = {}
        for pi, pn in enumerate(ph):
            for i, e in enumerate(order):
                r['%s:%s' % (pn, e)] = float(mobs[pi][i])
        for i, e in enumerate(order):
            r['mu:' + e] = float(np.array(md.chemical_potentials)[0][i])
        return r
    attempt('mobility', mob)

    # the same mobility / homogenization queries answered from the cache (state carried between calls)
    def md_byname(mobs, ph, mus):
        r = {}
        for pi, pn in enumerate(ph):
            for i, e in enumerate(order):
                r['%s:%s' % (pn, e)] = float(mobs[pi][i])
        for i, e in enumerate(order):
            r['mu:' + e] = float(mus[i])
        return r

    def mob_second_call():
        from kawin.diffusion.DiffusionParameters import HashTable
        ht = HashTable()
        computeMobility(th, x, T, hashTable=ht)
        md = computeMobility(th, x, T, hashTable=ht)
        return md_byname(np.array(md.mobility)[0], list(np.array(md.phases)[0]), np.array(md.chemical_potentials)[0])

    def mob_second_node():
        from kawin.diffusion.DiffusionParameters import HashTable
        md = computeMobility(th, np.array([x, x]), np.array([T, T]), hashTable=HashTable())
        return md_byname(np.array(md.mobility)[1], list(np.array(md.phases)[1]), np.array(md.chemical_potentials)[1])

    def homog(second):
        def f():
            import importlib
            from kawin.diffusion.DiffusionParameters import HashTable
            HPm = importlib.import_module('kawin.diffusion.HomogenizationParameters')
            hp = HPm.HomogenizationParameters()
            ht = HashTable() if second else None
            am, mu = HPm.computeHomogenizationFunction(th, x, T, hp, hashTable=ht)
            if second:
                am, mu = HPm.computeHomogenizationFunction(th, x, T, hp, hashTable=ht)
            r = {'avg:' + e: float(np.atleast_1d(am)[i]) for i, e in enumerate(order)}
            r.update({'mu:' + e: float(np.atleast_1d(mu)[i]) for i, e in enumerate(order)})
            return r
        return f
    attempt('mobility[second call, same HashTable]', mob_second_call)
    attempt('mobility[second node, same composition]', mob_second_node)
    attempt('homogenization', homog(False))
    attempt('homogenization[second call, same HashTable]', homog(True))
    if DBS[dbkey]['multi']:
        def df(method):
            def f():
                th.setDrivingForceMethod(method)
                dg, xp = th.getDrivingForce(x, T, removeCache=True)
                xp = np.atleast_1d(xp)
                r = {'dg': float(dg)}
                r.update({e: float(xp[i]) for i, e in enumerate(sol)})
                r[ref] = float(1 - np.sum(xp))
                return r
            return f
        for method in ('tangent', 'approximate', 'sampling', 'curvature'):
            attempt('drivingForce[%s]' % method, df(method))
        th.setDrivingForceMethod('tangent')

        def ic():
            xa, xb = th.getInterfacialComposition(x, T, 0)
            r = {}
            r.update({'alpha:' + e: float(np.atleast_1d(xa)[i]) for i, e in enumerate(order)})
            r.update({'beta:' + e: float(np.atleast_1d(xb)[i]) for i, e in enumerate(order)})
            return r
        attempt('interfacialComposition', ic)

        def cf():
            c = th.curvatureFactor(x, T, removeCache=True)
            # mc and beta are compared between the two solute orders of the same reference element only
            r = {ref + ':mc': float(c.mc), ref + ':beta': float(c.beta)}
            for i, a in enumerate(sol):
                r['%s:dc:%s' % (ref, a)] = float(c.dc[i])
                r['c_eq_alpha:' + a] = float(c.c_eq_alpha[i])
                r['c_eq_beta:' + a] = float(c.c_eq_beta[i])
                for j, b in enumerate(sol):
                    r['%s:gba:%s,%s' % (ref, a, b)] = float(np.atleast_2d(c.gba)[i][j])
            return r
        attempt('curvatureFactor', cf)
    return out


def diffusion_run(dbkey, order, profile, T, tf, cells=12):
    from kawin.diffusion import SinglePhaseModel
    from kawin.diffusion.DiffusionParameters import CompositionProfile
    from kawin.solver import SolverType
    th = db_therm(dbkey, order)
    cp = CompositionProfile()
    for e in order[1:]:
        cp.addLinearCompositionStep(e, *profile[e])
    with quiet():
        m = SinglePhaseModel([-1e-3, 1e-3], cells, list(order), [DBS[dbkey]['phases'][0]], thermodynamics=th, compositionProfile=cp)
        m.setTemperature(T)
        m.solve(tf, solverType=SolverType.EXPLICITEULER, verbose=False)
    return {order[0] + ':profile:' + e: [float(v) for v in m.x[i]] for i, e in enumerate(order[1:])}


def oracle_db(dbkey, X, T, orders=None, rtol=1e-6):
    els = DBS[dbkey]['els']
    orders = [tuple(o) for o in (orders or itertools.permutations(els))]
    res = {od: db_query(dbkey, od, X, T) for od in orders}
    hits = []
    for q in res[orders[0]]:
        ref_vals = {}
        for od in orders:
            v = res[od].get(q)
            if isinstance(v, str):
                v = {'<outcome>': v}
            for k, val in v.items():
                if k in ref_vals:
                    od0, v0 = ref_vals[k]
                    same = (val == v0) if isinstance(val, str) or isinstance(v0, str) else \
                        (abs(val - v0) <= rtol * max(abs(val), abs(v0))) or (np.isnan(val) and np.isnan(v0))
                    if not same:
                        hits.append(('element_order_equivariant', q.split('[')[0] + (' from the cache' if '[second' in q else ''),
                                     '%s on %s at %r, T=%g: %s is %r with elements listed as %s and %r when listed as %s'
                                     % (q, dbkey, X, T, k, v0, list(od0), val, list(od))))
                        break
                else:
                    ref_vals[k] = (od, val)
    # an answer served from the cache must be the cache-free answer (same element order, by name)
    for od in orders:
        for q in res[od]:
            if '[second' not in q:
                continue
            base, hit = res[od].get(q.split('[')[0]), res[od][q]
            if isinstance(base, str) or isinstance(hit, str):
                if base != hit and isinstance(hit, str) != isinstance(base, str):
                    hits.append(('element_order_equivariant', q.split('[')[0] + ' from the cache', '%s on %s with elements %s: %r, cache-free: %r' % (q, dbkey, list(od), hit, base)))
                continue
            for k in hit:
                a, b = base.get(k), hit[k]
                if a is not None and not (abs(a - b) <= rtol * max(abs(a), abs(b)) or (np.isnan(a) and np.isnan(b))):
                    hits.append(('element_order_equivariant', q.split('[')[0] + ' from the cache',
                                 '%s on %s at %r, T=%g with elements listed as %s: %s is %r, the cache-free answer is %r'
                                 % (q, dbkey, X, T, list(od), k, b, a)))
                    break
    return hits


def oracle_diffusion(dbkey, profile, T, tf, rtol=1e-8):
    els = DBS[dbkey]['els']
    hits = []
    for ref in els[:1]:
        sol = [e for e in els if e != ref]
        a = diffusion_run(dbkey, (ref, sol[0], sol[1]), profile, T, tf)
        b = diffusion_run(dbkey, (ref, sol[1], sol[0]), profile, T, tf)
        for k in a:
            d, _ = cmp_arrays(a[k], b[k], rtol)
            if d:
                hits.append(('element_order_equivariant', 'diffusion profile', 'diffusion profile %s on %s differs when the solutes are listed as %s or %s: %s'
                             % (k, dbkey, sol, sol[::-1], d)))
    return hits


def explore_db(ctx, quick):
    hits = []
    plan = [('NICRAL', 0), ('FECRNI', 0)] if quick else [(k, i) for k in DBS for i in range(len(DBS[k]['points']))]
    for dbkey, pi in plan:
        X, T = DBS[dbkey]['points'][pi]
        t0 = time.time()
        hs = oracle_db(dbkey, X, T)
        ctx.count({'db': dbkey, 'X': X, 'T': T}, True)
        ctx.hist('database_points', dbkey)
        ctx.notes.setdefault('database_queries', []).append({'db': dbkey, 'X': X, 'T': T, 'orders': 6, 'wall_s': round(time.time() - t0, 1), 'hits': len(hs)})
        for h in hs:
            hits.append(({'kind': 'db', 'db': dbkey, 'X': X, 'T': T},) + h)
    prof = {'CR': (0.077, 0.359), 'AL': (0.054, 0.062)}
    for (dbkey, profile, T, tf) in [('NICRAL_FCC', prof, 1473.15, 3600. * 5)] + ([] if quick else [('FECRNI', {'CR': (0.1, 0.3), 'NI': (0.3, 0.1)}, 1373.15, 3600. * 20)]):
        hs = oracle_diffusion(dbkey, profile, T, tf)
        ctx.count({'diffusion': dbkey}, True)
        ctx.cov['traces_validated_against_impl'] += 2
        for h in hs:
            hits.append(({'kind': 'diffusion', 'db': dbkey, 'profile': {k: list(v) for k, v in profile.items()}, 'T': T, 'tf': tf},) + h)
    return hits


# ==========================================================================================
def guarded(ctx, what, fn, default):
    """a part of the harness that cannot reach what it observes reports a broken tie (no input), never a failing input"""
    try:
        return fn()
    except TieBroken as e:
        ctx.violation('harness_tie', {'site': what, 'cls': 'unreachable'}, {'broken': {'tie': str(e)}},
                      '%s: %s' % (what, e), no_input=True)
        return default


def translate_and_bridge(ctx):
    """regenerate the Gallina text of the index idioms from the current source and re-prove the bridge"""
    import c11_translate
    broken = None
    try:
        text, summary = c11_translate.translate_repo(REPO)
    except Exception as e:
        broken = 'translator: %s: %s' % (type(e).__name__, e)
        text, summary = None, []
    if text is not None:
        path = os.path.join(ctx.build, 'Gen.v')
        open(path, 'w').write(text)
        ctx.notes['generated'] = {'file': 'build/C11/Gen.v', 'sha1': hashlib.sha1(text.encode()).hexdigest(), 'definitions': len(summary),
                                  'sites': sorted(set('%s:%s' % (d['file'], d['function']) for d in summary))}
        ok, out = ctx.coqc(path)
        if not ok:
            broken = 'generated definitions do not compile: ' + out[-400:]
    if broken is None:
        ax, failed = ctx.prove(['C11/run/Bridge.v'])
        if failed:
            errs = [e['output'] for e in ctx.notes.get('coq_errors', []) if 'Bridge' in e['file']]
            broken = 'bridge theorems no longer hold for the generated text: %s%s' % (', '.join(failed), (' :: ' + errs[0][-400:]) if errs else '')
        return broken, failed
    # count the bridge obligations as undischarged
    thms = re.findall(r'^\s*Theorem\s+([A-Za-z_0-9\']+)', open(os.path.join(COQ, 'C11', 'run', 'Bridge.v')).read(), re.M)
    ctx.cov['obligations'] += len(thms)
    return broken, thms


def run(ctx):
    quick = ctx.quick
    ctx.cov['rule'] = ('element order: random name lists (0-7 names; element-like, shared prefixes, mixed case / non-ASCII) against numpy argsort, '
                       'real wrapper methods on a labelled backend with 2-6 elements, ternary databases in all 6 element orders; '
                       'phase order: 1-4 phases with generated per-phase PBM / nucleation / critical-radius data (exact dyadic and physical '
                       'magnitudes) run in every permutation, nucleation-site cases with all five site types and parent phases, '
                       'multi-phase stub runs in every listing order.  Non-trivial: >= 2 phases with a binding rule / shared site type or '
                       'parent phases / an element order whose sorting permutation is not self-inverse; distinct by hash of the exact input')
    t0 = time.time()
    axioms, failed = ctx.prove(['C11/Properties.v'])
    tie_broken, bridge_failed = translate_and_bridge(ctx)
    ctx.notes.setdefault('timing', {})['prove'] = round(time.time() - t0, 1)

    # ---- element order -----------------------------------------------------------------------
    t0 = time.time()
    dis_a, hits_a = explore_argsort(ctx, 300 if quick else 3000)
    for (names, clause, msg) in hits_a[:1]:
        ctx.violation('argsort', {'site': 'numpy.argsort', 'cls': 'rank'}, {'kind': 'names', 'input': {'names': names}, 'observed': msg}, msg)
    fake_cases = [c['input']['elements'] for c in corpus_raw('fake')]
    hits_f = guarded(ctx, 'labelled backend', lambda: [(els,) + h for els in fake_cases for h in oracle_fake(els)] + explore_fake(ctx, 80 if quick else 600), [])
    report_fake_hits(ctx, hits_f)
    ctx.notes['timing']['element_order_model'] = round(time.time() - t0, 1)
    t0 = time.time()
    pcases = [unhx(c['input']) for c in corpus_raw('profile')]
    hits_p = [(c,) + h for c in pcases for h in oracle_profile(c)] + explore_profiles(ctx, 150 if quick else 2000)
    seen = set()
    for (c, clause, cls, msg) in hits_p:
        if (clause, cls) in seen:
            continue
        seen.add((clause, cls))
        small = shrink_profile(c, lambda d: any(h[1] == cls for h in oracle_profile(d)))
        hs = [h for h in oracle_profile(small) if h[1] == cls]
        ctx.violation(clause, {'site': 'CompositionProfile.buildProfile', 'cls': cls},
                      {'kind': 'profile', 'input': hx(small), 'observed': hs[0][2] if hs else msg,
                       'oracle': 'the row built for an element is the result of the steps registered for THAT element, whatever the order of the model\'s element list and of the registrations (harness/c11.py: expected_profile)'},
                      hs[0][2] if hs else msg)
    hits_sd = explore_stub_diffusion(ctx, quick)
    seen = set()
    for (cfg, clause, cls, msg) in hits_sd:
        if (clause, cls) in seen:
            continue
        seen.add((clause, cls))
        ctx.violation(clause, {'site': 'SinglePhaseModel.solve', 'cls': cls}, {'kind': 'sdiff', 'input': cfg, 'observed': msg,
                      'oracle': 'the same couple (profiles described per element name, interdiffusivity defined per element name) run with every order of the solutes gives the same profile per element name'}, msg)
    ctx.notes['timing']['profiles'] = round(time.time() - t0, 1)
    t0 = time.time()
    hits_db = explore_db(ctx, quick)
    seen = set()
    for (inp, clause, cls, msg) in hits_db:
        if (clause, cls) in seen:
            continue
        seen.add((clause, cls))
        ctx.violation(clause, {'site': cls, 'cls': 'database ' + inp['db']}, {'kind': inp['kind'], 'input': inp, 'observed': msg,
                      'oracle': 'the same physical query with the elements listed in another order must give the same value per element name'}, msg)
    ctx.notes['timing']['databases'] = round(time.time() - t0, 1)
    if dis_a and not hits_a:
        names, d = dis_a[0]
        ctx.violation('correspondence', {'site': 'numpy.argsort', 'cls': 'index algebra'},
                      {'broken': {'correspondence': 'coq/C11/Model.v (argsort, reorder, delete_at) vs numpy', 'first_disagreement': d}, 'input': {'names': names}},
                      'model and numpy disagree (%d cases), e.g. %s' % (len(dis_a), d), no_input=True)
    ctx.notes['tie_broken'] = tie_broken

    # ---- phase order --------------------------------------------------------------------------
    t0 = time.time()
    cases = corpus_cases('dt') + [c for c in (gen_dt_case(ctx.rng, i) for i in range(90 if quick else 3000)) if usable_dt_case(c)]
    dis, hits = explore_dt(ctx, cases)
    report_dt_hits(ctx, hits)
    ctx.notes['timing']['step_size_rules'] = round(time.time() - t0, 1)
    t0 = time.time()
    scases = [gen_sites_case(ctx.rng, i) for i in range(45 if quick else 600)]
    dis_s, hits_s = guarded(ctx, 'nucleation sites', lambda: explore_sites(ctx, scases), ([], []))
    seen = set()
    for (c, clause, cls, msg) in hits_s:
        if (clause, cls) in seen:
            continue
        seen.add((clause, cls))
        ctx.violation(clause, {'site': 'KWNEuler._calcNucleationSites', 'cls': cls}, {'kind': 'sites', 'input': hx(c), 'observed': msg,
                      'oracle': 'available sites per phase name must not depend on the listing order'}, msg)
    ctx.notes['timing']['nucleation_sites'] = round(time.time() - t0, 1)
    t0 = time.time()
    rcfgs = [c['input'] for c in corpus_raw('run')] + run_configs(quick)
    hits_r = explore_runs(ctx, rcfgs)
    seen = set()
    for (cfg, clause, cls, msg) in hits_r:
        if (clause, cls) in seen:
            continue
        seen.add((clause, cls))
        ctx.violation(clause, {'site': 'PrecipitateModel.solve', 'cls': cls}, {'kind': 'run', 'input': cfg, 'observed': msg,
                      'oracle': 'same time grid and same per-phase histories for every listing order of the phases (stub backend, harness/stubs.py)'}, msg)
    ctx.notes['timing']['runs'] = round(time.time() - t0, 1)
    t0 = time.time()
    hits_t = explore_truns(ctx, [c['input'] for c in corpus_raw('trun')] + trun_configs(quick))
    seen = set()
    for (cfg, clause, cls, msg) in hits_t:
        if (clause, cls) in seen:
            continue
        seen.add((clause, cls))
        ctx.violation(clause, {'site': 'PrecipitateModel (multicomponent)', 'cls': cls}, {'kind': 'trun', 'input': cfg, 'observed': msg,
                      'oracle': 'closed-form ternary backend, phases differing in interfacial energy / molar volume / shape: every quantity handed to the backend for a phase is that phase\'s own, and every listing order gives the same time grid and per-phase histories'}, msg)
    hits_r = hits_r + hits_t
    ctx.notes['timing']['ternary_runs'] = round(time.time() - t0, 1)
    t0 = time.time()
    hits_su = explore_setup(ctx, [c['input'] for c in corpus_raw('setup')] + setup_configs(quick))
    seen = set()
    for (cfg, clause, cls, msg) in hits_su:
        if (clause, cls) in seen:
            continue
        seen.add((clause, cls))
        ctx.violation(clause, {'site': 'PrecipitateModel.setup', 'cls': cls}, {'kind': 'setup', 'input': cfg, 'observed': msg,
                      'oracle': 'every per-phase quantity the set-up model holds (aspect ratio function and table, shape factors, strain and Gibbs-Thomson energies, size classes) equals that of a model containing only that phase, wherever the phase is listed'}, msg)
    hits_r = hits_r + hits_su
    ctx.notes['timing']['setup_probes'] = round(time.time() - t0, 1)
    if not quick:
        t0 = time.time()
        hs, steps = oracle_real_runs()
        ctx.cov['traces_validated_against_impl'] += len(steps)
        ctx.count({'realrun': 'ALMGSI'}, True)
        ctx.notes['almgsi_run'] = {'steps': steps, 'wall_s': round(time.time() - t0, 1), 'hits': len(hs)}
        for (clause, cls, msg) in hs[:1]:
            ctx.violation(clause, {'site': 'PrecipitateModel.solve', 'cls': cls}, {'kind': 'realrun', 'input': {'tf': 36000.}, 'observed': msg,
                          'oracle': 'Al-Mg-Si run (MGSI_B_P + MG5SI6_B_DP, 175 C, 10 h) in both solute orders and both phase orders: same histories by name, 1e-5'}, msg)
    if tie_broken and not (hits_f or hits_db or hits_p or hits_sd or hits_r or hits or hits_s):
        # the code no longer matches the idioms the bridge theorems are about and no oracle (labelled backend, profiles,
        # databases, runs) shows a wrong value: search harder before giving up
        more = guarded(ctx, 'labelled backend', lambda: explore_fake(ctx, 400), [])
        if more:
            report_fake_hits(ctx, more)
        else:
            ctx.violation('translator_tie', {'site': 'harness/c11_translate.py', 'cls': 'bridge'},
                          {'broken': {'tie': tie_broken, 'theorems': bridge_failed, 'file': 'coq/C11/run/Bridge.v'}},
                          'the index idioms regenerated from the source no longer satisfy the bridge: %s' % tie_broken[:300], no_input=True)
    for (dd, hh, what, site) in ((dis, hits, 'step-size rules', SITE_DT), (dis_s, hits_s, 'nucleation sites', 'KWNEuler._calcNucleationSites')):
        if dd and not hh and not hits_r:
            c, d = dd[0]
            ctx.violation('correspondence', {'site': site, 'cls': d.split(' ')[0]},
                          {'broken': {'correspondence': 'coq/C11/Model.v vs kawin (%s)' % what, 'first_disagreement': d},
                           'input': hx(c), 'disagreements': len(dd)},
                          'model and implementation disagree on the %s (%d cases), e.g. %s' % (what, len(dd), d), no_input=True)
    ctx.notes['disagreements'] = {'argsort': len(dis_a), 'step_size_rules': len(dis), 'nucleation_sites': len(dis_s)}
    ctx.notes['oracle_hits'] = {'argsort': len(hits_a), 'labelled_backend': len(hits_f), 'databases': len(hits_db), 'step_size_rules': len(hits),
                                'nucleation_sites': len(hits_s), 'runs': len(hits_r), 'profiles': len(hits_p), 'stub_diffusion': len(hits_sd), 'setup_probes': len(hits_su)}
    for t in failed:
        ctx.violation(t, {'site': 'coq/C11/Properties.v', 'cls': 'proof'},
                      {'broken': {'theorem': t, 'file': 'coq/C11/Properties.v'}},
                      'theorem %s no longer checks' % t, no_input=True)
    ctx.sample({'step_size_case': {k: cases[-1][k] for k in ('kind', 'k', 'npos', 'dtPrev', 'dtMax')}, 'phases': [{k: p[k] for k in ('nucCurr', 'nucPrev', 'rcCurr', 'rcPrev', 'dG', 'rnuc')} for p in cases[-1]['phases']]})
    ctx.sample({'nucleation_sites_case': {nm: {'site': scases[0]['phases'][nm]['site'], 'parents': scases[0]['phases'][nm]['parents']} for nm in scases[0]['names']}})
    ctx.sample({'runs': ctx.notes.get('runs', [])[:3]})
    ctx.assumptions += [
        'pycalphad returns per-element data in alphabetical order of the non-vacant element names, independent of the order the user listed them (hypothesis of the Part A theorems: backend vector = map B (sorted els)); sampled on the shipped ternary databases in all 6 element orders, tolerance 1e-6 relative',
        'binary64 rounding is not modelled: step-size rules and nucleation sites are compared with relative tolerance 2^-36; |log10(prev/curr)|, (N_A/Vm)^(1/3), (N_A/Vm)^(2/3), sqrt(1-GBk^2), 4 pi are supplied to the model as the floats the code computes (D2 parts)',
        'runs with three phases are compared with tolerance 1e-9 (sums over three phases are not associative in binary64); runs with two phases must agree bit for bit',
        'the full KWN step (growth, mass balance, PSD transport) is not part of the C11 model: run-level equivariance is checked on stub-backend runs, the theorems cover the step-size rules, getDt and the nucleation-site competition',
        'cases whose branch condition (nucRate*dt vs 1e5, temperature change vs maxNonIsothermalDT) lies within tolerance of a tie are counted as indeterminate']
    ctx.cov['trusted_base'] += ['Coq 8.16.1 kernel and vm_compute', 'hand-written model coq/C11/Model.v + correspondence harness harness/c11.py',
                                'translator harness/c11_translate.py (Python ast -> Gallina for the argsort / fancy-index idioms; validated by the labelled-backend runs)',
                                'float -> Q transport (float.as_integer_ratio) and output parser in harness/common.py',
                                'stub thermodynamics harness/stubs.py (multi-phase runs)']


def corpus_raw(kind):
    out = []
    p = os.path.join(VERIF, 'corpus', 'C11')
    if os.path.isdir(p):
        for f in sorted(os.listdir(p)):
            if f.endswith('.json'):
                o = json.load(open(os.path.join(p, f)))
                if o.get('kind') == kind:
                    out.append(o)
    return out


def replay(ctx, obj):
    kind = obj.get('kind')
    hits = []
    if kind == 'dt':
        hits = [(h[0], h[1], h[2]) for h in oracle_dt(unhx(obj['input']))]
    elif kind == 'fake':
        hits = oracle_fake(obj['input']['elements'])
    elif kind == 'sites':
        hits = oracle_sites(unhx(obj['input']))
    elif kind == 'run':
        hits, info = oracle_runs(obj['input'])
        print('replay: steps per order', info['steps'])
    elif kind == 'db':
        i = obj['input']
        hits = oracle_db(i['db'], i['X'], i['T'])
    elif kind == 'diffusion':
        i = obj['input']
        hits = oracle_diffusion(i['db'], {k: tuple(v) for k, v in i['profile'].items()}, i['T'], i['tf'])
    elif kind == 'profile':
        hits = oracle_profile(unhx(obj['input']))
    elif kind == 'sdiff':
        hits = oracle_stub_diffusion(obj['input']) + (oracle_stub_diffusion_alive(obj['input']) if obj['input'].get('alive') else [])
    elif kind == 'setup':
        hits, _ = oracle_setup(obj['input'])
    elif kind == 'trun':
        hits, info = oracle_truns(obj['input'])
        print('replay: steps per order', info['steps'])
    elif kind == 'realrun':
        hits, steps = oracle_real_runs(obj['input'].get('tf', 36000.))
        print('replay: steps', steps)
    elif kind == 'names':
        names = obj['input']['names']
        u = [int(x) for x in np.argsort(np.argsort(names))]
        ranks = {e: r for r, e in enumerate(sorted(names))}
        if u != [ranks[e] for e in names]:
            hits = [('argsort', 'rank', 'unsort indices %r are not the ranks %r' % (u, [ranks[e] for e in names]))]
    else:
        print('replay: nothing to replay for kind %r' % kind)
        return 0
    for h in hits:
        print('replay:', h[0], '|', h[1], '|', h[2])
    print('replay: %d oracle violations on this input' % len(hits))
    return 1 if hits else 0


# ==========================================================================================
# thorough tier: a real Al-Mg-Si two-precipitate run in both solute orders and both phase orders
ALMGSI_GAMMA = {'MGSI_B_P': 0.18, 'MG5SI6_B_DP': 0.084, 'B_PRIME_L': 0.18}
ALMGSI_X = {'MG': 0.0072, 'SI': 0.0057}


def real_run(sol, prec, tf):
    from kawin.thermo import MulticomponentThermodynamics
    from kawin.precipitation import PrecipitateModel, VolumeParameter
    from kawin.solver import SolverType
    from kawin.tests.datasets import ALMGSI_DB
    with quiet():
        th = MulticomponentThermodynamics(ALMGSI_DB, ['AL'] + list(sol), ['FCC_A1'] + list(prec), drivingForceMethod='tangent')
        th.setDFSamplingDensity(2000)
        th.setEQSamplingDensity(500)
        m = PrecipitateModel(phases=list(prec), elements=list(sol))
        m.setPBMParameters(cMin=1e-10, cMax=1e-8, bins=75, minBins=50, maxBins=100)
        m.setInitialComposition([ALMGSI_X[e] for e in sol])
        m.setVolumeAlpha(1e-5, VolumeParameter.MOLAR_VOLUME, 4)
        m.setTemperature(175 + 273.15)
        for p in prec:
            m.setInterfacialEnergy(ALMGSI_GAMMA[p], phase=p)
            m.setVolumeBeta(1e-5, VolumeParameter.MOLAR_VOLUME, 4, phase=p)
        m.setThermodynamics(th)
        m.solve(tf, solverType=SolverType.EXPLICITEULER, verbose=False)
    n = m.pData.n
    out = {'n': int(n), 'time': m.pData.time[:n + 1].copy()}
    for i, e in enumerate(sol):
        out['composition:' + e] = m.pData.composition[:n + 1, i].copy()
    for j, p in enumerate(prec):
        for f in ('drivingForce', 'Rcrit', 'nucRate', 'precipitateDensity', 'Ravg', 'volFrac'):
            out['%s:%s' % (f, p)] = np.array(getattr(m.pData, f))[:n + 1, j].copy()
        for f in ('xEqAlpha', 'xEqBeta'):
            for i, e in enumerate(sol):
                out['%s:%s:%s' % (f, p, e)] = np.array(getattr(m.pData, f))[:n + 1, j, i].copy()
        out['PSD:' + p] = m.PBM[j].PSD.copy()
    return out


def oracle_real_runs(tf=36000., rtol=1e-5):
    sols = [['MG', 'SI'], ['SI', 'MG']]
    precs = [['MGSI_B_P', 'MG5SI6_B_DP'], ['MG5SI6_B_DP', 'MGSI_B_P']]
    base, hits, steps = None, [], []
    for sol in sols:
        for prec in precs:
            r = real_run(sol, prec, tf)
            steps.append(r['n'])
            if base is None:
                base, b_id = r, (sol, prec)
                continue
            who = 'solutes %s / phases %s vs solutes %s / phases %s' % (b_id[0], b_id[1], sol, prec)
            if r['n'] != base['n']:
                # pycalphad warm starts depend on the call sequence (1e-10): a different step count alone is not a
                # violation, the end state must agree
                for k in base:
                    if k in ('n', 'time') or k.startswith('PSD'):
                        continue
                    a, b = base[k][-1], r[k][-1]
                    if abs(a - b) > 1e-3 * max(abs(a), abs(b)):
                        hits.append(('run_perm_equivariant', 'Al-Mg-Si run', '%s at t=%g is %r vs %r (%s; %d vs %d steps)' % (k, tf, a, b, who, base['n'], r['n'])))
                        break
                continue
            for k in base:
                if k == 'n':
                    continue
                d, _ = cmp_arrays(base[k], r[k], rtol)
                if d:
                    hits.append(('run_perm_equivariant', 'Al-Mg-Si run', '%s differs (%s): %s' % (k, who, d)))
                    break
    return hits, steps


# ==========================================================================================
# diffusion profiles: CompositionProfile.buildProfile and a stub-diffusivity run in every element order
PROFILE_FUNCS = {
    'quad': lambda a, b, zl, zr: (lambda z: a + b * ((np.asarray(z) - zl) / (zr - zl)) ** 2),
    'tanh': lambda a, b, zl, zr: (lambda z: a + b * 0.5 * (1 + np.tanh(8 * ((np.asarray(z) - zl) / (zr - zl) - 0.5)))),
}
PROFILE_ELS = ['CR', 'AL', 'CO', 'TI', 'MO']


def gen_step(rng, zl, zr):
    kind = str(rng.choice(['linear', 'step', 'single', 'bounded', 'function', 'profile']))
    v = lambda: float(rng.integers(1, 60)) / 512.0          # exact dyadic compositions
    zz = lambda: float(zl + (zr - zl) * rng.integers(0, 17) / 16.0)
    if kind == 'linear':
        return [kind, v(), v()]
    if kind == 'step':
        return [kind, v(), v(), zz()]
    if kind == 'single':
        return [kind, v(), zz()]
    if kind == 'bounded':
        a, b = sorted([zz(), zz()])
        return [kind, v(), a, b]
    if kind == 'function':
        return [kind, str(rng.choice(list(PROFILE_FUNCS))), v(), v()]
    npts = int(rng.integers(2, 5))
    zs = sorted(set(zz() for _ in range(npts))) or [zl]
    return [kind, [v() for _ in zs], zs]


def gen_profile_case(rng, idx):
    ns = int(rng.choice([2, 2, 3, 4]))
    sol = [str(e) for e in rng.choice(PROFILE_ELS, ns, replace=False)]
    zl, zr = (-1e-3, 1e-3) if rng.random() < 0.5 else (0.0, 1.0)
    N = int(rng.integers(4, 16))
    ops = []
    # every element gets at least one step; registration order is arbitrary, elements may be cleared and set again
    todo = list(rng.permutation(sol))
    pool = list(sol) + (['W'] if rng.random() < 0.15 else [])       # an element the model does not have (only warned about)
    for e in todo:
        ops.append(['add', str(e)] + gen_step(rng, zl, zr))
    for _ in range(int(rng.integers(0, 5))):
        e = str(rng.choice(pool))
        what = str(rng.choice(['add', 'set', 'set']))
        ops.append([what, e] + gen_step(rng, zl, zr))
    if rng.random() < 0.5:
        rng.shuffle(ops[:len(todo)])
    return dict(solutes=sol, zlim=[zl, zr], N=N, ops=ops, via=str(rng.choice(['profile', 'model'])))


def apply_profile_ops(c, cp=None, model=None):
    """registers the steps through the public API: CompositionProfile.add*Step / clear (op 'add', 'set' = clear + add),
    or the DiffusionModel setters setComposition* (always clear + add)"""
    zl, zr = c['zlim']
    for op in c['ops']:
        what, e, kind, args = op[0], op[1], op[2], op[3:]
        if kind == 'function':
            f = PROFILE_FUNCS[args[0]](args[1], args[2], zl, zr)
        if model is not None and what == 'set':
            if kind == 'linear':
                model.setCompositionLinear(args[0], args[1], e)
            elif kind == 'step':
                model.setCompositionStep(args[0], args[1], args[2], e)
            elif kind == 'single':
                model.setCompositionSingle(args[0], args[1], e)
            elif kind == 'bounded':
                model.setCompositionInBounds(args[0], args[1], args[2], e)
            elif kind == 'function':
                model.setCompositionFunction(f, e)
            else:
                model.setCompositionProfile(args[1], args[0], e)
            continue
        if what == 'set':
            cp.clearCompositionBuildSteps(e)
        if kind == 'linear':
            cp.addLinearCompositionStep(e, args[0], args[1])
        elif kind == 'step':
            cp.addStepCompositionStep(e, args[0], args[1], args[2])
        elif kind == 'single':
            cp.addSingleCompositionStep(e, args[0], args[1])
        elif kind == 'bounded':
            cp.addBoundedCompositionStep(e, args[0], args[1], args[2])
        elif kind == 'function':
            cp.addFunctionCompositionStep(e, f)
        else:
            cp.addProfileCompositionStep(e, args[0], args[1])


def impl_profile(c, order):
    """{element: built profile} for the model whose solutes are listed in `order`"""
    import warnings
    from kawin.diffusion.DiffusionParameters import CompositionProfile
    from kawin.diffusion import SinglePhaseModel
    with warnings.catch_warnings():
        warnings.simplefilter('ignore')
        with quiet():
            if c['via'] == 'model':
                m = SinglePhaseModel(list(c['zlim']), c['N'], ['NI'] + list(order), ['P'], thermodynamics=None, record=False)
                apply_profile_ops(c, cp=m.compositionProfile, model=m)
                x = np.zeros((len(order), c['N']))
                m.compositionProfile.buildProfile(m.elements, x, m.z)
            else:
                cp = CompositionProfile()
                apply_profile_ops(c, cp=cp)
                z = np.linspace(c['zlim'][0], c['zlim'][1], c['N'])
                x = np.zeros((len(order), c['N']))
                cp.buildProfile(list(order), x, z)
    return {e: x[i].copy() for i, e in enumerate(order)}


def expected_profile(c):
    """independent recomputation from the description of the couple: the steps registered for an element, in the
    order they were registered (a 'set' discards the earlier ones), applied to that element's own row"""
    zl, zr = c['zlim']
    z = np.linspace(zl, zr, c['N'])
    steps = {}
    for op in c['ops']:
        what, e = op[0], op[1]
        if what == 'set':
            steps[e] = []
        steps.setdefault(e, []).append(op[2:])
    out = {}
    for e in c['solutes']:
        row = np.zeros(c['N'])
        for st in steps.get(e, []):
            kind, a = st[0], st[1:]
            if kind == 'linear':
                row = np.linspace(a[0], a[1], c['N'])
            elif kind == 'step':
                row = np.where(z <= a[2], a[0], a[1]).astype(float)
            elif kind == 'single':
                k = int(np.argmin(np.abs(z - a[1])))
                row = row.copy(); row[k] = a[0]
            elif kind == 'bounded':
                row = np.where((z >= a[1]) & (z <= a[2]), a[0], row)
            elif kind == 'function':
                row = np.array(PROFILE_FUNCS[a[0]](a[1], a[2], zl, zr)(z), dtype=float)
            else:
                row = np.interp(z, a[1], a[0])
        out[e] = row
    return out


def oracle_profile(c, perms=None):
    sol = c['solutes']
    perms = perms or list(itertools.permutations(range(len(sol))))
    try:
        exp = expected_profile(c)
        res = [(pm, impl_profile(c, [sol[i] for i in pm])) for pm in perms]
    except Exception as e:
        return [('profile_equivariant', 'exception', 'building the profile raised %s: %s' % (type(e).__name__, e))]
    hits = []
    for pm, r in res:
        od = [sol[i] for i in pm]
        for e in sol:
            if not np.array_equal(r[e], exp[e]):
                k = int(np.argmax(r[e] != exp[e]))
                hits.append(('profile_equivariant', 'buildProfile',
                             'profile of %s built for a model with elements %s has x=%r at node %d; the steps registered for %s give %r '
                             '(the same couple with elements %s gives %r)' % (e, ['NI'] + od, float(r[e][k]), k, e, float(exp[e][k]),
                                                                             *next(((['NI'] + [sol[i] for i in pm2], float(r2[e][k])) for pm2, r2 in res if pm2 != pm), (['NI'] + od, float(r[e][k]))))))
                return hits
    return hits


def shrink_profile(c, pred):
    cur = c
    changed = True
    while changed:
        changed = False
        for j in range(len(cur['ops']) - 1, -1, -1):
            d = copy.deepcopy(cur)
            del d['ops'][j]
            if not all(any(op[1] == e for op in d['ops']) for e in d['solutes']):
                continue
            try:
                if pred(d):
                    cur, changed = d, True
                    break
            except Exception:
                pass
    return cur


def explore_profiles(ctx, ncases):
    hits = []
    for i in range(ncases):
        c = gen_profile_case(ctx.rng, i)
        ns = len(c['solutes'])
        perms = perms_of(ns, ctx.rng)
        hs = oracle_profile(c, perms)
        reg = []
        for op in c['ops']:
            if op[0] == 'set' and op[1] in reg:
                reg.remove(op[1])
            if op[1] not in reg:
                reg.append(op[1])
        ctx.count({'profile': c}, [e for e in reg if e in c['solutes']] != c['solutes'] or ns > 2)
        ctx.hist('profile_solutes', ns)
        for op in c['ops']:
            ctx.hist('profile_builder', op[2])
        for h in hs:
            hits.append((c,) + h)
    return hits


class NamedD:
    """closed-form interdiffusivity defined per element NAME: D(a,b) = f(T) * (2 if a == b else off(a,b)) * (1 + k_b x_b);
    answers in the order of the model it was built for"""
    K = {'CR': 1.5, 'AL': -0.8, 'CO': 0.6, 'TI': 2.2, 'MO': -0.3}

    def __init__(self, solutes, base=1e-13):
        self.sol, self.base = list(solutes), base

    def clearCache(self):
        pass

    def getInterdiffusivity(self, x, T, phase=None):
        x = np.atleast_1d(x)
        xb = dict(zip(self.sol, x))
        f = self.base * math.exp(-20000.0 / (8.314 * float(T)))
        off = lambda a, b: 0.25 * (label(a) % 7 - 3) / 3.0 + 0.1 * (label(b) % 5 - 2) / 2.0
        return np.array([[f * (2.0 if a == b else off(a, b)) * (1 + self.K[b] * xb[b]) for b in self.sol] for a in self.sol])


def stub_diffusion_build(cfg, order):
    import warnings
    from kawin.diffusion import SinglePhaseModel
    with warnings.catch_warnings():
        warnings.simplefilter('ignore')
        with quiet():
            m = SinglePhaseModel(list(cfg['zlim']), cfg['N'], ['NI'] + list(order), ['P'], thermodynamics=NamedD(order), record=False)
            m.setTemperature(cfg['T'])
            # the couple is described once, element by element, in the order cfg gives - not in the model's order
            apply_profile_ops({'zlim': cfg['zlim'], 'ops': cfg['ops']}, cp=m.compositionProfile, model=m)
    return m


def stub_diffusion_finish(m, cfg, order):
    import warnings
    from kawin.solver import SolverType
    with warnings.catch_warnings():
        warnings.simplefilter('ignore')
        with quiet():
            m.setup()
            x0 = {e: m.x[i].copy() for i, e in enumerate(order)}
            m.solve(cfg['tf'], solverType=SolverType.EXPLICITEULER, verbose=False)
    return x0, {e: m.x[i].copy() for i, e in enumerate(order)}


def stub_diffusion_run(cfg, order):
    return stub_diffusion_finish(stub_diffusion_build(cfg, order), cfg, order)


def oracle_stub_diffusion_alive(cfg):
    """several models of the same couple with different element orders alive in one process: all built first, then
    solved one after the other; then the first one reset(), described again in another registration order and solved
    again.  Each must give what it gives alone (by element name)."""
    sol = cfg['solutes']
    orders = [list(o) for o in itertools.permutations(sol)][:4]
    alone = {tuple(od): stub_diffusion_run(cfg, od) for od in orders}
    models = [(od, stub_diffusion_build(cfg, od)) for od in orders]
    hits = []
    rtol = 1e-10

    def cmp(tag, od, got):
        for which, a, b in (('initial', alone[tuple(od)][0], got[0]), ('final', alone[tuple(od)][1], got[1])):
            for e in sol:
                d, k = cmp_arrays(a[e], b[e], rtol)
                if d:
                    hits.append(('profile_equivariant', 'diffusion run, ' + tag.split(' while')[0].split(' and a')[0], '%s profile of %s of the model with elements %s %s differs from the same model run alone: %s'
                                 % (which, e, ['NI'] + od, tag, d)))
                    return True
        return False
    for od, m in models:
        if cmp('solved while models with the element lists %s are alive' % [['NI'] + o for o in orders if o != od], od, stub_diffusion_finish(m, cfg, od)):
            return hits
    # history on one object: reset, describe the couple again in reversed registration order, solve again
    od, m = models[0]
    import warnings
    with warnings.catch_warnings():
        warnings.simplefilter('ignore')
        with quiet():
            m.reset()
            keep = {}
            for op in cfg['ops']:
                if op[0] == 'set':
                    keep[op[1]] = []
                keep.setdefault(op[1], []).append(op)
            again = [o for e in reversed(list(keep)) for o in keep[e]]
            apply_profile_ops({'zlim': cfg['zlim'], 'ops': again}, cp=m.compositionProfile, model=m)
    cmp('after reset() and a second description of the couple', od, stub_diffusion_finish(m, cfg, od))
    return hits


def oracle_stub_diffusion(cfg):
    sol = cfg['solutes']
    orders = [list(o) for o in itertools.permutations(sol)][:6]
    base0, base1 = stub_diffusion_run(cfg, orders[0])
    hits = []
    rtol = 0.0 if len(sol) <= 1 else 1e-10
    for od in orders[1:]:
        x0, x1 = stub_diffusion_run(cfg, od)
        for which, a, b in (('initial', base0, x0), ('final', base1, x1)):
            for e in sol:
                d, k = cmp_arrays(a[e], b[e], rtol)
                if d:
                    hits.append(('profile_equivariant', 'diffusion run', '%s profile of %s (stub diffusivity, t=%g) differs between element lists %s and %s: %s'
                                 % (which, e, 0 if which == 'initial' else cfg['tf'], ['NI'] + orders[0], ['NI'] + od, d)))
                    return hits
    return hits


def stub_diffusion_configs(quick):
    z = [-1e-3, 1e-3]
    cfgs = [
        dict(name='ternary couple, ramps registered CR then AL', solutes=['CR', 'AL'], zlim=z, N=12, T=1473.15, tf=1.5e7,
             ops=[['set', 'CR', 'linear', 0.077, 0.359], ['set', 'AL', 'linear', 0.054, 0.062]]),
        dict(name='ternary couple, CR re-set after AL', solutes=['CR', 'AL'], zlim=z, N=12, T=1473.15, tf=1.5e7,
             ops=[['set', 'CR', 'step', 0.1, 0.3, 0.0], ['set', 'AL', 'step', 0.2, 0.05, 0.0], ['set', 'CR', 'linear', 0.1, 0.3]]),
        dict(name='quaternary couple', solutes=['CO', 'CR', 'AL'], zlim=z, N=10, T=1400.0, tf=2.0e7,
             ops=[['set', 'AL', 'step', 0.05, 0.15, 0.0], ['set', 'CO', 'linear', 0.2, 0.1], ['set', 'CR', 'bounded', 0.25, -5e-4, 5e-4], ['add', 'CR', 'single', 0.125, 0.0]]),
    ]
    cfgs.append(dict(name='mirror-symmetric ternary couple (permuted compositions coincide)', solutes=['CR', 'AL'], zlim=z, N=12, T=1473.15, tf=1.5e7,
                     ops=[['set', 'AL', 'linear', 0.05, 0.10], ['set', 'CR', 'linear', 0.10, 0.05]], alive=True))
    cfgs.append(dict(name='symmetric quaternary couple', solutes=['CO', 'CR', 'AL'], zlim=z, N=9, T=1400.0, tf=1.0e7,
                     ops=[['set', 'CO', 'step', 0.1, 0.05, 0.0], ['set', 'CR', 'step', 0.05, 0.1, 0.0], ['set', 'AL', 'linear', 0.08, 0.08]], alive=True))
    return cfgs


def explore_stub_diffusion(ctx, quick):
    hits = []
    for cfg in [c['input'] for c in corpus_raw('sdiff')] + stub_diffusion_configs(quick):
        hs = oracle_stub_diffusion(cfg)
        if cfg.get('alive'):
            hs = hs + oracle_stub_diffusion_alive(cfg)
        ctx.count({'sdiff': cfg}, True)
        ctx.cov['traces_validated_against_impl'] += min(6, math.factorial(len(cfg['solutes'])))
        for h in hs:
            hits.append((cfg,) + h)
    return hits


# ==========================================================================================
# multicomponent multi-phase runs (closed-form ternary backend of harness/c03_runs.py) whose phases differ in
# interfacial energy, molar volume and shape; every per-phase quantity handed to the backend is checked
TPH = {'T1': dict(gamma=0.15, vratio=1.0, shape=None), 'T2': dict(gamma=0.12, vratio=0.9, shape=('needle', 2.0)),
       'T3': dict(gamma=0.17, vratio=1.1, shape=None)}


class TernaryLog:
    """forwards to the closed-form ternary backend and checks, call by call, that what the model hands over for
    phase `precPhase` is that phase's own data (property text: per-phase histories do not depend on the position of
    the phase in the list - so nothing of another phase may enter a phase's growth law)"""
    def __init__(self, inner):
        self._inner = inner
        self.model = None
        self.last = {}
        self.bad = []
        self.ncalls = 0
        self.spheres = set()

    def __getattr__(self, k):
        return getattr(self._inner, k)

    def getDrivingForce(self, x, T, precPhase=None, removeCache=False, **k):
        dg, xb = self._inner.getDrivingForce(x, T, precPhase=precPhase, removeCache=removeCache, **k)
        self.last[precPhase] = (float(np.squeeze(dg)), np.array(xb, dtype=float).copy(), np.array(x, dtype=float).copy())
        return dg, xb

    def _expect(self, ph, R):
        m = self.model
        idx = list(m.phases).index(ph)
        pp = m.precipitateParameters[idx]
        R = np.asarray(R, dtype=float)
        strain = pp.strainEnergy.compute(pp.shapeFactor.normalRadii(R))
        g = pp.volume.Vm * (strain + 2 * pp.shapeFactor.thermoFactor(R) * TPH[ph]['gamma'] / R)
        return idx, pp, g

    def getGrowthAndInterfacialComposition(self, x, T, dG, R, gExtra, precPhase=None, removeCache=False, searchDir=None):
        self.ncalls += 1
        if self.model is not None and len(self.bad) < 5 and np.ndim(R) > 0:
            ph = precPhase
            idx, pp, g = self._expect(ph, R)
            note = lambda what, got, want: self.bad.append((what, 'growth law of phase %s (listed at position %d of %s) was given %s = %s; that phase\'s own value is %s'
                                                            % (ph, idx, [str(q) for q in self.model.phases], what, got, want)))
            if not np.array_equal(np.asarray(R), self.model.PBM[idx].PSDbounds):
                note('radii', np.asarray(R)[:3].tolist(), self.model.PBM[idx].PSDbounds[:3].tolist())
            elif np.shape(gExtra) != np.shape(g) or not np.allclose(gExtra, g, rtol=1e-12, atol=0):
                note('Gibbs-Thomson energies', np.asarray(gExtra, dtype=float)[:3].tolist(), np.asarray(g)[:3].tolist())
            if ph in getattr(self, 'spheres', ()) and not np.allclose(gExtra, 2 * TPH[ph]['gamma'] * pp.volume.Vm / np.asarray(R), rtol=1e-12, atol=0):
                note('Gibbs-Thomson energies (sphere: 2 gamma Vm / R)', np.asarray(gExtra, dtype=float)[:3].tolist(), (2 * TPH[ph]['gamma'] * pp.volume.Vm / np.asarray(R))[:3].tolist())
            if ph in self.last and np.array_equal(self.last[ph][2], np.array(x, dtype=float)):
                dgm = self.last[ph][0]
                if abs(float(np.squeeze(dG)) - dgm) > 1e-9 * max(abs(dgm), 1e-300):
                    note('driving force', float(np.squeeze(dG)), dgm)
                if searchDir is not None and not np.array_equal(np.asarray(searchDir, dtype=float), self.last[ph][1]):
                    note('search direction (precipitate composition)', np.asarray(searchDir).tolist(), self.last[ph][1].tolist())
        return self._inner.getGrowthAndInterfacialComposition(x, T, dG, R, gExtra, precPhase=precPhase, removeCache=removeCache, searchDir=searchDir)


STRAIN = {'needle-calc': dict(shape='needle', c=(108e9, 62e9, 28e9), eig=[0.01, 0.01, 0.002], calc=True),
          'plate-calc': dict(shape='plate', c=(120e9, 70e9, 35e9), eig=[0.002, 0.002, 0.012], calc=True),
          'needle-fixed': dict(shape='needle', c=(108e9, 62e9, 28e9), eig=[0.008, 0.008, 0.001], calc=False, ratio=1.5)}


def build_ternary(cfg, ph):
    """PrecipitateModel on the closed-form ternary backend with the phases `ph` (a sub-list of cfg['phases'] in any
    order); cfg['strain'] = {phase: key of STRAIN} gives a phase an elastic strain energy, optionally with the aspect
    ratio calculated from it"""
    import c03_runs
    from kawin.precipitation import PrecipitateModel, VolumeParameter, StrainEnergy
    m = PrecipitateModel(phases=list(ph), elements=['B', 'C'])
    nb = cfg.get('bins', (75, 50, 100))
    m.setPBMParameters(cMin=1e-10, cMax=1e-8, bins=nb[0], minBins=nb[1], maxBins=nb[2])
    m.setInitialComposition(list(cfg.get('x0', [0.02, 0.02])))
    m.setTemperature(cfg.get('T', 720.))
    a = 0.4e-9
    m.setVolumeAlpha(a ** 3, VolumeParameter.ATOMIC_VOLUME, 4)
    for p in ph:
        m.setInterfacialEnergy(TPH[p]['gamma'], phase=p)
        m.setVolumeBeta(a ** 3 / TPH[p]['vratio'], VolumeParameter.ATOMIC_VOLUME, 4, phase=p)
        m.setNucleationSite('dislocations', phase=p)
        st = (cfg.get('strain') or {}).get(p)
        if st is not None:
            st = STRAIN[st]
            m.setPrecipitateShape(st['shape'], phase=p, ratio=st.get('ratio', 1))
            se = StrainEnergy()
            se.setElasticConstants(*st['c'])
            se.setEigenstrain(list(st['eig']))
            m.setStrainEnergy(se, phase=p, calculateAspectRatio=st['calc'])
        elif TPH[p]['shape'] is not None:
            m.setPrecipitateShape(TPH[p]['shape'][0], phase=p, ratio=TPH[p]['shape'][1])
    m.setNucleationDensity(grainSize=1, dislocationDensity=1e15)
    if cfg.get('constraints'):
        m.setConstraints(**cfg['constraints'])
    apply_phase_options(m, cfg, list(ph))
    log = TernaryLog(c03_runs.StubTernary(list(ph)))
    log.spheres = set(p for p in ph if TPH[p]['shape'] is None and p not in (cfg.get('strain') or {}))
    m.setThermodynamics(log)
    log.model = m
    return m, log


def run_ternary(cfg, order):
    from kawin.solver import SolverType
    ph = [cfg['phases'][i] for i in order]
    with quiet():
        m, log = build_ternary(cfg, ph)
        capped = capped_solve(m, cfg)
    n = m.pData.n
    out = {'n': int(n), 'time': m.pData.time[:n + 1].copy(), 'temperature': m.pData.temperature[:n + 1].copy(), 'phase': {},
           'composition': m.pData.composition[:n + 1].copy(), 'bad': log.bad, 'ncalls': log.ncalls, 'capped': capped}
    for j, nm in enumerate(ph):
        d = {f: np.array(getattr(m.pData, f))[:n + 1, j].copy() for f in RUN_FIELDS}
        d['PSD'] = m.PBM[j].PSD.copy()
        d['PSDbounds'] = m.PBM[j].PSDbounds.copy()
        out['phase'][nm] = d
    return out


def oracle_truns(cfg):
    k = len(cfg['phases'])
    orders = [tuple(o) for o in (cfg.get('orders') or itertools.permutations(range(k)))]
    rtol = 0.0 if k <= 2 else 1e-9
    hits, info = [], {'steps': [], 'calls': 0}
    base = None
    for od in orders:
        r = run_ternary(cfg, od)
        info['steps'].append(r['n'])
        info['calls'] += r['ncalls']
        for what, msg in r['bad'][:1]:
            hits.append(('phase_inputs', what.split(' (')[0], msg))
        if base is None:
            base, l0 = r, [cfg['phases'][i] for i in od]
            continue
        l1 = [cfg['phases'][i] for i in od]
        if r['n'] != base['n']:
            hits.append(('run_perm_equivariant', 'multicomponent time grid', 'ternary run: listing the phases as %s takes %d steps%s to t=%g, listing them as %s takes %d steps%s'
                         % (l0, base['n'], ' (stopped by the harness)' if base.get('capped') else '', cfg['tf'], l1, r['n'], ' (stopped by the harness)' if r.get('capped') else '')))
            continue
        found = False
        for f in ('time', 'composition'):
            d, kk = cmp_arrays(base[f], r[f], rtol)
            if d:
                hits.append(('run_perm_equivariant', 'multicomponent ' + ('time grid' if f == 'time' else 'matrix history'),
                             'ternary run: %s differs between phase orders %s and %s: %s' % (f, l0, l1, d)))
                found = True
                break
        if found:
            continue
        for nm in cfg['phases']:
            for f in RUN_FIELDS + ['PSD', 'PSDbounds']:
                d, kk = cmp_arrays(base['phase'][nm][f], r['phase'][nm][f], rtol)
                if d:
                    hits.append(('run_perm_equivariant', 'multicomponent phase history', 'ternary run: %s of phase %s differs between phase orders %s and %s: %s' % (f, nm, l0, l1, d)))
                    found = True
                    break
            if found:
                break
    return hits, info


# ---- per-phase quantities derived while the model is set up ------------------------------------------------
PROBE_R = np.array([3e-10, 6e-10, 1e-9, 2e-9, 4e-9, 8e-9])


def phase_probe(m, j):
    """what the model has derived for the phase at position j once it is set up (functions are probed on fixed radii)"""
    pp = m.precipitateParameters[j]
    nm = str(m.phases[j])
    sf = pp.shapeFactor
    return {'aspect ratio function (on probe radii)': np.atleast_1d(sf.aspectRatio(PROBE_R)) * np.ones(len(PROBE_R)),
            'equilibrium aspect ratio table': np.atleast_1d(m.eqAspectRatio[j]) * np.ones(len(m.PBM[j].PSDbounds)),
            'size class bounds': m.PBM[j].PSDbounds,
            'thermodynamic shape factor (on probe radii)': np.atleast_1d(sf.thermoFactor(PROBE_R)) * np.ones(len(PROBE_R)),
            'kinetic shape factor (on probe radii)': np.atleast_1d(sf.kineticFactor(PROBE_R)) * np.ones(len(PROBE_R)),
            'equivalent radius factor (on probe radii)': np.atleast_1d(sf.eqRadiusFactor(PROBE_R)) * np.ones(len(PROBE_R)),
            'strain energy (on probe radii)': np.atleast_1d(pp.computeStrainEnergyFromR(PROBE_R)) * np.ones(len(PROBE_R)),
            'Gibbs-Thomson energy (on probe radii)': np.atleast_1d(m.particleGibbs(PROBE_R, phase=nm)),
            'Gibbs-Thomson energy (size classes)': np.atleast_1d(m.particleGibbs(phase=nm))}


def setup_probe(cfg, ph):
    with quiet():
        m, _ = build_ternary(cfg, ph)
        m.setup()
        return {str(nm): {k: np.array(v, dtype=float).copy() for k, v in phase_probe(m, j).items()} for j, nm in enumerate(ph)}


def oracle_setup(cfg):
    """property text: per-phase results do not depend on where the phase is listed.  Everything the set-up model holds
    for a phase (functions probed on fixed radii) must be what a model containing ONLY that phase holds, for every
    listing order"""
    names = list(cfg['phases'])
    k = len(names)
    ref = {nm: setup_probe(cfg, [nm])[nm] for nm in names}
    orders = [tuple(o) for o in (cfg.get('orders') or itertools.permutations(range(k)))]
    hits = []
    for od in orders:
        ph = [names[i] for i in od]
        got = setup_probe(cfg, ph)
        for nm in names:
            for q, v in got[nm].items():
                r = ref[nm][q]
                if v.shape != r.shape or not np.allclose(v, r, rtol=1e-12, atol=0, equal_nan=True):
                    hits.append(('phase_setup_local', q.split(' (')[0],
                                 '%s of phase %s listed at position %d of %s is %s; a model with that phase alone has %s'
                                 % (q, nm, ph.index(nm), ph, np.array(v).ravel()[:6].tolist(), np.array(r).ravel()[:6].tolist())))
                    break
            if hits:
                break
        if hits:
            break
    return hits, len(orders) + k


def setup_configs(quick):
    small = (30, 20, 40)
    cfgs = [dict(name='needle with calculated aspect ratio + sphere', phases=['T1', 'T2'], strain={'T1': 'needle-calc'}, bins=small),
            dict(name='calculated needle, fixed needle with strain energy, calculated plate', phases=['T1', 'T2', 'T3'],
                 strain={'T1': 'needle-calc', 'T2': 'needle-fixed', 'T3': 'plate-calc'}, bins=small, orders=[[0, 1, 2], [1, 2, 0], [2, 0, 1]])]
    if not quick:
        cfgs += [dict(name='three phases, all orders', phases=['T1', 'T2', 'T3'], strain={'T1': 'needle-calc', 'T3': 'plate-calc'}),
                 dict(name='two calculated phases', phases=['T3', 'T1'], strain={'T1': 'plate-calc', 'T3': 'needle-calc'})]
    return cfgs


def explore_setup(ctx, cfgs):
    hits = []
    for cfg in cfgs:
        t0 = time.time()
        hs, nmodels = oracle_setup(cfg)
        ctx.count({'setup': cfg}, True)
        ctx.notes.setdefault('setup_probes', []).append({'config': cfg['name'], 'models_set_up': nmodels, 'wall_s': round(time.time() - t0, 1)})
        for h in hs:
            hits.append((cfg,) + h)
    return hits


def trun_configs(quick):
    cfgs = [dict(name='ternary, two phases differing in gamma / Vm / shape', phases=['T1', 'T2'], tf=30.),
            dict(name='ternary, three phases', phases=['T1', 'T2', 'T3'], tf=4.),
            dict(name='ternary, two phases, RK4', phases=['T3', 'T2'], tf=3., solver='RK4'),
            dict(name='ternary, T1 without internal diffusion', phases=['T2', 'T1'], tf=10., options={'T1': {'infiniteDiffusion': False}}),
            dict(name='ternary, needle with aspect ratio calculated from its strain energy + sphere', phases=['T1', 'T2'],
                 strain={'T1': 'needle-calc'}, bins=(40, 30, 60), tf=0.06)]
    if not quick:
        cfgs += [dict(name='ternary, calculated needle + sphere, longer', phases=['T1', 'T2'], strain={'T1': 'needle-calc'}, tf=3.),
                 dict(name='ternary, calculated needle + calculated plate + sphere', phases=['T1', 'T3', 'T2'],
                      strain={'T1': 'needle-calc', 'T3': 'plate-calc'}, bins=(40, 30, 60), tf=0.2, orders=[[0, 1, 2], [2, 1, 0], [1, 2, 0]]),dict(name='ternary, two phases, long', phases=['T1', 'T2'], tf=500.),
                 dict(name='ternary, T1+T3, 680 K', phases=['T1', 'T3'], tf=100., T=680.),
                 dict(name='ternary, three phases, volume rule', phases=['T1', 'T2', 'T3'], tf=2., constraints=VOLCONS)]
    return cfgs


def explore_truns(ctx, cfgs):
    hits = []
    for cfg in cfgs:
        t0 = time.time()
        hs, info = oracle_truns(cfg)
        ctx.cov['traces_validated_against_impl'] += len(info['steps'])
        ctx.count({'trun': cfg}, True)
        ctx.notes.setdefault('ternary_runs', []).append({'config': cfg['name'], 'orders': len(info['steps']), 'steps': info['steps'],
                                                         'growth_calls_checked': info['calls'], 'wall_s': round(time.time() - t0, 1)})
        for h in hs:
            hits.append((cfg,) + h)
    return hits
