"""C06 - integrators reach their nominal order, also for time-dependent problems.

tie (translator): kawin/solver/Iterators.py and DESolver._getdXdt/_updateX (Solver.py) are translated
                to Gallina by harness/c06_translate.py on EVERY run (build/C06/Iterators_gen.v); the
                bridge lemmas and property theorems of coq/C06/run/ are re-checked against that text.
                The translator itself is validated by executing the generated text on exact rationals
                inside Coq (coq/C06/run/Corr.v) against the Python functions on random polynomial
                right-hand sides.
proof:          coq/C06/Properties.v (tableaus, order conditions) + coq/C06/run/GenProperties{A,B}.v.
search/oracle:  written from the property text and the docstrings, independent of the code under
                test: (1) one step compared with an independent scalar implementation of the
                documented schemes, with the times and states of every derivative call logged through
                the callback, directly and through DESolver/GenericModel; (2) the state vector given to
                an iterator is bitwise unchanged afterwards (also when f returns its argument or a
                persistent buffer); (3) empirical order under step halving on a family of smooth
                systems with closed-form solutions, autonomous and non-autonomous, scalar and vector.
"""
import json, math, copy, importlib
from fractions import Fraction
import numpy as np
from common import *
import c06_translate as tr

LEVEL = 'proof'

HEADER = '''From Coq Require Import QArith List ZArith.
Require Import Kawin.Common.Ops Kawin.Common.Out Kawin.C06.Model Kawin.C06.SpecCorr.
Require Import KawinRun.Iterators_gen KawinRun.Corr.
Import ListNotations.
Open Scope Q_scope.
'''
# the last good model only (static): available when the source is outside the translated subset
HEADER_SPEC = '''From Coq Require Import QArith List ZArith.
Require Import Kawin.Common.Ops Kawin.Common.Out Kawin.C06.Model Kawin.C06.SpecCorr.
Import ListNotations.
Open Scope Q_scope.
'''

NOMINAL = {'Euler': 1, 'RK4': 4}
NODES = {'Euler': [0.0], 'RK4': [0.0, 0.5, 0.5, 1.0]}


def impl():
    import kawin.solver.Iterators as It
    import kawin.solver.Solver as So
    from kawin.GenericModel import GenericModel
    return It, So, GenericModel


def iterator_of(name):
    It, So, _ = impl()
    return {'Euler': It.ExplicitEulerIterator, 'RK4': It.RK4Iterator}[name]


def solver_type(name):
    _, So, _ = impl()
    return {'Euler': So.SolverType.EXPLICITEULER, 'RK4': So.SolverType.RK4}[name]


# ==========================================================================================
# the family of test systems (closed-form solutions; parameters are plain floats)
def make_system(name, p):
    """returns dict(f(t, y) -> ndarray (fresh), exact(t) -> ndarray, t0, y0, autonomous, dim)"""
    t0 = p['t0']
    y0 = np.array(p['y0'], dtype=float)
    if name == 'linear':                      # y' = lam y
        lam = p['lam']
        f = lambda t, y: lam * y
        ex = lambda t: y0 * np.exp(lam * (t - t0))
        aut = True
    elif name == 'logistic':                  # y' = r y (1 - y)
        r = p['r']
        f = lambda t, y: r * y * (1.0 - y)
        ex = lambda t: y0 * np.exp(r * (t - t0)) / (1.0 - y0 + y0 * np.exp(r * (t - t0)))
        aut = True
    elif name == 'rotation':                  # u' = -w v, v' = w u
        w = p['w']
        f = lambda t, y: np.array([-w * y[1], w * y[0]])
        def ex(t):
            a = w * (t - t0)
            return np.array([y0[0] * np.cos(a) - y0[1] * np.sin(a), y0[0] * np.sin(a) + y0[1] * np.cos(a)])
        aut = True
    elif name == 'cos':                       # y' = cos(w t)
        w = p['w']
        f = lambda t, y: np.cos(w * t) * np.ones_like(y)
        ex = lambda t: y0 + (np.sin(w * t) - np.sin(w * t0)) / w
        aut = False
    elif name == 'cubic':                     # y' = a0 + a1 t + a2 t^2 + a3 t^3
        a = p['a']
        f = lambda t, y: (a[0] + a[1] * t + a[2] * t * t + a[3] * t ** 3) * np.ones_like(y)
        P = lambda t: a[0] * t + a[1] * t ** 2 / 2 + a[2] * t ** 3 / 3 + a[3] * t ** 4 / 4
        ex = lambda t: y0 + (P(t) - P(t0))
        aut = False
    elif name == 'gauss':                     # y' = -2 t y
        f = lambda t, y: -2.0 * t * y
        ex = lambda t: y0 * np.exp(-(t * t - t0 * t0))
        aut = False
    elif name == 'riccati':                   # y' = y^2 cos t
        f = lambda t, y: y * y * np.cos(t)
        ex = lambda t: 1.0 / (1.0 / y0 - (np.sin(t) - np.sin(t0)))
        aut = False
    elif name == 'linforced':                 # y' = lam y + a0 + a1 t
        lam, a0, a1 = p['lam'], p['a0'], p['a1']
        f = lambda t, y: lam * y + a0 + a1 * t
        part = lambda t: -(a0 + a1 * t) / lam - a1 / lam ** 2
        ex = lambda t: (y0 - part(t0)) * np.exp(lam * (t - t0)) + part(t)
        aut = False
    elif name == 'trot':                      # u' = -t v, v' = t u  (time-dependent coefficient)
        f = lambda t, y: np.array([-t * y[1], t * y[0]])
        def ex(t):
            a = (t * t - t0 * t0) / 2
            return np.array([y0[0] * np.cos(a) - y0[1] * np.sin(a), y0[0] * np.sin(a) + y0[1] * np.cos(a)])
        aut = False
    elif name == 'forcedosc':                 # u' = v, v' = -w^2 u + A sin(W t)
        w, W, A = p['w'], p['W'], p['A']
        f = lambda t, y: np.array([y[1], -w * w * y[0] + A * np.sin(W * t)])
        c = A / (w * w - W * W)
        def ex(t):
            # u = c sin(W t) + alpha cos(w (t-t0)) + beta sin(w (t-t0))
            alpha = y0[0] - c * np.sin(W * t0)
            beta = (y0[1] - c * W * np.cos(W * t0)) / w
            s = t - t0
            u = c * np.sin(W * t) + alpha * np.cos(w * s) + beta * np.sin(w * s)
            v = c * W * np.cos(W * t) - alpha * w * np.sin(w * s) + beta * w * np.cos(w * s)
            return np.array([u, v])
        aut = False
    else:
        raise ValueError(name)
    sysd = {'name': name, 'f': f, 'exact': ex, 't0': t0, 'y0': y0, 'autonomous': aut, 'dim': len(y0), 'span': p['span']}
    return rescale_time(sysd, p.get('tau', 1.0))


def rescale_time(sysd, tau):
    """the same problem in another unit of time: s = tau * t, dy/ds = f(s / tau, y) / tau.  Accuracy in the
    step size cannot depend on the unit (the solver's step bounds are fractions of the simulated span)"""
    if tau == 1.0:
        return sysd
    f, ex = sysd['f'], sysd['exact']
    d = dict(sysd)
    d.update(f=lambda s, y: np.asarray(f(s / tau, y), dtype=float) / tau, exact=lambda s: ex(s / tau),
             t0=sysd['t0'] * tau, span=sysd['span'] * tau, tau=tau)
    return d


SYSTEMS = ['linear', 'logistic', 'rotation', 'cos', 'cubic', 'gauss', 'riccati', 'linforced', 'trot', 'forcedosc']


def gen_params(rng, name):
    dy = lambda lo, hi: float(rng.integers(int(lo * 16), int(hi * 16) + 1)) / 16.0     # dyadic values
    p = {'t0': dy(-1, 1), 'span': float(rng.choice([1.0, 2.0]))}
    if name == 'linear':
        p.update(lam=float(rng.uniform(-2, 1)), y0=[float(rng.uniform(0.5, 2))])
    elif name == 'logistic':
        p.update(r=float(rng.uniform(0.5, 2.5)), y0=[float(rng.uniform(0.1, 0.6))])
    elif name == 'rotation':
        p.update(w=float(rng.uniform(0.5, 3)), y0=[float(rng.uniform(0.5, 1.5)), float(rng.uniform(-1, 1))])
    elif name == 'cos':
        p.update(w=float(rng.uniform(0.7, 3)), y0=[float(rng.uniform(-1, 1))])
    elif name == 'cubic':
        p.update(a=[float(rng.uniform(-2, 2)) for _ in range(4)], y0=[float(rng.uniform(-1, 1))])
    elif name == 'gauss':
        p.update(y0=[float(rng.uniform(0.5, 2))])
    elif name == 'riccati':
        p.update(y0=[float(rng.uniform(0.3, 0.42))])
    elif name == 'linforced':
        lam = float(rng.uniform(0.3, 1.5)) * float(rng.choice([-1, 1]))
        p.update(lam=lam, a0=float(rng.uniform(-1, 1)), a1=float(rng.uniform(0.5, 2)) * float(rng.choice([-1, 1])),
                 y0=[float(rng.uniform(-1, 1))])
    elif name == 'trot':
        p.update(y0=[float(rng.uniform(0.5, 1.5)), float(rng.uniform(-1, 1))])
    elif name == 'forcedosc':
        w = float(rng.uniform(1, 2.5))
        p.update(w=w, W=w + float(rng.uniform(0.7, 1.5)), A=float(rng.uniform(0.5, 2)),
                 y0=[float(rng.uniform(-1, 1)), float(rng.uniform(-1, 1))])
    return p


# ==========================================================================================
# driving the implementation
def integrate_direct(which, sysd, N):
    """N steps of the raw iterator with the plain update; returns (t_end, trajectory [(t, y)], steps)"""
    it = iterator_of(which)
    h = sysd['span'] / N
    f = sysd['f']

    def F(t, x, getDt=False):
        d = np.asarray(f(t, x), dtype=float)
        return (d, h) if getDt else d
    upd = lambda x, k, dt: x + k * dt
    t = sysd['t0']
    x = sysd['y0'].copy()
    traj = []
    for _ in range(N):
        x, dt = it(F, t, x, upd)
        t += dt
        traj.append((t, np.asarray(x, dtype=float).copy()))
    return t, traj, N


def make_model(sysd, h, log=None):
    """a GenericModel whose state is split over several arrays (exercises flatten / unflatten)"""
    _, _, GenericModel = impl()
    f = sysd['f']
    dim = sysd['dim']

    class M(GenericModel):
        def __init__(self):
            self.t = sysd['t0']
            self.parts = [sysd['y0'][i:i + 1].copy() for i in range(dim)]
            self.steps = 0
            self.traj = []

        def getCurrentX(self):
            return self.t, self.parts

        def getdXdt(self, t, x):
            if log is not None:
                log.append((float(t), np.hstack(x).copy()))
            d = np.asarray(f(t, np.hstack(x)), dtype=float)
            return [d[i:i + 1].copy() for i in range(dim)]

        def getDt(self, dXdt):
            return h

        def postProcess(self, time, x):
            self.t = time
            self.parts = x
            self.steps += 1
            self.traj.append((time, np.hstack(x).astype(float)))
            return x, False
    return M()


def integrate_solver(which, sysd, N, frac=0.0, minfrac=None):
    """through GenericModel.solve with the proposed step span / (N + frac): for frac > 0 the step does
    not divide the interval, the solver takes N proposed steps and shortens the last one to end at tf.
    minfrac: minDtFrac (None = the default of GenericModel.solve)"""
    m = make_model(sysd, sysd['span'] / (N + frac))
    kw = {} if minfrac is None else {'minDtFrac': minfrac}
    m.solve(sysd['span'], solverType=solver_type(which), maxDtFrac=1, **kw)
    return m.t, m.traj, m.steps


def integrate_desolver(which, sysd, N, frac=0.0, minfrac=None):
    """the same through a bare DESolver (flat state, identity flatten functions)"""
    _, So, _ = impl()
    f = sysd['f']
    h = sysd['span'] / (N + frac)
    kw = {} if minfrac is None else {'minDtFrac': minfrac}
    s = So.DESolver(solver_type(which), maxDtFrac=1, **kw)
    s.setdXdtFunctions(lambda t, x: np.asarray(f(t, x), dtype=float), s.correctdXdtNotImplemented, lambda d: h,
                       s.flattenXNotImplemented, s.unflattenXNotImplemented)
    traj = []
    s.setFunctions(postProcess=lambda t, x: (traj.append((t, np.asarray(x, dtype=float).copy())) or (x, False)))
    tf = sysd['t0'] + sysd['span']
    s.solve(sysd['t0'], sysd['y0'].copy(), tf)
    return (traj[-1][0] if traj else sysd['t0']), traj, len(traj)


# ==========================================================================================
# oracle 1: one step against an independent implementation of the documented scheme
def doc_step(which, f, t, x, dt):
    """the schemes as documented (Iterators.py docstrings), scalar loops; returns (x_new, calls)
    where calls = [(time, state)] in the documented order"""
    n = len(x)
    x = [float(v) for v in x]
    calls = []

    def ev(tt, xx):
        calls.append((tt, list(xx)))
        return [float(v) for v in f(tt, np.array(xx, dtype=float))]
    if which == 'Euler':
        k1 = ev(t, x)
        return [x[i] + k1[i] * dt for i in range(n)], calls
    k1 = ev(t, x)
    k2 = ev(t + dt / 2, [x[i] + k1[i] * (dt / 2) for i in range(n)])
    k3 = ev(t + dt / 2, [x[i] + k2[i] * (dt / 2) for i in range(n)])
    k4 = ev(t + dt, [x[i] + k3[i] * dt for i in range(n)])
    return [x[i] + (k1[i] + 2 * k2[i] + 2 * k3[i] + k4[i]) / 6 * dt for i in range(n)], calls


def smooth_rhs(c):
    """a smooth, genuinely time- and state-dependent right-hand side for single-step tests"""
    a = np.array(c['a'], dtype=float)
    b = np.array(c['b'], dtype=float)

    def f(t, y):
        y = np.asarray(y, dtype=float)
        return a * np.sin(t + b) + b * y * np.cos(0.5 * t) + 0.25 * np.roll(y, 1) * y + t * t
    return f


def gen_step_case(rng, which, path):
    n = int(rng.integers(1, 5))
    return {'kind': 'step', 'iterator': which, 'path': path, 'n': n,
            't': float(rng.uniform(-2, 3)), 'dt': float(10 ** rng.uniform(-3, 0)),
            'x': [float(v) for v in rng.uniform(-1.5, 1.5, n)],
            'a': [float(v) for v in rng.uniform(-1, 1, n)], 'b': [float(v) for v in rng.uniform(-1, 1, n)]}


def run_step_impl(c, rhs=None, alias=None):
    """one step of the implementation; logs every derivative call.
    alias: None (f returns a fresh array), 'buffer' (f returns the same persistent buffer each call)"""
    which, path = c['iterator'], c['path']
    f = rhs or smooth_rhs(c)
    t, dt = c['t'], c['dt']
    x = np.array(c['x'], dtype=float)
    log = []
    out = {'err': None}
    try:
        if path == 'direct':
            buf = np.zeros_like(x)

            def F(tt, xx, getDt=False):
                log.append((float(tt), np.array(xx, dtype=float).copy()))
                d = np.asarray(f(tt, xx), dtype=float)
                if alias == 'buffer':
                    buf[:] = d
                    d = buf
                return (d, dt) if getDt else d
            given = x.copy()
            xn, dtr = iterator_of(which)(F, t, x, lambda a, k, h: a + k * h)
            out.update(new=np.asarray(xn, dtype=float).copy(), dt=float(dtr), state_after=x.copy(), state_given=given,
                       same_object=(xn is x) or bool(np.shares_memory(np.asarray(xn), x)))
        else:
            sysd = {'f': f, 't0': t, 'y0': x, 'dim': len(x), 'span': dt}
            m = make_model(sysd, dt, log)
            given = [p.copy() for p in m.parts]
            held = m.parts
            m.solve(dt, solverType=solver_type(which), minDtFrac=1e-12, maxDtFrac=1)
            out.update(new=np.hstack(m.parts).astype(float), dt=float(m.t - t), state_after=np.hstack(held),
                       state_given=np.hstack(given), same_object=any(a is b for a in m.parts for b in held),
                       steps=m.steps)
    except Exception as e:
        out['err'] = type(e).__name__ + ': ' + str(e)
    out['log'] = log
    return out


def step_oracle(c, im):
    """returns list of (clause, cls, message)"""
    which = c['iterator']
    site = 'RK4Iterator' if which == 'RK4' else 'ExplicitEulerIterator'
    if im['err']:
        return [('no_internal_error', 'exception', '%s raised %s' % (site, im['err']))]
    v = []
    t, dt = c['t'], c['dt']
    x = np.array(c['x'], dtype=float)
    exp_new, exp_calls = doc_step(which, smooth_rhs(c), t, x, dt)
    log = im['log']
    if c['path'] == 'solver' and im.get('steps') != 1:
        return []          # the clock of the solver is C05's subject; a single step is needed here
    if len(log) != len(exp_calls):
        v.append(('stage_times', 'number of derivative calls', '%s called the derivative %d times per step, documented: %d'
                  % (site, len(log), len(exp_calls))))
        return v
    eps = 8 * np.finfo(float).eps
    for i, ((lt, lx), (et, exs)) in enumerate(zip(log, exp_calls)):
        if abs(lt - et) > eps * (abs(t) + abs(dt)):
            v.append(('stage_times', 'stage time', '%s: derivative call %d made at time %r, documented time t + %g*dt = %r (t=%r, dt=%r)'
                      % (site, i + 1, lt, NODES[which][i], et, t, dt)))
            break
    for i, ((lt, lx), (et, exs)) in enumerate(zip(log, exp_calls)):
        sc = 1 + np.max(np.abs(exs))
        if np.max(np.abs(lx - np.array(exs))) > 1e-12 * sc:
            v.append(('stage_states', 'stage state', '%s: derivative call %d made with state %r, documented stage state %r'
                      % (site, i + 1, [float(z) for z in lx], exs)))
            break
    if not v:
        sc = 1 + np.max(np.abs(exp_new))
        if np.max(np.abs(im['new'] - np.array(exp_new))) > 1e-12 * sc:
            v.append(('step_value', 'weights', '%s returned %r, the documented combination of the stages gives %r'
                      % (site, [float(z) for z in im['new']], exp_new)))
    if abs(im['dt'] - dt) > eps * (abs(dt) + (abs(t) if c['path'] == 'solver' else 0)):
        v.append(('step_value', 'dt', '%s returned dt=%r, proposed %r' % (site, im['dt'], dt)))
    v += purity_oracle(c, im, site)
    return v


def purity_oracle(c, im, site):
    v = []
    if im['err']:
        return v
    if not np.array_equal(im['state_after'], im['state_given']):
        v.append(('state_unchanged', 'state mutated', '%s (%s): the state vector it was given was %r and is %r afterwards'
                  % (site, c['path'], [float(z) for z in im['state_given']], [float(z) for z in im['state_after']])))
    elif im['same_object']:
        v.append(('state_unchanged', 'state aliased', '%s (%s): the returned state shares memory with the state it was given' % (site, c['path'])))
    return v


# ---- aliasing right-hand sides: y' = lam y implemented as `return lam * x` or, for lam = 1, `return x`
def gen_alias_case(rng, which, path):
    n = int(rng.integers(1, 4))
    return {'kind': 'alias', 'iterator': which, 'path': path, 'n': n, 't': float(rng.uniform(-1, 1)),
            'dt': float(rng.choice([0.5, 0.25, 0.125])), 'x': [float(v) for v in rng.uniform(0.5, 2, n)],
            'mode': str(rng.choice(['returns_argument', 'buffer']))}


def run_alias_impl(c):
    """y' = y.  mode returns_argument: f returns the very array it was given (a legitimate way to write
    y' = y); mode buffer: f returns a persistent internal buffer.  path 'direct': raw iterator;
    path 'solver': DESolver with its own default (identity) flatten / unflatten functions."""
    which = c['iterator']
    t, dt = c['t'], c['dt']
    x = np.array(c['x'], dtype=float)
    given = x.copy()
    buf = np.zeros_like(x)
    out = {'err': None, 'log': []}

    def rhs(tt, xx):
        if c['mode'] == 'returns_argument':
            return xx
        buf[:] = xx
        return buf
    try:
        if c['path'] == 'direct':
            F = lambda tt, xx, getDt=False: (rhs(tt, xx), dt) if getDt else rhs(tt, xx)
            xn, dtr = iterator_of(which)(F, t, x, lambda a, k, h: a + k * h)
        else:
            _, So, _ = impl()
            s = So.DESolver(solver_type(which), minDtFrac=1e-12, maxDtFrac=1)
            s.setdXdtFunctions(rhs, s.correctdXdtNotImplemented, lambda d: dt, s.flattenXNotImplemented, s.unflattenXNotImplemented)
            rec = []
            s.setFunctions(postProcess=lambda tt, xx: (rec.append((tt, xx)) or (xx, False)))
            s.solve(t, x, t + dt)
            if len(rec) != 1:
                out['err'] = None
                out['skip'] = True
                return out
            xn, dtr = rec[0][1], rec[0][0] - t
        out.update(new=np.asarray(xn, dtype=float).copy(), dt=float(dtr), state_after=x.copy(), state_given=given,
                   same_object=(xn is x) or bool(np.shares_memory(np.asarray(xn), x)))
    except Exception as e:
        out['err'] = type(e).__name__ + ': ' + str(e)
    return out


def alias_oracle(c, im):
    which = c['iterator']
    site = 'RK4Iterator' if which == 'RK4' else 'ExplicitEulerIterator'
    if im.get('skip'):
        return []
    if im['err']:
        return [('no_internal_error', 'exception', '%s raised %s' % (site, im['err']))]
    v = purity_oracle(c, im, site)
    h = c['dt']
    grow = 1 + h if which == 'Euler' else 1 + h + h * h / 2 + h ** 3 / 6 + h ** 4 / 24
    exp = np.array(c['x']) * grow
    # (a right-hand side that overwrites the array it returned earlier breaks any multi-stage scheme:
    #  with mode 'buffer' only the state is checked, not the value)
    if c['mode'] == 'returns_argument' and np.max(np.abs(im['new'] - exp)) > 1e-12 * (1 + np.max(np.abs(exp))):
        v.append(('step_value', 'aliasing right-hand side', "%s on y' = y (f %s): returned %r, one step of the scheme gives %r"
                  % (site, 'returns its argument' if c['mode'] == 'returns_argument' else 'returns a persistent buffer',
                     [float(z) for z in im['new']], [float(z) for z in exp])))
    return v


# ==========================================================================================
# oracle 3: empirical order under step halving
ORDER_N = {'Euler': [64, 128, 256, 512], 'RK4': [16, 32, 64, 128]}
FLOOR = 1e-11


def order_estimate(which, path, name, p, Ns=None, frac=0.0, minfrac=None):
    """frac > 0 (solver paths only): proposed step span / (N + frac), which does not divide the interval.
    Every proposed step lies within the solver's bounds [minDtFrac, maxDtFrac] * span, so the error is a
    function of the PROPOSED step size; how many steps the solver actually took is reported, not judged
    (a run that does not end at tf is the time contract's subject and is skipped)."""
    sysd = make_system(name, p)
    Ns = Ns or ORDER_N[which]
    integ = {'direct': integrate_direct, 'solver': integrate_solver, 'desolver': integrate_desolver}[path]
    errs = []
    errs_tf = []
    taken = []
    tf = sysd['t0'] + sysd['span']
    for N in Ns:
        if path == 'direct':
            t_end, traj, steps = integ(which, sysd, N)
        else:
            t_end, traj, steps = integ(which, sysd, N, frac, minfrac)
        taken.append(steps)
        if not traj or abs(t_end - tf) > 1e-9 * max(abs(tf), abs(sysd['span'])):
            return {'indeterminate': 'run with N=%d, frac=%r ended at %r, not at tf=%r' % (N, frac, t_end, tf)}
        if not all(np.all(np.isfinite(y)) for _, y in traj):
            return {'nonfinite': True, 'errs': errs}
        # global error in the maximum norm over the whole trajectory (a single time point can sit on a
        # sign change of the error)
        e = 0.0
        for tt, y in traj:
            ex = sysd['exact'](tt)
            e = max(e, float(np.max(np.abs(y - ex)) / (1 + np.max(np.abs(ex)))))
        errs.append(e)
        ex = sysd['exact'](traj[-1][0])
        errs_tf.append(float(np.max(np.abs(traj[-1][1] - ex)) / (1 + np.max(np.abs(ex)))))
    res = {'errs': errs, 'errs_tf': errs_tf, 'Ns': list(Ns), 'frac': frac, 'taken': taken, 'span': sysd['span']}
    # only step sizes whose error is clear of round-off enter the estimate; three are needed
    k = len(errs)
    while k > 0 and errs[k - 1] < FLOOR:
        k -= 1
    if k < 3 or min(errs[:k]) < FLOOR:
        res['floor'] = True                       # (nearly) exact for this system: nothing to measure
        return res
    lh = np.log(1.0 / (np.array(Ns[:k], dtype=float) + frac))
    le = np.log(np.array(errs[:k]))
    res['slope'] = float(np.polyfit(lh, le, 1)[0])
    res['last'] = float(np.log(errs[k - 2] / errs[k - 1]) / np.log((Ns[k - 1] + frac) / (Ns[k - 2] + frac)))
    res['used'] = k
    return res


def order_oracle(which, path, name, p, res):
    site = 'RK4Iterator' if which == 'RK4' else 'ExplicitEulerIterator'
    sysd_aut = make_system(name, p)['autonomous']
    cls = 'autonomous' if sysd_aut else 'non-autonomous'
    frac = res.get('frac', 0.0)
    tau = p.get('tau', 1.0)
    if tau != 1.0:
        cls += ', time unit scaled'
    elif frac > 0:
        cls += ', step size does not divide the interval'
    if 'indeterminate' in res or res.get('floor'):
        return []
    if res.get('nonfinite'):
        return [('empirical_order', cls, '%s (%s) produced a non-finite value on %s %r' % (site, path, name, p))]
    nom = NOMINAL[which]
    if res['slope'] < nom - 0.75 or res['last'] < nom - 0.75:
        how = ('N=%s steps' % res['Ns']) if frac == 0 else \
              ('proposed step span/(N+%g), N=%s, last step shortened by the solver to end at tf' % (frac, res['Ns']))
        if path != 'direct':
            how += ' (simulated span %r; the solver took %s steps)' % (res.get('span'), res.get('taken'))
        return [('empirical_order', cls,
                 '%s (%s) on %s system %s: trajectory-maximum errors %s (errors at tf %s) for %s; observed order %.2f (last refinement %.2f), nominal %d'
                 % (site, path, cls.split(',')[0], name, ['%.3g' % e for e in res['errs']], ['%.3g' % e for e in res['errs_tf']], how,
                    res['slope'], res['last'], nom))]
    return []


# sharp consequences of order four / one that need no asymptotics
def exactness_oracle(which, path, rng):
    """order p => quadrature of polynomials of degree < p is exact: one step on y' = poly(t)"""
    deg = 3 if which == 'RK4' else 0
    a = [float(v) for v in rng.uniform(-2, 2, 4)]
    for k in range(deg + 1, 4):
        a[k] = 0.0
    c = {'kind': 'exact', 'iterator': which, 'path': path, 'n': 1, 't': float(rng.uniform(-1, 1)), 'dt': float(rng.choice([1.0, 0.5, 0.25])),
         'x': [float(rng.uniform(-1, 1))], 'a': a}
    return c


def run_exact(c):
    a = c['a']
    f = lambda t, y: (a[0] + a[1] * t + a[2] * t * t + a[3] * t ** 3) * np.ones_like(np.asarray(y, dtype=float))
    im = run_step_impl(c, rhs=f)
    P = lambda t: a[0] * t + a[1] * t ** 2 / 2 + a[2] * t ** 3 / 3 + a[3] * t ** 4 / 4
    exp = c['x'][0] + P(c['t'] + c['dt']) - P(c['t'])
    return im, exp


def exact_oracle(c, im, exp):
    which = c['iterator']
    site = 'RK4Iterator' if which == 'RK4' else 'ExplicitEulerIterator'
    if im['err']:
        return [('no_internal_error', 'exception', '%s raised %s' % (site, im['err']))]
    if c['path'] == 'solver' and im.get('steps') != 1:
        return []
    if abs(im['new'][0] - exp) > 1e-12 * (1 + abs(exp)):
        deg = 3 if which == 'RK4' else 0
        return [('exact_quadrature', 'non-autonomous',
                 "%s (%s): one step of size %r on y' = polynomial of degree %d in t from (t=%r, y=%r) gives %r, the exact solution (which a method of order %d reproduces) is %r"
                 % (site, c['path'], c['dt'], deg, c['t'], c['x'][0], float(im['new'][0]), NOMINAL[which], exp))]
    return []


# ---- whole runs through the solver whose last step is cut: any sequence of RK4 (Euler) steps, of any
#      sizes, integrates y' = cubic(t) (y' = const) exactly, so the state the solver reports at tf is exact
def gen_exact_run(rng, which, path):
    deg = 3 if which == 'RK4' else 0
    a = [float(v) for v in rng.uniform(-2, 2, 4)]
    for k in range(deg + 1, 4):
        a[k] = 0.0
    dy = lambda lo, hi: float(rng.integers(int(lo * 16), int(hi * 16) + 1)) / 16.0
    c = {'kind': 'exact_run', 'iterator': which, 'path': path, 't0': dy(-1, 1), 'span': float(rng.choice([1.0, 2.0])),
         'y0': [float(rng.uniform(-1, 1))], 'a': a}
    cls = str(rng.choice(['cut', 'cut', 'crossed', 'ulp']))
    if cls == 'cut':            # the last step is shortened by the solver
        c.update(N=int(rng.integers(1, 9)), frac=float(rng.choice([0.5, 0.9, 0.25, float(rng.uniform(0.05, 0.95))])))
    elif cls == 'crossed':      # the time left for the last step is shorter than the minimum step
        c.update(N=int(rng.integers(4, 13)), frac=float(rng.uniform(0.02, 0.2)), minfrac=0.05)
    else:                       # the steps add up to tf only within rounding: a last step of a few ulp may be needed
        c.update(N=int(rng.choice([3, 5, 6, 7, 10, 12, 80, 160])), frac=0.0, span=float(rng.choice([1.0, 0.7, 3.0])))
    if rng.random() < 0.3:      # another unit of time
        c['tau'] = float(rng.choice([1e-6, 1e-3, 1e3]))
    return c


def run_exact_run(c):
    a = c['a']
    P = lambda t: a[0] * t + a[1] * t ** 2 / 2 + a[2] * t ** 3 / 3 + a[3] * t ** 4 / 4
    y0 = np.array(c['y0'], dtype=float)
    sysd = {'name': 'cubic', 'f': lambda t, y: (a[0] + a[1] * t + a[2] * t * t + a[3] * t ** 3) * np.ones_like(np.asarray(y, dtype=float)),
            'exact': lambda t: y0 + (P(t) - P(c['t0'])), 't0': c['t0'], 'y0': y0, 'dim': 1, 'span': c['span'], 'autonomous': False}
    sysd = rescale_time(sysd, c.get('tau', 1.0))
    integ = integrate_solver if c['path'] == 'solver' else integrate_desolver
    out = {'err': None, 'tf': sysd['t0'] + sysd['span'], 'h': sysd['span'] / (c['N'] + c['frac'])}
    try:
        t_end, traj, steps = integ(c['iterator'], sysd, c['N'], c['frac'], c.get('minfrac'))
        t0s = sysd['t0']
        out.update(t_end=t_end, steps=steps, y=traj[-1][1] if traj else y0, exact=sysd['exact'](sysd['t0'] + sysd['span']),
                   sizes=[float(traj[0][0] - t0s)] + [float(traj[i][0] - traj[i - 1][0]) for i in range(1, len(traj))] if traj else [])
    except Exception as e:
        out['err'] = type(e).__name__ + ': ' + str(e)
    return out


def exact_run_oracle(c, im):
    which = c['iterator']
    site = 'RK4Iterator' if which == 'RK4' else 'ExplicitEulerIterator'
    if im['err']:
        return [('no_internal_error', 'exception', '%s through the solver raised %s' % (site, im['err']))]
    tf = im['tf']
    if abs(im['t_end'] - tf) > 1e-9 * max(abs(tf), abs(im['h'])):
        return []          # where the solver stops is the time contract's subject
    ex = im['exact']
    if np.max(np.abs(im['y'] - ex)) > 1e-12 * (1 + np.max(np.abs(ex))):
        deg = 3 if which == 'RK4' else 0
        last = im['sizes'][-1] if im['sizes'] else None
        left = tf - (im['t_end'] - last) if last is not None else None
        cls = 'last step shortened by the solver'
        if c.get('minfrac') is not None and c['frac'] > 0 and c['frac'] / (c['N'] + c['frac']) < c['minfrac']:
            cls = 'time left for the last step below the minimum step'
        elif c['frac'] == 0:
            cls = 'steps add up to tf within rounding'
        return [('exact_quadrature_run', cls,
                 "%s through %s on y' = polynomial of degree %d in t (time unit %g) from (t0=%r, y0=%r) to tf=%r with proposed step %r%s, %d steps taken, the last one over %r: state at tf %r, exact %r - every sequence of steps of a method of order %d, of whatever sizes, reproduces it"
                 % (site, 'GenericModel.solve' if c['path'] == 'solver' else 'DESolver.solve', deg, c.get('tau', 1.0), tf - c['span'] * c.get('tau', 1.0), c['y0'][0], tf, im['h'],
                    '' if c.get('minfrac') is None else ' and minDtFrac=%r' % c['minfrac'], im['steps'], left,
                    [float(v) for v in im['y']], [float(v) for v in ex], NOMINAL[which]))]
    return []


# ==========================================================================================
# calling conventions, histories on one object, several objects alive: the same numbers handed over in
# another way (integer dtype, Python numbers, list / tuple, numpy scalars, 0-d arrays; positional / keyword /
# omitted optional arguments; a solver object used before; two solver objects configured differently) must
# give the documented steps.  Oracle: N documented steps (doc_step) from the float values.
REPRS_FLAT = ['float_array', 'int_array', 'list_int', 'list_float', 'tuple_int']
REPRS_PARTS = ['float_array', 'int_array', 'py_int', 'py_float', 'np_int_scalar', 'np_float_scalar', 'zero_d_int', 'zero_d_float']
CORE_REPRS = {'float_array', 'int_array', 'py_int', 'py_float', 'list_int', 'list_float'}     # an exception here is reported


def gen_convention_case(rng, which, sub):
    n = int(rng.integers(1, 4))
    c = {'kind': 'convention', 'sub': sub, 'iterator': which, 'n': n,
         't': float(rng.integers(-8, 9)) / 4.0, 'h': float(rng.choice([0.25, 0.125, 0.0625])), 'N': int(rng.integers(1, 6)),
         'x': [float(v) for v in rng.integers(-3, 4, n)],                      # whole numbers: exact in every representation
         'a': [float(v) for v in rng.uniform(-1, 1, n)], 'b': [float(v) for v in rng.uniform(-1, 1, n)]}
    if sub == 'repr':
        c['path'] = str(rng.choice(['direct', 'desolver', 'solver']))
        c['repr'] = str(rng.choice(REPRS_PARTS if c['path'] == 'solver' else REPRS_FLAT))
    elif sub == 'kwargs':
        c['path'] = str(rng.choice(['direct', 'solver', 'desolver']))
        c['style'] = str(rng.choice(['keyword', 'positional', 'omitted']))
    else:
        c['path'] = 'desolver'
    return c


def _flat_repr(x, r):
    ints = [int(v) for v in x]
    return {'float_array': lambda: np.array(x, dtype=float), 'int_array': lambda: np.array(ints, dtype=np.int64),
            'list_int': lambda: list(ints), 'list_float': lambda: [float(v) for v in x], 'tuple_int': lambda: tuple(ints)}[r]()


def _part_repr(v, r):
    return {'float_array': lambda: np.array([v], dtype=float), 'int_array': lambda: np.array([int(v)], dtype=np.int64),
            'py_int': lambda: int(v), 'py_float': lambda: float(v), 'np_int_scalar': lambda: np.int64(int(v)),
            'np_float_scalar': lambda: np.float64(v), 'zero_d_int': lambda: np.array(int(v)), 'zero_d_float': lambda: np.array(float(v))}[r]()


def _same_object_state(before, after):
    try:
        return repr(before) == repr(after)
    except Exception:
        return True


def _desolver_run(which, f, t, X0, h, N, ctor_kw=None, solver=None):
    """N steps of size h through a bare DESolver (public API); returns (final state, solver)"""
    _, So, _ = impl()
    s = solver if solver is not None else So.DESolver(solver_type(which), **(ctor_kw or {}))
    if solver is not None:
        s.setIterator(solver_type(which))
    s.setdXdtFunctions(lambda tt, xx: np.asarray(f(tt, np.asarray(xx, dtype=float)), dtype=float), s.correctdXdtNotImplemented, lambda d: h,
                       s.flattenXNotImplemented, s.unflattenXNotImplemented)
    rec = []
    s.setFunctions(postProcess=lambda tt, xx: (rec.append((tt, np.array(xx, dtype=float).copy())) or (xx, False)))
    s.solve(t, X0, t + N * h)
    return (rec[-1][1] if rec else None), len(rec), s


def run_convention(c):
    """returns dict(results=[(label, final state or None, steps)], expected, err, unchanged)"""
    It, So, GenericModel = impl()
    which = c['iterator']
    f = smooth_rhs(c)
    t, h, N, n = c['t'], c['h'], c['N'], c['n']
    x = np.array(c['x'], dtype=float)
    exp = x.copy()
    tt = t
    for _ in range(N):
        exp = np.array(doc_step(which, f, tt, exp, h)[0])
        tt += h
    out = {'expected': exp, 'results': [], 'err': None, 'unchanged': True}
    F = lambda tt_, xx, getDt=False: ((np.asarray(f(tt_, np.asarray(xx, dtype=float)), dtype=float), h) if getDt
                                      else np.asarray(f(tt_, np.asarray(xx, dtype=float)), dtype=float))
    upd = lambda a, k, dt: a + k * dt

    def model(parts, steps_h):
        class M(GenericModel):
            def __init__(self):
                self.t, self.parts, self.n = t, parts, 0
            def getCurrentX(self):
                return self.t, self.parts
            def getdXdt(self, tt_, xs):
                d = np.asarray(f(tt_, np.hstack([np.ravel(np.asarray(v, dtype=float)) for v in xs])), dtype=float)
                return [d[i:i + 1].copy() if np.ndim(p) == 1 else float(d[i]) for i, p in enumerate(parts)]
            def getDt(self, dXdt):
                return steps_h
            def postProcess(self, time, xs):
                self.t, self.last, self.n = time, xs, self.n + 1
                return xs, False
        return M()
    try:
        sub = c['sub']
        if sub == 'repr':
            if c['path'] == 'direct':
                X = _flat_repr(c['x'], c['repr'])
                keep = repr(X)
                cur, tcur = X, t
                for _ in range(N):
                    cur, dt = iterator_of(which)(F, tcur, cur, upd)
                    tcur += dt
                out['unchanged'] = repr(X) == keep
                out['results'].append((c['repr'], np.asarray(cur, dtype=float), N))
            elif c['path'] == 'desolver':
                X = _flat_repr(c['x'], c['repr'])
                keep = repr(X)
                y, steps, _ = _desolver_run(which, f, t, X, h, N)
                out['unchanged'] = repr(X) == keep
                out['results'].append((c['repr'], y, steps))
            else:
                parts = [_part_repr(v, c['repr']) for v in c['x']]
                keep = repr(parts)
                m = model(parts, h)
                m.solve(N * h, solverType=solver_type(which))
                out['unchanged'] = repr(parts) == keep
                out['results'].append((c['repr'], np.hstack([np.ravel(np.asarray(v, dtype=float)) for v in m.last]), m.n))
        elif sub == 'kwargs':
            st = c['style']
            if c['path'] == 'direct':
                it = iterator_of(which)
                cur, tcur = x.copy(), t
                for _ in range(N):
                    cur, dt = (it(f=F, t=tcur, X_old=cur, updateX=upd) if st == 'keyword' else it(F, tcur, cur, upd))
                    tcur += dt
                out['results'].append((st, np.asarray(cur, dtype=float), N))
            elif c['path'] == 'solver':
                m = model([x[i:i + 1].copy() for i in range(n)], h)
                if st == 'keyword':
                    m.solve(simTime=N * h, solverType=solver_type(which), verbose=False, vIt=10, minDtFrac=1e-8, maxDtFrac=1)
                elif st == 'positional':
                    m.solve(N * h, solver_type(which), False, 10, 1e-8, 1)
                else:
                    if which == 'RK4':
                        m.solve(N * h)                                     # RK4 is the documented default
                    else:
                        m.solve(N * h, solver_type(which))
                out['results'].append((st, np.hstack(m.last).astype(float), m.n))
            else:
                kw = {'keyword': dict(iterator=solver_type(which), defaultDT=0.1, minDtFrac=1e-8, maxDtFrac=1)}.get(st)
                if st == 'keyword':
                    s = So.DESolver(**kw)
                elif st == 'positional':
                    s = So.DESolver(solver_type(which), 0.1, 1e-8, 1)
                else:
                    s = So.DESolver() if which == 'RK4' else So.DESolver(solver_type(which))
                y, steps, _ = _desolver_run(which, f, t, x.copy(), h, N, solver=s)
                out['results'].append((st, y, steps))
        elif sub == 'reuse':
            # one solver object: a run with the OTHER scheme and other step first, then this one; the state object is re-used
            other = 'Euler' if which == 'RK4' else 'RK4'
            X = x.copy()
            _, _, s = _desolver_run(other, lambda tt_, xx: -np.asarray(xx, dtype=float), t + 1.0, X, 2 * h, 2)
            y1, st1, _ = _desolver_run(which, f, t, X, h, N, solver=s)
            y2, st2, _ = _desolver_run(which, f, t, X, h, N, solver=s)
            out['unchanged'] = bool(np.array_equal(X, x))
            out['results'] += [('after a run with the other scheme', y1, st1), ('same call repeated', y2, st2)]
        elif sub == 'interleave':
            # two solver objects alive, configured differently, set up first and run afterwards
            other = 'Euler' if which == 'RK4' else 'RK4'
            sA = So.DESolver(solver_type(which), minDtFrac=1e-8, maxDtFrac=1)
            sB = So.DESolver(solver_type(other), minDtFrac=1e-3, maxDtFrac=0.5)
            g = lambda tt_, xx: 0.5 * np.asarray(xx, dtype=float) + tt_
            expB = x.copy()
            tb = t
            for _ in range(N):
                expB = np.array(doc_step(other, g, tb, expB, h / 2)[0])
                tb += h / 2
            recA, recB = [], []
            sA.setdXdtFunctions(lambda tt_, xx: np.asarray(f(tt_, xx), dtype=float), sA.correctdXdtNotImplemented, lambda d: h, sA.flattenXNotImplemented, sA.unflattenXNotImplemented)
            sB.setdXdtFunctions(lambda tt_, xx: np.asarray(g(tt_, xx), dtype=float), sB.correctdXdtNotImplemented, lambda d: h / 2, sB.flattenXNotImplemented, sB.unflattenXNotImplemented)
            sA.setFunctions(postProcess=lambda tt_, xx: (recA.append(np.array(xx, dtype=float)) or (xx, False)))
            sB.setFunctions(postProcess=lambda tt_, xx: (recB.append(np.array(xx, dtype=float)) or (xx, False)))
            sB.solve(t, x.copy(), t + N * h / 2)
            sA.solve(t, x.copy(), t + N * h)
            out['results'].append(('first of two solvers (the other one ran in between)', recA[-1] if recA else None, len(recA)))
            out['extra'] = ('second of two solvers', recB[-1] if recB else None, len(recB), expB)
    except Exception as e:
        out['err'] = type(e).__name__ + ': ' + str(e)
    return out


def convention_oracle(c, im):
    which = c['iterator']
    site = 'RK4Iterator' if which == 'RK4' else 'ExplicitEulerIterator'
    via = {'direct': 'called directly', 'solver': 'through GenericModel.solve', 'desolver': 'through DESolver.solve'}[c['path']]
    what = {'repr': 'state given as %s' % c.get('repr'), 'kwargs': 'arguments passed %s' % c.get('style'),
            'reuse': 'solver object used before', 'interleave': 'two solver objects alive'}[c['sub']]
    if im['err']:
        if c['sub'] == 'repr' and c['repr'] not in CORE_REPRS:
            return []          # a representation the interface does not promise to accept
        return [('no_internal_error', 'calling convention: ' + c['sub'], '%s %s, %s, initial state %r: raised %s' % (site, via, what, c['x'], im['err']))]
    v = []
    checks = [(lab, y, steps, im['expected']) for lab, y, steps in im['results']]
    if 'extra' in im:
        lab, y, steps, e2 = im['extra']
        checks.append((lab, y, steps, e2))
    for lab, y, steps, exp in checks:
        if y is None or steps != c['N']:
            continue           # how many steps are taken is the time contract's subject
        y = np.ravel(np.asarray(y, dtype=float))
        if y.shape != exp.shape or np.max(np.abs(y - exp)) > 1e-12 * (1 + np.max(np.abs(exp))):
            v.append(('calling_convention', c['sub'] + (': ' + ('integer-typed state' if 'int' in c.get('repr', '') else 'other representation') if c['sub'] == 'repr' else ''),
                      '%s %s, %s (%s): %d steps of size %r from t=%r, state %r give %r; the documented steps from the same numbers give %r'
                      % (site, via, what, lab, c['N'], c['h'], c['t'], c['x'], [float(z) for z in y], [float(z) for z in exp])))
            break
    if not im.get('unchanged', True):
        v.append(('state_unchanged', 'argument object modified', '%s %s, %s: the object holding the initial state was modified' % (site, via, what)))
    return v


# ==========================================================================================
# translator validation: generated text executed on exact rationals vs the Python functions
def gen_corr_case(rng, idx):
    which = int(rng.integers(0, 4))
    n = int(rng.integers(1, 4))
    dy = lambda lo, hi, q=8: float(rng.integers(int(lo * q), int(hi * q) + 1)) / q
    exact = bool(rng.random() < 0.3)
    if exact:
        P = [[dy(-2, 2) for _ in range(6)] for _ in range(n)]
        y = [dy(-2, 2) for _ in range(n)]
        t, h0 = dy(-2, 2), float(rng.choice([0.5, 0.25, 1.0]))
    else:
        # 20 fractional bits: exact rational arithmetic on four nested polynomial stages stays cheap
        q20 = lambda v: float(np.round(float(v) * 2 ** 20) / 2 ** 20)
        P = [[q20(v) for v in rng.uniform(-1.5, 1.5, 6)] for _ in range(n)]
        y = [q20(v) for v in rng.uniform(-1.5, 1.5, n)]
        t, h0 = q20(rng.uniform(-2, 2)), q20(10 ** rng.uniform(-2.5, 0))
    c = {'kind': 'corr', 'which': which, 'n': n, 'P': P, 'y': y, 't': t, 'h0': h0, 'exact': exact,
         'h1': float(rng.choice([0.0, 0.125, 0.5])),
         'dtmin': float(rng.choice([1e-6, 0.05, 0.3])), 'dtmax': float(rng.choice([10.0, 0.4, 0.1]))}
    if c['dtmin'] > c['dtmax']:
        c['dtmin'], c['dtmax'] = 0.05, 0.4
    # the remaining time can be shorter than the minimum step: the bounds in force then cross
    if which >= 2 and rng.random() < 0.25:
        c['dtmax'] = c['dtmin'] * float(rng.choice([0.5, 0.125, 0.9]))
    # the run is made over a span T (power of two, larger than every step): the constructor's fractions of the
    # span (attributes dtmin / dtmax) are then other numbers than the bounds in force, dtmin = fmin * T exactly
    c['T'] = float(rng.choice([16.0, 32.0, 64.0]))
    c['fmin'] = c['dtmin'] / c['T']
    c['fmax'] = c['dtmax'] / c['T']
    return c


def poly_rhs_py(P):
    P = [list(p) for p in P]
    n = len(P)

    def f(t, y):
        return np.array([P[i][0] + P[i][1] * t + P[i][2] * (t * t) + P[i][3] * y[i] + P[i][4] * (t * y[i]) + P[i][5] * (y[i] * y[(i + 1) % n])
                         for i in range(n)], dtype=float)
    return f


def run_corr_impl(c):
    It, So, GenericModel = impl()
    f = poly_rhs_py(c['P'])
    y = np.array(c['y'], dtype=float)
    n = c['n']
    out = {'err': None}
    try:
        if c['which'] in (0, 1):
            it = It.ExplicitEulerIterator if c['which'] == 0 else It.RK4Iterator
            F = lambda t, x, getDt=False: (f(t, x), c['h0']) if getDt else f(t, x)
            xn, dt = it(F, c['t'], y, lambda a, k, h: a + k * h)
        else:
            # PUBLIC API only: the first step of DESolver.solve over a span T (a power of two, so that the
            # bounds in force are exactly minDtFrac * T = dtmin and maxDtFrac * T = dtmax), observed through
            # the user hooks: correctdXdt receives the step of every update (the last one is the full step),
            # postProcess receives the new state and stops the run
            T = c['T']
            s = So.DESolver(So.SolverType.EXPLICITEULER if c['which'] == 2 else So.SolverType.RK4,
                            minDtFrac=c['fmin'], maxDtFrac=c['fmax'])
            X0 = [y[i:i + 1].copy() for i in range(n)]
            gm = GenericModel.__new__(GenericModel)

            def fl(t, X):
                d = f(t, np.hstack(X))
                return [d[i:i + 1].copy() for i in range(n)]

            seen_dt, seen = [], []

            def corr(dt, X, dXdt):                   # a model that does not correct derivatives
                seen_dt.append(float(dt))

            def post(tnew, X):
                seen.append((float(tnew), np.hstack(X).astype(float).copy()))
                return X, True

            getdt = lambda dXdt: c['h0'] + c['h1'] * float(np.hstack(dXdt)[0]) ** 2
            s.setdXdtFunctions(fl, corr, getdt, lambda X: GenericModel.flattenX(gm, X), lambda Xf, Xr: GenericModel.unflattenX(gm, Xf, Xr))
            s.setFunctions(postProcess=post)
            s.solve(c['t'], X0, c['t'] + T)
            if len(seen) != 1:
                raise RuntimeError('the run did not stop after the first step (%d post-processing calls)' % len(seen))
            xn = seen[0][1]
            dt = seen_dt[-1] if seen_dt else seen[0][0] - c['t']
        out.update(new=[float(v) for v in np.asarray(xn, dtype=float)], dt=float(dt))
    except Exception as e:
        out['err'] = type(e).__name__ + ': ' + str(e)
    return out


def corr_term(c, im, both):
    rt = '(1 # 1125899906842624)' if (c['exact'] and c['which'] in (0, 2)) else '(1 # 68719476736)'
    if both:
        return 'check06both %s %s %s %s %s %s %s %s %s %s %s %s %s' % (
            natlit(c['which']), rt, qlistlist(c['P']), qlit(c['h0']), qlit(c['h1']), qlit(c.get('fmin', 1e-8)), qlit(c.get('fmax', 1.0)),
            qlit(c['dtmin']), qlit(c['dtmax']), qlit(c['t']), qlist(c['y']), qlist(im['new']), qlit(im['dt']))
    return 'check06s %s %s %s %s %s %s %s %s %s %s %s' % (
        natlit(c['which']), rt, qlistlist(c['P']), qlit(c['h0']), qlit(c['h1']), qlit(c['dtmin']), qlit(c['dtmax']),
        qlit(c['t']), qlist(c['y']), qlist(im['new']), qlit(im['dt']))


WHICH = ['ExplicitEulerIterator', 'RK4Iterator', 'ExplicitEulerIterator through DESolver.solve', 'RK4Iterator through DESolver.solve']


def describe_corr(c, im, r, what):
    """message for a disagreement r = ((verdict, dt_ok), tie) between the implementation and a model"""
    (verdict, dt_ok), tie = r
    if tie:
        return None
    head = '%s, t=%r, state %r' % (WHICH[c['which']], c['t'], c['y'])
    if c['which'] >= 2:
        head += ', first step of a run over a span %r, model proposes dt=h0+h1*d0^2 with h0=%r h1=%r, step bounds in force minDtFrac*span=%r maxDtFrac*span=%r (minDtFrac=%r maxDtFrac=%r)' % (
            c.get('T'), c['h0'], c['h1'], c['dtmin'], c['dtmax'], c.get('fmin'), c.get('fmax'))
    else:
        head += ', dt=%r' % c['h0']
    if not dt_ok:
        return ('step_size', '%s: the implementation takes the step %r, %s takes another one' % (head, im['dt'], what))
    if verdict is not None:
        k, ap = verdict[1]
        return ('state', '%s: component %d of the new state is %r, %s gives %r' % (
            head, k, im['new'][k] if k < len(im['new']) else None, what, float(tofrac(ap))))
    return None


def eval_corr(ctx, cases, impls, both, name='corr', quick=True):
    ok_idx = [i for i, im in enumerate(impls) if im['err'] is None and all(math.isfinite(v) for v in im['new'])]
    res = ctx.coq_eval(name, HEADER if both else HEADER_SPEC, [corr_term(cases[i], impls[i], both) for i in ok_idx],
                       shard=max(4, -(-len(ok_idx) // (8 if quick else 16))))
    return ok_idx, res


def corr_case_oracle(ctx, c):
    """one correspondence case against the last good model (used by replay and by the shrinker)"""
    im = run_corr_impl(c)
    if im['err']:
        return [('no_internal_error', 'exception', '%s raised %s' % (WHICH[c['which']], im['err']))]
    ok_idx, res = eval_corr(ctx, [c], [im], False, name='corr_replay_%d' % ctx._replay_k)
    if not ok_idx:
        return [('solver_step', 'non-finite', 'non-finite result')]
    r = res[0]
    d = describe_corr(c, im, ((r[0], r[1]), r[2]), 'the last good model (coq/C06/Model.v: spec_clamp, spec_euler_step, spec_rk4_step)')
    return [('solver_step', 'step size clamp' if d[0] == 'step_size' else 'new state', d[1])] if d else []


# ==========================================================================================
def hexcase(c):
    d = {}
    for k, v in c.items():
        if isinstance(v, float):
            d[k] = hexf(v)
        elif isinstance(v, list) and v and isinstance(v[0], float):
            d[k] = [hexf(x) for x in v]
        elif isinstance(v, list) and v and isinstance(v[0], list):
            d[k] = [[hexf(x) for x in r] for r in v]
        elif isinstance(v, dict):
            d[k] = hexcase(v)
        else:
            d[k] = v
    return d


def unhex(c):
    def u(v):
        if isinstance(v, str):
            try:
                return float.fromhex(v) if v.lstrip('-').startswith('0x') else v
            except ValueError:
                return v
        if isinstance(v, list):
            return [u(x) for x in v]
        if isinstance(v, dict):
            return {k: u(x) for k, x in v.items()}
        return v
    return u(c)


def evaluate_case(c):
    """run one case of any kind on the implementation; returns list of (clause, cls, message)"""
    k = c['kind']
    if k == 'step':
        return step_oracle(c, run_step_impl(c))
    if k == 'alias':
        return alias_oracle(c, run_alias_impl(c))
    if k == 'exact':
        im, exp = run_exact(c)
        return exact_oracle(c, im, exp)
    if k == 'order':
        res = order_estimate(c['iterator'], c['path'], c['system'], c['params'], frac=c.get('frac', 0.0), minfrac=c.get('minfrac'))
        return order_oracle(c['iterator'], c['path'], c['system'], c['params'], res)
    if k == 'exact_run':
        return exact_run_oracle(c, run_exact_run(c))
    if k == 'convention':
        return convention_oracle(c, run_convention(c))
    raise ValueError('unknown case kind %r' % k)


def site_of(c):
    return 'kawin/solver/Iterators.py:' + ('RK4Iterator' if c['iterator'] == 'RK4' else 'ExplicitEulerIterator') + \
           ('' if c.get('path', 'direct') == 'direct' else ' via DESolver')


def corpus_cases():
    out = []
    p = os.path.join(VERIF, 'corpus', 'C06')
    if os.path.isdir(p):
        for f in sorted(os.listdir(p)):
            if f.endswith('.json'):
                c = unhex(json.load(open(os.path.join(p, f))))
                c['corpus'] = f
                out.append(c)
    return out


def shrink_step(c, clause, cls):
    """smaller dimension / rounder numbers while the same clause keeps failing"""
    cur = c
    for cand in _shrinks(c):
        try:
            if any(h[0] == clause and h[1] == cls for h in evaluate_case(cand)):
                cur = cand
                break
        except Exception:
            pass
    return cur


def _shrinks(c):
    if c['kind'] in ('step', 'alias') and c.get('n', 1) > 1:
        d = dict(c)
        d['n'] = 1
        for k in ('x', 'a', 'b'):
            if k in d:
                d[k] = d[k][:1]
        d2 = dict(d)
        d2.update(t=0.0, dt=1.0)
        yield d2
        yield d
    if c['kind'] in ('step', 'alias', 'exact'):
        d = dict(c)
        d.update(t=0.0, dt=1.0)
        yield d
    if c['kind'] == 'convention':
        d = dict(c)
        d.update(n=1, x=c['x'][:1], a=c['a'][:1], b=c['b'][:1], N=1)
        yield d
        d = dict(c)
        d.update(N=1)
        yield d
    if c['kind'] == 'exact_run':
        simple = [0.0, 1.0, 0.0, 0.0] if c['iterator'] == 'RK4' else [1.0, 0.0, 0.0, 0.0]
        d = dict(c)
        d.update(t0=0.0, span=1.0, y0=[0.0], N=1, frac=0.5, a=simple)
        yield d
        d = dict(c)
        d.update(t0=0.0, span=1.0, y0=[0.0], a=simple)
        d.pop('tau', None)
        yield d
        d = dict(c)
        d.update(t0=0.0, y0=[0.0], a=simple)
        yield d


def search(ctx, quick, budget=1.0):
    """the independent oracle on the implementation; returns list of (case, clause, cls, message)"""
    rng = ctx.rng
    hits = []
    cases = []
    nstep = int((30 if quick else 300) * budget)
    for which in ('Euler', 'RK4'):
        for path in ('direct', 'solver'):
            cases += [gen_step_case(rng, which, path) for _ in range(nstep)]
            cases += [exactness_oracle(which, path, rng) for _ in range(max(4, nstep // 4))]
            cases += [gen_alias_case(rng, which, path) for _ in range(max(4, nstep // 4))]
        for path in ('solver', 'desolver'):
            cases += [gen_exact_run(rng, which, path) for _ in range(max(4, nstep // 4))]
        for sub, k in (('repr', 3), ('kwargs', 1), ('reuse', 1), ('interleave', 1)):
            cases += [gen_convention_case(rng, which, sub) for _ in range(max(2, nstep * k // 3))]
    nord = int((3 if quick else 25) * budget)
    for name in SYSTEMS:
        for which in ('Euler', 'RK4'):
            for path in ('direct', 'solver'):
                for j in range(max(1, nord)):
                    c = {'kind': 'order', 'iterator': which, 'path': path, 'system': name, 'params': gen_params(rng, name)}
                    if path == 'solver' and j % 3 != 0:
                        # proposed step sizes that do not divide the interval: the solver shortens the last step
                        c['frac'] = [0.0, 0.5, float(rng.uniform(0.05, 0.95))][j % 3]
                        if rng.random() < 0.5:
                            c['path'] = 'desolver'
                    if path == 'solver':
                        # the default minimum step fraction unless stated; sometimes another unit of time
                        if rng.random() < 0.3:
                            c['minfrac'] = 1e-12
                        if rng.random() < 0.4:
                            c['params']['tau'] = float(rng.choice([1e-8, 1e-6, 1e-3, 1e3, 1e6]))
                    cases.append(c)
    for c in cases:
        try:
            hs = evaluate_case(c)
        except Exception as e:
            hs = [('no_internal_error', 'exception', 'evaluating %s case raised %s: %s' % (c['kind'], type(e).__name__, e))]
        ctx.count(hexcase(c), True)
        ctx.hist('kind', c['kind'])
        ctx.hist('iterator/path', c['iterator'] + '/' + c.get('path', 'direct'))
        if c['kind'] == 'convention':
            ctx.hist('convention', c['sub'] + ('/' + c['repr'] if c['sub'] == 'repr' else '') + '/' + c['path'])
        if c['kind'] == 'order':
            ctx.hist('system', c['system'])
            ctx.hist('order_step_size', 'divides the interval' if c.get('frac', 0.0) == 0 else 'does not divide (last step cut)')
            ctx.hist('time_unit', c['params'].get('tau', 1.0))
        for h in hs:
            hits.append((c, *h))
    return hits, len(cases)


def report_hits(ctx, hits):
    seen = set()
    for (c, clause, cls, msg) in hits:
        if c['kind'] == 'corr':
            site = ('kawin/solver/Iterators.py:' + WHICH[c['which']]) if c['which'] < 2 else \
                   'kawin/solver/Solver.py:DESolver.solve first step (%s)' % ('Euler' if c['which'] == 2 else 'RK4')
            if (clause, cls, site) in seen:
                continue
            seen.add((clause, cls, site))
            ctx.violation(clause, {'site': site, 'cls': cls},
                          {'kind': 'input', 'input': hexcase(c), 'decimal': c, 'observed': msg,
                           'oracle': 'the last good model of one solver step (coq/C06/Model.v spec_clamp / spec_euler_step / spec_rk4_step), executed on exact rationals inside Coq on the same input'},
                          msg)
            continue
        site = 'kawin/solver/Iterators.py:' + ('RK4Iterator' if c['iterator'] == 'RK4' else 'ExplicitEulerIterator')
        if c['kind'] == 'convention' and c.get('path') != 'direct':
            site = 'kawin/solver/Solver.py:DESolver (%s)' % c['iterator']
        elif c['kind'] == 'exact_run' or (c['kind'] == 'order' and c.get('path', 'direct') != 'direct'
                                          and (c.get('frac', 0.0) > 0 or c['params'].get('tau', 1.0) != 1.0)):
            site = 'kawin/solver/Solver.py:DESolver.solve (%s)' % c['iterator']
        if (clause, cls, site) in seen:
            continue
        seen.add((clause, cls, site))
        small = shrink_step(c, clause, cls) if (c['kind'] != 'order' and not c.get('from_corpus')) else c
        msgs = [h[2] for h in evaluate_case(small) if h[0] == clause and h[1] == cls] if small is not c else [msg]
        ctx.violation(clause, {'site': site, 'cls': cls},
                      {'kind': 'input', 'input': hexcase(small), 'decimal': small, 'observed': msgs[0] if msgs else msg,
                       'oracle': 'independent recomputation from the docstrings / property text (harness/c06.py)'},
                      msgs[0] if msgs else msg)


# ==========================================================================================
def regenerate(ctx):
    """translate the current source; returns (ok, info or error text)"""
    ip = os.path.join(REPO, 'kawin', 'solver', 'Iterators.py')
    sp = os.path.join(REPO, 'kawin', 'solver', 'Solver.py')
    try:
        text, info = tr.translate(open(ip).read(), open(sp).read())
    except tr.TranslationError as e:
        return False, 'translator: ' + str(e)
    except Exception as e:
        return False, 'translator failed unexpectedly: %s: %s' % (type(e).__name__, e)
    path = os.path.join(ctx.build, 'Iterators_gen.v')
    open(path, 'w').write(text)
    ok, out = ctx.coqc(path)
    if not ok:
        return False, 'generated file does not compile: ' + out[-600:]
    return True, info


def dynamic_identity_check():
    """the functions that run are the ones that were translated"""
    It, So, _ = impl()
    probs = []
    exp_file = os.path.realpath(os.path.join(REPO, 'kawin', 'solver', 'Iterators.py'))
    for nm in ('ExplicitEulerIterator', 'RK4Iterator'):
        fn = getattr(It, nm)
        if os.path.realpath(fn.__code__.co_filename) != exp_file:
            probs.append('%s is loaded from %s, translated file is %s' % (nm, fn.__code__.co_filename, exp_file))
    if So.DESolver(So.SolverType.RK4).iterator is not It.RK4Iterator or So.DESolver(So.SolverType.EXPLICITEULER).iterator is not It.ExplicitEulerIterator:
        probs.append('DESolver does not dispatch SolverType to the translated iterators')
    return probs


def correspondence(ctx, quick, tie_ok):
    """the implementation against (a) the generated text [translator validation, when there is one] and
    (b) the last good model, both executed on exact rationals inside Coq.
    returns (disagreements with the generated text, hits against the last good model)"""
    if tie_ok:
        shutil.copy(os.path.join(COQ, 'C06', 'run', 'Corr.v'), os.path.join(ctx.build, 'Corr.v'))
        ok, out = ctx.coqc(os.path.join(ctx.build, 'Corr.v'))
        if not ok:
            return [('corr-build', None, 'coq/C06/run/Corr.v does not compile against the generated text: ' + out[-400:])], []
    n = 120 if quick else 2000
    cases = [gen_corr_case(ctx.rng, i) for i in range(n)]
    impls = [run_corr_impl(c) for c in cases]
    ok_idx, res = eval_corr(ctx, cases, impls, tie_ok, quick=quick)
    dis, hits = [], []
    for i, r in zip(ok_idx, res):
        c = cases[i]
        ctx.count(hexcase(c), True)
        ctx.hist('corr_which', ['Euler', 'RK4', 'Euler via solver', 'RK4 via solver'][c['which']])
        if c['which'] >= 2:
            ctx.hist('corr_bounds', 'crossed (remaining time < minimum step)' if c['dtmax'] < c['dtmin'] else 'ordered')
        # Coq prints ((a, b), c) as (a, b, c): one opinion is (verdict, dt_ok, tie), two are (v, d, t, (v', d', t'))
        if tie_ok:
            rg, rs = ((r[0], r[1]), r[2]), ((r[3][0], r[3][1]), r[3][2])
        else:
            rg, rs = None, ((r[0], r[1]), r[2])
        if rs[1]:
            ctx.notes['indeterminate_near_tie'] = ctx.notes.get('indeterminate_near_tie', 0) + 1
            continue
        if rg is not None:
            d = describe_corr(c, impls[i], rg, 'the text generated from the current source')
            if d:
                dis.append((d[0], c, d[1]))
        d = describe_corr(c, impls[i], rs, 'the last good model (coq/C06/Model.v: spec_clamp, spec_euler_step, spec_rk4_step)')
        if d:
            hits.append((c, 'solver_step', 'step size clamp' if d[0] == 'step_size' else 'new state', d[1]))
    for i, im in enumerate(impls):
        if i not in ok_idx:
            hits.append((cases[i], 'no_internal_error', 'exception', '%s raised %s' % (WHICH[cases[i]['which']], im['err']) if im['err'] else 'non-finite result'))
    ctx.cov['traces_validated_against_impl'] = len(ok_idx)
    return dis, hits


RUN_FILES = ['C06/run/BridgeA.v', 'C06/run/GenPropertiesA.v', 'C06/run/BridgeAut.v', 'C06/run/GenPropertiesAut.v',
             'C06/run/BridgeB.v', 'C06/run/GenPropertiesB.v', 'C06/run/BridgeS.v', 'C06/run/GenPropertiesS.v',
             'C06/run/BridgeC.v', 'C06/run/GenPropertiesC.v']


def run(ctx):
    quick = ctx.quick
    ctx.cov['rule'] = ('single steps: random t, dt in [1e-3, 1], dimension 1-4, smooth time- and state-dependent right-hand side, raw iterator and '
                       'through GenericModel.solve (state split over several arrays); aliasing right-hand sides (f returns its argument / a persistent '
                       'buffer); exact-quadrature steps; empirical order on 10 systems (3 autonomous, 7 non-autonomous; 6 scalar, 4 vector valued / '
                       'time-dependent coefficients) with random parameters, 4 step sizes each - raw iterator, GenericModel.solve and bare DESolver, with step sizes that divide the interval and (solver paths) step sizes span/(N+frac) that do not, so that the solver shortens the last step; whole runs with a cut last step on exactly integrable right-hand sides; translator validation on random polynomial '
                       'right-hand sides; every case counts as non-trivial; distinct by hash of the exact input')
    # ---- 1. regenerate the model of the code -------------------------------------------------
    tie_ok, info = regenerate(ctx)
    failed = []
    if tie_ok:
        ctx.notes['translator'] = info
        ctx.notes['generated_sha256'] = info['sha256']
        # ---- 2. prove ------------------------------------------------------------------------
        axioms, failed = ctx.prove(['C06/Properties.v'] + RUN_FILES)
        bridgeB_ok = not any(e['file'] == 'C06/run/BridgeB.v' for e in ctx.notes.get('coq_errors', []))
        if not bridgeB_ok:
            # does the generated text provably ignore the stage times?  (diagnostic, see run/Refuted.v)
            shutil.copy(os.path.join(COQ, 'C06', 'run', 'Refuted.v'), os.path.join(ctx.build, 'Refuted.v'))
            ok, out = ctx.coqc(os.path.join(ctx.build, 'Refuted.v'))
            ctx.notes['rk4_time_refuted'] = bool(ok)
    else:
        ctx.notes['tie_broken'] = info
        # static theorems still count; the theorems about the generated text cannot be checked
        axioms, failed0 = ctx.prove(['C06/Properties.v'])
        failed = list(failed0)
        for rel in RUN_FILES:
            thms = re.findall(r'^\s*Theorem\s+([A-Za-z_0-9\']+)', open(os.path.join(COQ, rel)).read(), re.M)
            ctx.cov['obligations'] += len(thms)
            failed += thms
    # ---- 3. the functions that run are the translated ones -------------------------------------
    ident = dynamic_identity_check()
    # ---- 4. corpus + search with the independent oracle (always) -------------------------------
    hits = []
    for c in corpus_cases():
        name = c.pop('corpus')
        c['from_corpus'] = name
        try:
            hs = evaluate_case(c)
        except Exception as e:
            hs = [('no_internal_error', 'exception', 'corpus case %s raised %s' % (name, e))]
        ctx.count(hexcase(c), True)
        ctx.hist('kind', 'corpus')
        hits += [(c, *h) for h in hs]
    shits, ncases = search(ctx, quick)
    hits += shits
    # ---- 5. translator validation ---------------------------------------------------------------
    #         and the implementation against the last good model (also when the translator rejected the source)
    dis = []
    try:
        dis, chits = correspondence(ctx, quick, tie_ok)
        hits += chits
    except Exception as e:
        dis = [('corr-crash', None, 'correspondence could not be evaluated: %s' % e)]
    ctx.notes['disagreements'] = len(dis)
    ctx.notes['oracle_hits'] = len(hits)
    broken = (not tie_ok) or failed or dis or ident
    if broken and not hits:
        more, _ = search(ctx, quick, budget=4.0)
        hits += more
    report_hits(ctx, hits)
    if not hits:
        if not tie_ok:
            ctx.violation('translator', {'site': 'harness/c06_translate.py', 'cls': 'unsupported source'},
                          {'broken': {'tie': 'translator', 'error': info, 'files': ['kawin/solver/Iterators.py', 'kawin/solver/Solver.py']}},
                          'tie broken: the source is outside the translated subset (%s); the empirical search found no failing input' % info, no_input=True)
        else:
            for t in failed:
                ctx.violation(t, {'site': 'coq/C06', 'cls': 'proof'},
                              {'broken': {'theorem': t, 'errors': ctx.notes.get('coq_errors', [])[:2]}},
                              'theorem %s no longer checks against the text generated from the current source' % t, no_input=True)
        for kind, c, d in dis[:1]:
            ctx.violation('correspondence', {'site': 'harness/c06_translate.py', 'cls': kind},
                          {'broken': {'correspondence': 'generated text (Qops) vs kawin/solver', 'first_disagreement': d},
                           'input': hexcase(c) if c else None, 'disagreements': len(dis)},
                          'generated model and implementation disagree (%d cases), e.g. %s' % (len(dis), d), no_input=True)
        for pr in ident:
            ctx.violation('identity', {'site': 'kawin/solver', 'cls': 'dispatch'}, {'broken': {'identity': pr}}, pr, no_input=True)
    elif failed or not tie_ok:
        ctx.notes['unchecked_theorems'] = failed
    ctx.assumptions += [
        'Butcher\'s theorem (order conditions + row-sum condition => local error O(h^(p+1)) for every smooth right-hand side) is mathematical background and is not formalised; what is proved is that the generated iterators ARE the Runge-Kutta steps of tableaus satisfying those conditions, plus exactness / explicit-defect identities on polynomial, linear and forced-linear families (scalar and on arbitrary vector spaces)',
        'flatten / unflatten of DESolver are modelled as the identity on the flat state (reshape only); sampled with a state split over several arrays',
        'numpy semantics assumed by the translator: `a = b` between arrays aliases, `a += e` updates in place, binary operators and updateX return fresh arrays',
        'state non-mutation is a harness check (the Gallina model is pure): raw iterator and DESolver, fresh / self-returning / buffered right-hand sides',
        'empirical order: least-squares slope of the trajectory-maximum error over 4 step sizes >= nominal - 0.75 and last halving >= nominal - 0.75; step sizes whose error is below 1e-11 (round-off) are not used, fewer than three usable step sizes count as exact']
    ctx.cov['trusted_base'] += ['Coq 8.16.1 kernel (and vm_compute for the order conditions and the translator validation)',
                                'translator harness/c06_translate.py (fail-closed; validated on every run by executing its output against the Python functions)',
                                'float -> Q transport and output parser in harness/common.py',
                                'closed-form solutions of the test systems in harness/c06.py (numpy libm)']


def replay(ctx, obj):
    c = unhex(obj.get('input') or obj)
    c.pop('corpus', None)
    hits = corr_case_oracle(ctx, c) if c.get('kind') == 'corr' else evaluate_case(c)
    for h in hits:
        print('replay:', h)
    print('replay: %d oracle violations on this input' % len(hits))
    return 1 if hits else 0
