"""C16 - elastic strain energy is a positive, volume-proportional quadratic form.

tie (translator):     kawin/precipitation/parameters/ElasticFactors.py is translated to Gallina on EVERY run
                      (harness/c16_translate.py -> build/C16/Elastic_gen.v): Voigt index maps, vector maps,
                      invert4rankTensor form, elasticConstantToC, moduliToC (15 branches + compliance matrix),
                      Khachaturyan, _ohm_quickInverse, _n, _beta, scalar prefactors, rotation setters.
                      coq/C16/run/Bridge{Maps,Formulas,Moduli,Fix}.v prove generated = model, run/GenProperties*.v restate the theorems.
                      The generated definitions are validated pointwise against the running Python functions
                      (interval enclosures / exact tables).
tie (execution):      the hand-written tensor model (coq/C16/Model.v: conversions, rotations, Ohm term, sum over
                      the grid points, Dijkl, Sijmn, the four energies, StrainEnergy setters/update) is executed on
                      exact rationals inside Coq (coq/C16/Corr.v, BigQ) stage by stage on what the implementation
                      has just computed (np.linalg.inv and _ohm_inverse are observed, not replaced).
proof:                coq/C16/Properties.v + run/GenProperties{Maps,Formulas,Moduli,Fix}.v
search / oracle:      written from the property text, elasticity textbooks (Eshelby tensor of a sphere / of an
                      ellipsoid through the I-integrals, closed-form energies) and the definition of a quadrature
                      of given order; independent of the code under test.  SAMPLED ONLY: positivity, Eshelby
                      components, Lebedev exactness, rotation invariance on the shipped quadratures.
"""
import json, math, copy, itertools, warnings
from fractions import Fraction
import numpy as np
from common import *
import c16_translate as tr

LEVEL = 'proof'
SRC = 'kawin/precipitation/parameters/ElasticFactors.py'
RUN_FILES = ['C16/run/BridgeMaps.v', 'C16/run/BridgeFormulas.v', 'C16/run/BridgeModuli.v', 'C16/run/BridgeFix.v',
             'C16/run/GenPropertiesMaps.v', 'C16/run/GenPropertiesFormulas.v', 'C16/run/GenPropertiesModuli.v', 'C16/run/GenPropertiesFix.v']
W6 = np.array([1, 1, 1, 2, 2, 2.0])
VO = [(0, 0), (1, 1), (2, 2), (1, 2), (0, 2), (0, 1)]


def EF():
    import importlib
    return importlib.import_module('kawin.precipitation.parameters.ElasticFactors')


def LN():
    import importlib
    return importlib.import_module('kawin.precipitation.parameters.LebedevNodes')


def quiet(fn, *a, **k):
    with warnings.catch_warnings():
        warnings.simplefilter('ignore')
        with np.errstate(all='ignore'):
            return fn(*a, **k)


# ==========================================================================================
# independent mathematics (no kawin code)
def rot_from_quat(q):
    a, b, c, d = np.array(q, dtype=float) / np.linalg.norm(q)
    return np.array([[a * a + b * b - c * c - d * d, 2 * (b * c - a * d), 2 * (b * d + a * c)],
                     [2 * (b * c + a * d), a * a - b * b + c * c - d * d, 2 * (c * d - a * b)],
                     [2 * (b * d - a * c), 2 * (c * d + a * b), a * a - b * b - c * c + d * d]])


def gauss_quadrature(nth, nph):
    """product rule on the sphere: Gauss-Legendre in cos(theta), equal weights in phi (offset half a step);
    exact for polynomials of degree < min(2 nth, nph); weights sum to 1 (the convention of the shipped nodes)"""
    x, wx = np.polynomial.legendre.leggauss(nth)
    th = np.arccos(x)
    ph = (np.arange(nph) + 0.5) * 2 * np.pi / nph
    P, T = np.meshgrid(ph, th)
    Wt = np.repeat(wx[:, None], nph, 1) / (2 * nph)
    return P.ravel(), T.ravel(), Wt.ravel()


def monomial_mean(a, b, c):
    """mean of x^a y^b z^c over the unit sphere"""
    if a % 2 or b % 2 or c % 2:
        return 0.0
    lg = math.lgamma
    return 2 * math.exp(lg((a + 1) / 2) + lg((b + 1) / 2) + lg((c + 1) / 2) - lg((a + b + c + 3) / 2)) / (4 * math.pi)


def c4_of_c2(c2):
    """4th rank tensor with both minor symmetries from its 6x6 form (written out, no kawin code)"""
    c4 = np.zeros((3, 3, 3, 3))
    for I, (i, j) in enumerate(VO):
        for J, (k, l) in enumerate(VO):
            for (p, q) in {(i, j), (j, i)}:
                for (r, s) in {(k, l), (l, k)}:
                    c4[p, q, r, s] = c2[I, J]
    return c4


def cubic_c2(c11, c12, c44):
    c = np.zeros((6, 6))
    c[:3, :3] = c12
    for i in range(3):
        c[i, i] = c11
        c[i + 3, i + 3] = c44
    return c


def rotate4(R, c4):
    return np.einsum('im,jn,ko,lp,mnop->ijkl', R, R, R, R, c4)


def eshelby_isotropic_ellipsoid(a, nu):
    """Eshelby tensor of an ellipsoid with semi-axes a[0..2] in an isotropic matrix (Mura, Micromechanics of
    Defects in Solids, eq. 11.16) with the I-integrals evaluated by quadrature of their defining integrals"""
    from scipy.integrate import quad
    a = np.array(a, dtype=float)
    a = a / np.cbrt(np.prod(a))           # the tensor does not depend on the size
    a2 = a * a
    pref = 2 * math.pi * np.prod(a)

    def integ(f):
        # s = t/(1-t) maps [0,1) to [0,inf)
        g = lambda t: f(t / (1 - t)) / (1 - t) ** 2
        return quad(g, 0, 1, epsabs=1e-13, epsrel=1e-12, limit=400)[0]
    delta = lambda s: math.sqrt((a2[0] + s) * (a2[1] + s) * (a2[2] + s))
    I1 = [pref * integ(lambda s, i=i: 1 / ((a2[i] + s) * delta(s))) for i in range(3)]
    I2 = [[pref * integ(lambda s, i=i, j=j: 1 / ((a2[i] + s) * (a2[j] + s) * delta(s))) for j in range(3)] for i in range(3)]
    S = np.zeros((3, 3, 3, 3))
    k = 1 / (8 * math.pi * (1 - nu))
    for i in range(3):
        for j in range(3):
            if i == j:
                S[i, i, i, i] = 3 * k * a2[i] * I2[i][i] + (1 - 2 * nu) * k * I1[i]
            else:
                S[i, i, j, j] = k * a2[j] * I2[i][j] - (1 - 2 * nu) * k * I1[i]
                v = (a2[i] + a2[j]) / 2 * k * I2[i][j] + (1 - 2 * nu) / 2 * k * (I1[i] + I1[j])
                S[i, j, i, j] = S[i, j, j, i] = v
    return S


def energy_from_S(cM4, S, eps, V):
    """-1/2 V sigma:eps with sigma = C:(S:eps - eps), full tensor contractions"""
    ec = np.einsum('ijkl,kl->ij', S, eps)
    sig = np.einsum('ijkl,kl->ij', cM4, ec - eps)
    return -0.5 * V * float(np.sum(sig * eps))


# ==========================================================================================
# generators (every random choice from the rng that is passed in)
def gen_cubic(rng, iso=False):
    """positive-definite cubic constants: bulk K, shear c44 and c' = (c11-c12)/2 all positive"""
    c44 = float(10 ** rng.uniform(10, 11.5))
    K = float(10 ** rng.uniform(10.3, 11.8))
    cp = c44 if iso else float(10 ** rng.uniform(9.7, 11.3))
    return [K + 4 * cp / 3, K - 2 * cp / 3, c44]


def gen_rot(rng, kind=None):
    kind = kind or str(rng.choice(['random', 'identity', 'axis90', 'random'], p=[0.5, 0.15, 0.15, 0.2]))
    if kind == 'identity':
        return np.eye(3).tolist()
    if kind == 'axis90':
        perms = [p for p in itertools.permutations(range(3))]
        p = perms[int(rng.integers(0, 6))]
        R = np.zeros((3, 3))
        for i in range(3):
            R[i, p[i]] = float(rng.choice([-1, 1]))
        if np.linalg.det(R) < 0:
            R[0] *= -1
        return R.tolist()
    return rot_from_quat(rng.normal(size=4)).tolist()


def gen_eps(rng):
    kind = str(rng.choice(['dilatation', 'diagonal', 'shear', 'general'], p=[0.2, 0.2, 0.2, 0.4]))
    s = float(10 ** rng.uniform(-3, -1.3))
    if kind == 'dilatation':
        e = s * np.eye(3)
    elif kind == 'diagonal':
        e = np.diag(rng.uniform(-1, 1, 3) * s)
    elif kind == 'shear':
        e = np.zeros((3, 3))
        i, j = [(0, 1), (0, 2), (1, 2)][int(rng.integers(0, 3))]
        e[i, j] = e[j, i] = s
    else:
        e = rng.normal(size=(3, 3)) * s
        e = (e + e.T) / 2
    return e.tolist(), kind


def gen_radii(rng):
    kind = str(rng.choice(['sphere', 'spheroid', 'triaxial']))
    r0 = float(10 ** rng.uniform(-10, -7.5))
    if kind == 'sphere':
        return [r0, r0, r0], kind
    if kind == 'spheroid':
        ar = float(10 ** rng.uniform(-1.2, 1.2))
        return [r0, r0, r0 * ar], kind
    return [float(r0 * 10 ** rng.uniform(-0.7, 0.7)) for _ in range(3)], kind


QUADS = ['low', 'mid', 'high', 'gauss']


def gen_energy_case(rng, quick):
    eps, ek = gen_eps(rng)
    r, rk = gen_radii(rng)
    same = bool(rng.random() < 0.35)
    cM = gen_cubic(rng, iso=bool(rng.random() < 0.25))
    cP = list(cM) if same else gen_cubic(rng, iso=bool(rng.random() < 0.25))
    RM = gen_rot(rng)
    RP = RM if same else gen_rot(rng)
    return {'kind': 'energy', 'cM': cM, 'cP': cP, 'same': same, 'RM': RM, 'RP': RP, 'eps': eps, 'eps_kind': ek, 'r': r, 'r_kind': rk,
            'quad': str(rng.choice(QUADS, p=[0.2, 0.2, 0.3, 0.3])), 's_size': float(10 ** rng.uniform(-1.5, 1.5)),
            's_eps': float(rng.choice([-1, 1]) * 10 ** rng.uniform(-1, 1))}


def gen_iso_case(rng, quick):
    nu = float(rng.choice([rng.uniform(-0.6, 0.45), rng.uniform(0.05, 0.45), 0.3, 0.25]))
    G = float(10 ** rng.uniform(10, 11.3))
    r, rk = gen_radii(rng)
    if rng.random() < 0.5:
        r, rk = [r[0]] * 3, 'sphere'
    if rk != 'sphere':
        # keep the aspect ratios moderate: the comparison is with a quadrature of a smooth integrand
        r = [r[0] * f for f in (1.0, float(rng.uniform(0.4, 2.5)), float(rng.uniform(0.4, 2.5)))]
    return {'kind': 'iso', 'G': G, 'nu': nu, 'r': r, 'r_kind': rk, 'e': float(10 ** rng.uniform(-3, -1.5)),
            'R': gen_rot(rng, 'random'), 'quad': str(rng.choice(QUADS, p=[0.15, 0.15, 0.3, 0.4])),
            'shear': [(0, 1), (0, 2), (1, 2)][int(rng.integers(0, 3))]}


def gen_moduli_case(rng):
    nu = float(rng.uniform(-0.8, 0.49))
    if abs(nu) < 1e-3:
        nu = 0.3
    if rng.random() < 0.2:
        nu = float(rng.choice([0.25, 0.3, 0.33, -0.25, 0.125]))
    return {'kind': 'moduli', 'E': float(10 ** rng.uniform(9.5, 11.7)), 'nu': nu}


def gen_convert_case(rng):
    c2 = rng.normal(size=(6, 6)) * 1e11
    if rng.random() < 0.7:
        c2 = (c2 + c2.T) / 2
    t = rng.normal(size=(3, 3))
    return {'kind': 'convert', 'c2': c2.tolist(), 'R': gen_rot(rng), 't': ((t + t.T) / 2).tolist(), 'v': rng.normal(size=6).tolist(),
            'cub': gen_cubic(rng)}


def gen_ops_case(rng):
    """random sequence of public setter calls on a fresh StrainEnergy"""
    n = int(rng.integers(2, 7))
    ops = []
    for _ in range(n):
        k = str(rng.choice(['M', 'P', 'RM', 'RP', 'shape'], p=[0.3, 0.2, 0.25, 0.15, 0.1]))
        if k in ('M', 'P'):
            ops.append([k, gen_cubic(rng) if rng.random() < 0.9 else [0.0, 0.0, 0.0]])
        elif k in ('RM', 'RP'):
            ops.append([k, gen_rot(rng)])
        else:
            ops.append([k, str(rng.choice(['sphere', 'cube', 'ellipsoid', 'constant']))])
    return {'kind': 'ops', 'shape0': str(rng.choice(['constant', 'sphere', 'ellipsoid'])), 'ops': ops}


def gen_order_case(rng):
    return {'kind': 'order', 'c': gen_cubic(rng), 'cP': gen_cubic(rng) if rng.random() < 0.5 else None, 'R': gen_rot(rng, 'random'),
            'RP': gen_rot(rng, 'random'), 'eps': gen_eps(rng)[0], 'r': gen_radii(rng)[0], 'shape': str(rng.choice(['ellipsoid', 'sphere', 'cube'])),
            'which': str(rng.choice(['M', 'P', 'both']))}


# ==========================================================================================
# access to the implementation
def set_quadrature(d, quad):
    """quad: 'low' | 'mid' | 'high' (the shipped Lebedev nodes) | 'gauss' (harness product rule, exact to degree 47)"""
    if quad == 'gauss':
        d.midPhiGrid, d.midThetaGrid, d.midWeights = gauss_quadrature(24, 48)
        d.dA = np.pi / 2
    elif quad == 'gauss_fine':
        d.midPhiGrid, d.midThetaGrid, d.midWeights = gauss_quadrature(64, 128)
        d.dA = np.pi / 2
    else:
        d.setLebedevIntegration(quad)


def make_se(shape, cM, cP, RM, RP, eps, quad=None, order='rot_first'):
    from kawin.precipitation import StrainEnergy
    se = StrainEnergy(shape)
    if quad is not None and hasattr(se.description, 'setLebedevIntegration'):
        set_quadrature(se.description, quad)
    if order == 'rot_first':
        if RM is not None:
            se.setRotationMatrix(np.array(RM))
        if RP is not None:
            se.setRotationPrecipitate(np.array(RP))
    se.setElasticConstants(*cM)
    if cP is not None:
        se.setElasticConsantsPrecipitate(*cP)
    if order != 'rot_first':
        if RM is not None:
            se.setRotationMatrix(np.array(RM))
        if RP is not None:
            se.setRotationPrecipitate(np.array(RP))
    se.setEigenstrain(np.array(eps))
    return se


def four_energies(d, r):
    r = np.array(r, dtype=float)
    return [float(d.strainEnergyEllipsoid(r)), float(d.strainEnergyEllipsoid2ndRank(r)), float(d.strainEnergyBohm(r)), float(d.strainEnergyBohm2ndRank(r))]


NAMES4 = ['strainEnergyEllipsoid', 'strainEnergyEllipsoid2ndRank', 'strainEnergyBohm', 'strainEnergyBohm2ndRank']


def rel(a, b):
    return abs(a - b) / max(abs(a), abs(b), 1e-300)


# ==========================================================================================
# oracle 1: energies of general stable tensors
def oracle_energy(c):
    v = []
    try:
        se = quiet(make_se, 'ellipsoid', c['cM'], c['cP'], c['RM'], c['RP'], c['eps'], c['quad'])
        d = se.description
        r = np.array(c['r'])
        E = quiet(four_energies, d, r)
        Ecomp = float(quiet(se.compute, r))
    except Exception as e:
        return [('no_internal_error', 'exception', 'strain energy raised %s: %s' % (type(e).__name__, e))]
    tag = 'quadrature %s, eigenstrain %s, %s' % (c['quad'], c['eps_kind'], c['r_kind'])
    scale = max(abs(x) for x in E)
    if not all(math.isfinite(x) for x in E):
        return [('energy_finite', 'value', 'non-finite energy %r (%s)' % (E, tag))]
    # positivity (stable tensors)
    for nm, x in zip(NAMES4, E):
        if x < -1e-9 * scale:
            v.append(('energy_nonneg', quad_cls(c['quad']), '%s = %r < 0 for positive-definite stiffness (%s)' % (nm, x, tag)))
    # compute() is the inhomogeneous fourth-rank energy
    if rel(Ecomp, E[2]) > 1e-12:
        v.append(('compute_dispatch', 'ellipsoid', 'compute() = %r, strainEnergyBohm = %r' % (Ecomp, E[2])))
    # 6x6 vs fourth rank
    tol = 1e-9
    if rel(E[0], E[1]) > tol:
        v.append(('rank2_equals_rank4', 'homogeneous, eigenstrain ' + ('with shear' if c['eps_kind'] in ('shear', 'general') else 'diagonal'),
                  'strainEnergyEllipsoid = %r but strainEnergyEllipsoid2ndRank = %r (%s)' % (E[0], E[1], tag)))
    if rel(E[2], E[3]) > tol:
        v.append(('rank2_equals_rank4', 'inhomogeneous, eigenstrain ' + ('with shear' if c['eps_kind'] in ('shear', 'general') else 'diagonal'),
                  'strainEnergyBohm = %r but strainEnergyBohm2ndRank = %r (%s)' % (E[2], E[3], tag)))
    # identical stiffness: inhomogeneous = homogeneous
    if c['same'] and rel(E[2], E[0]) > tol:
        v.append(('bohm_reduces_to_homogeneous', 'eigenstrain ' + ('with shear' if c['eps_kind'] in ('shear', 'general') else 'diagonal')
                  + (', rotated matrix' if not np.allclose(c['RM'], np.eye(3)) else ''),
                  'identical precipitate and matrix stiffness: strainEnergyBohm = %r, strainEnergyEllipsoid = %r (%s)' % (E[2], E[0], tag)))
    # the other 3x3 inversion routine
    try:
        d.setOhmInverseFunction('numpy')
        En = quiet(four_energies, d, r)
        d.setOhmInverseFunction('quick')
        for nm, a, b in zip(NAMES4, E, En):
            if rel(a, b) > 1e-8:
                v.append(('inverse_routines_agree', nm, "%s: 'quick' inverse gives %r, 'numpy' inverse %r (%s)" % (nm, a, b, tag)))
                break
    except Exception as e:
        v.append(('no_internal_error', 'exception', "setOhmInverseFunction('numpy') path raised %s: %s" % (type(e).__name__, e)))
    # cubic in size
    s = c['s_size']
    Es = quiet(four_energies, d, s * r)
    for nm, a, b in zip(NAMES4, E, Es):
        if abs(b - s ** 3 * a) > 1e-9 * s ** 3 * scale:
            v.append(('energy_cubic_in_size', nm, '%s: radii scaled by %r change the energy by the factor %r, s^3 = %r (%s)' % (nm, s, b / a if a else None, s ** 3, tag)))
            break
    # quadratic in the eigenstrain
    q = c['s_eps']
    se.setEigenstrain(q * np.array(c['eps']))
    Eq = quiet(four_energies, d, r)
    for nm, a, b in zip(NAMES4, E, Eq):
        if abs(b - q * q * a) > 1e-9 * q * q * scale:
            v.append(('energy_quadratic', nm, '%s: eigenstrain scaled by %r changes the energy by the factor %r, s^2 = %r (%s)' % (nm, q, b / a if a else None, q * q, tag)))
            break
    return _dedupe(v)


def _dedupe(v):
    seen, out = set(), []
    for h in v:
        if (h[0], h[1]) not in seen:
            seen.add((h[0], h[1]))
            out.append(h)
    return out


# ==========================================================================================
# oracle 2: isotropic matrix - closed forms, Eshelby components, orientation
def quad_cls(q):
    return 'exact product quadrature' if q.startswith('gauss') else 'shipped Lebedev nodes'


def oracle_iso(c):
    v = []
    G, nu, e = c['G'], c['nu'], c['e']
    E_ = 2 * G * (1 + nu)
    lam = 2 * G * nu / (1 - 2 * nu)
    cM = [lam + 2 * G, lam, G]
    r = np.array(c['r'])
    V = 4 * math.pi / 3 * float(np.prod(r))
    sphere = c['r_kind'] == 'sphere'
    qc = quad_cls(c['quad'])
    if not sphere and c['quad'] == 'gauss':
        c = dict(c, quad='gauss_fine')       # 64 x 128 points: the integrand 1/beta^3 of an ellipsoid is smooth, not polynomial
    try:
        se = quiet(make_se, 'ellipsoid', cM, None, None, None, e, c['quad'])
        d = se.description
        S = np.array(quiet(d.Sijmn, quiet(d.Dijkl, r, se.params.cMatrix_4th)))
        Edil = quiet(four_energies, d, r)
    except Exception as ex:
        return [('no_internal_error', 'exception', 'isotropic case raised %s: %s' % (type(ex).__name__, ex))]
    # textbook Eshelby tensor
    if sphere:
        Sx = np.zeros((3, 3, 3, 3))
        a1, a2, a3 = (7 - 5 * nu) / (15 * (1 - nu)), (5 * nu - 1) / (15 * (1 - nu)), (4 - 5 * nu) / (15 * (1 - nu))
        for i in range(3):
            for j in range(3):
                if i == j:
                    Sx[i, i, i, i] = a1
                else:
                    Sx[i, i, j, j] = a2
                    Sx[i, j, i, j] = Sx[i, j, j, i] = a3
        tolS = 1e-10
    else:
        Sx = eshelby_isotropic_ellipsoid(r, nu)
        tolS = 2e-6          # the surface integrand is smooth but not polynomial for an ellipsoid
    dev = float(np.max(np.abs(S - Sx)))
    if dev > tolS:
        k = np.unravel_index(int(np.argmax(np.abs(S - Sx))), S.shape)
        v.append(('eshelby_components', qc + (', sphere' if sphere else ', ellipsoid'),
                  'isotropic matrix nu=%r, semi-axes ratio %r: S%s = %r, textbook value %r (quadrature %s)'
                  % (nu, [float(x / r[0]) for x in r], ''.join(str(i + 1) for i in k), float(S[k]), float(Sx[k]), c['quad'])))
    # dilatational eigenstrain in a sphere: 2 G (1+nu)/(1-nu) eps^2 V, also through the spherical approximation
    if sphere:
        cf = 2 * G * (1 + nu) / (1 - nu) * e * e * V
        for nm, x in zip(NAMES4, Edil):
            if rel(x, cf) > 1e-9:
                v.append(('closed_form_dilatation', nm, '%s = %r, 2G(1+nu)/(1-nu) eps^2 V = %r (G=%r, nu=%r, quadrature %s)' % (nm, x, cf, G, nu, c['quad'])))
                break
        for shp in ('sphere',):
            try:
                s2 = quiet(make_se, shp, cM, None, None, None, e)
                x = float(quiet(s2.compute, r))
                if rel(x, cf) > 1e-10:
                    v.append(('closed_form_dilatation', 'spherical approximation', "StrainEnergy('sphere').compute = %r, 2G(1+nu)/(1-nu) eps^2 V = %r (G=%r, nu=%r)" % (x, cf, G, nu)))
            except Exception as ex:
                v.append(('no_internal_error', 'exception', 'spherical approximation raised %s: %s' % (type(ex).__name__, ex)))
        # pure shear eigenstrain in a sphere: 2 G eps^2 V (7-5nu)/(15(1-nu)) * 2  (two components)
        i, j = c['shear']
        es = np.zeros((3, 3))
        es[i, j] = es[j, i] = e
        se.setEigenstrain(es)
        Esh = quiet(four_energies, d, r)
        cfs = 2 * G * e * e * V * (7 - 5 * nu) / (15 * (1 - nu))
        for nm, x in zip(NAMES4, Esh):
            if rel(x, cfs) > 1e-9:
                v.append(('closed_form_shear', qc + ', ' + nm, '%s = %r for a pure shear eigenstrain in a sphere, textbook 2G eps^2 V (7-5nu)/(15(1-nu)) = %r (nu=%r, quadrature %s)'
                          % (nm, x, cfs, nu, c['quad'])))
                break
        se.setEigenstrain(e)
    # energy from the textbook tensor, general symmetric eigenstrain (only meaningful where S agrees)
    # orientation of an isotropic matrix does not matter
    try:
        ser = quiet(make_se, 'ellipsoid', cM, None, c['R'], None, e, c['quad'])
        es = np.array([[1.0, 0.3, -0.2], [0.3, -0.5, 0.4], [-0.2, 0.4, 0.7]]) * e
        se.setEigenstrain(es)
        ser.setEigenstrain(es)
        E0 = quiet(four_energies, d, r)
        E1 = quiet(four_energies, ser.description, r)
        for nm, a, b in zip(NAMES4, E0, E1):
            if rel(a, b) > 1e-9:
                v.append(('isotropic_rotation_invariant', nm, '%s: isotropic matrix (nu=%r) gives %r unrotated and %r with the matrix axes rotated (quadrature %s)' % (nm, nu, a, b, c['quad'])))
                break
    except Exception as ex:
        v.append(('no_internal_error', 'exception', 'rotated isotropic case raised %s: %s' % (type(ex).__name__, ex)))
    return _dedupe(v)


# ==========================================================================================
# oracle 3: the sphere quadrature
def orbit_class(p, tol=1e-9):
    """class of a point of an octahedrally symmetric rule from its sorted absolute coordinates"""
    a = np.sort(np.abs(p))
    z = [x < tol for x in a]
    if z[0] and z[1]:
        return 'A1'
    if z[0]:
        return 'A2' if abs(a[1] - a[2]) < tol else 'B'
    if abs(a[0] - a[1]) < tol and abs(a[1] - a[2]) < tol:
        return 'A3'
    if abs(a[0] - a[1]) < tol or abs(a[1] - a[2]) < tol:
        return 'C'
    return 'D'


GROUP = None


def octahedral_group():
    global GROUP
    if GROUP is None:
        GROUP = []
        for perm in itertools.permutations(range(3)):
            for s in itertools.product([1, -1], repeat=3):
                M = np.zeros((3, 3))
                for i, p in enumerate(perm):
                    M[i, p] = s[i]
                GROUP.append(M)
    return GROUP


def oracle_lebedev(c):
    order = c['order']
    npts = {53: 974, 83: 2354, 131: 5810}[order]
    v = []
    try:
        phi, th, w = quiet(LN().loadPoints, order)
        phi, th, w = np.array(phi, float), np.array(th, float), np.array(w, float)
    except Exception as e:
        return [('no_internal_error', 'exception', 'loadPoints(%d) raised %s: %s' % (order, type(e).__name__, e))]
    site = 'order %d' % order
    if not (len(phi) == len(th) == len(w) == npts):
        v.append(('lebedev_node_count', site, 'loadPoints(%d) returns %d nodes, the rule of that order has %d' % (order, len(w), npts)))
        return v
    n = np.array([np.sin(th) * np.cos(phi), np.sin(th) * np.sin(phi), np.cos(th)])
    if abs(w.sum() - 1) > 1e-11 or np.any(w <= 0):
        v.append(('lebedev_exact', 'degree 0 (' + site + ')', 'weights of order %d sum to %r (min %r)' % (order, float(w.sum()), float(w.min()))))
    # the node set of a Lebedev rule is invariant under the octahedral group, with equal weights on an orbit
    key = lambda p: tuple(np.round(p, 8) + 0.0)
    pts = {}
    for k in range(npts):
        pts.setdefault(key(n[:, k]), []).append(float(w[k]))
    bad = set()
    for k in range(npts):
        p = n[:, k]
        for g in octahedral_group():
            kk = key(g @ p)
            if kk not in pts or abs(pts[kk][0] - w[k]) > 1e-15:
                bad.add(orbit_class(p))
                break
    dup = sum(len(x) - 1 for x in pts.values())
    if bad or dup:
        v.append(('lebedev_orbits', 'classes ' + ','.join(sorted(bad)) + (' (duplicated nodes)' if dup else ''),
                  'order %d: node set is not invariant under the octahedral group in the node classes %s; %d of %d nodes are duplicates'
                  % (order, sorted(bad), dup, npts)))
    # exactness on all monomials up to the stated order
    maxdeg = order if not c.get('quick') else min(order, c.get('maxdeg', order))
    pw = [n ** k for k in range(maxdeg + 1)]
    worst = (0.0, None)
    first_bad_deg = None
    for deg in range(0, maxdeg + 1):
        for a in range(deg + 1):
            for b in range(deg + 1 - a):
                cc = deg - a - b
                err = abs(float(np.sum(w * pw[a][0] * pw[b][1] * pw[cc][2])) - monomial_mean(a, b, cc))
                if err > worst[0]:
                    worst = (err, (a, b, cc))
                if err > 1e-11 and first_bad_deg is None:
                    first_bad_deg = deg
    if first_bad_deg is not None and first_bad_deg > 0:
        a, b, cc = worst[1]
        v.append(('lebedev_exact', 'monomials of degree >= %d (%s)' % (min(first_bad_deg, 2), site),
                  'order %d: the mean of x^%d y^%d z^%d over the nodes differs from the exact mean %r by %.3g; first inexact degree %d (stated order %d)'
                  % (order, a, b, cc, monomial_mean(a, b, cc), worst[0], first_bad_deg, order)))
    return v


# ==========================================================================================
# oracle 4: elastic moduli - every accepted pair gives the stiffness of the same solid
def oracle_moduli(c):
    E_, nu = c['E'], c['nu']
    G = E_ / (2 * (1 + nu))
    lam = E_ * nu / ((1 + nu) * (1 - 2 * nu))
    K = E_ / (3 * (1 - 2 * nu))
    M = E_ * (1 - nu) / ((1 + nu) * (1 - 2 * nu))
    vals = {'E': E_, 'nu': nu, 'G': G, 'lam': lam, 'K': K, 'M': M}
    exp = cubic_c2(M, lam, G)
    v = []
    ef = EF()
    for pair in itertools.combinations(['E', 'nu', 'G', 'lam', 'K', 'M'], 2):
        if pair == ('E', 'M') and nu < 0:
            continue            # E and M do not determine the sign of nu (two solids share them)
        try:
            got = np.array(quiet(ef.moduliToC, **{k: vals[k] for k in pair}), dtype=float)
        except Exception as e:
            v.append(('moduli_roundtrip', '%s-%s' % pair, 'moduliToC(%s) raised %s: %s' % (', '.join('%s=%r' % (k, vals[k]) for k in pair), type(e).__name__, e)))
            continue
        if got.shape != (6, 6) or np.max(np.abs(got - exp)) > 1e-8 * np.max(np.abs(exp)):
            k = np.unravel_index(int(np.argmax(np.abs(got - exp))), (6, 6)) if got.shape == (6, 6) else (0, 0)
            v.append(('moduli_roundtrip', '%s-%s' % pair, 'moduliToC(%s): C[%d,%d] = %r, the solid with E=%r, nu=%r has %r'
                      % (', '.join('%s=%r' % (k2, vals[k2]) for k2 in pair), k[0], k[1], float(got[k]) if got.shape == (6, 6) else None, E_, nu, float(exp[k]))))
    try:
        got = np.array(quiet(ef.elasticConstantToC, M, lam, G))
        if np.max(np.abs(got - exp)) > 0:
            v.append(('moduli_roundtrip', 'elasticConstantToC', 'elasticConstantToC(%r, %r, %r) is not the cubic-form matrix' % (M, lam, G)))
    except Exception as e:
        v.append(('no_internal_error', 'exception', 'elasticConstantToC raised %s' % e))
    return _dedupe(v)


# ==========================================================================================
# oracle 5: tensor conversions, rotations, the fourth-rank inverse
def oracle_convert(c):
    ef = EF()
    v = []
    c2 = np.array(c['c2'])
    R = np.array(c['R'])
    t = np.array(c['t'])
    vec = np.array(c['v'])
    try:
        c4 = np.array(quiet(ef.convert2To4rankTensor, c2))
        exp4 = c4_of_c2(c2)
        if c4.shape != (3, 3, 3, 3) or np.max(np.abs(c4 - exp4)) > 0:
            k = np.unravel_index(int(np.argmax(np.abs(c4 - exp4))), c4.shape)
            v.append(('voigt_roundtrip', 'convert2To4rankTensor', 'convert2To4rankTensor: entry %s = %r, Voigt convention gives %r' % (k, float(c4[k]), float(exp4[k]))))
        back = np.array(quiet(ef.convert4To2rankTensor, c4))
        if np.max(np.abs(back - c2)) > 0:
            v.append(('voigt_roundtrip', '6x6 -> 4th -> 6x6', 'convert4To2rankTensor(convert2To4rankTensor(c)) differs from c by %r' % float(np.max(np.abs(back - c2)))))
        back4 = np.array(quiet(ef.convert2To4rankTensor, quiet(ef.convert4To2rankTensor, exp4)))
        if np.max(np.abs(back4 - exp4)) > 0:
            v.append(('voigt_roundtrip', '4th -> 6x6 -> 4th', 'round trip of a tensor with minor symmetries differs by %r' % float(np.max(np.abs(back4 - exp4)))))
        t2 = np.array(quiet(ef.convertVecTo2rankTensor, vec))
        if not (np.array_equal(t2, t2.T) and np.array_equal(np.array(quiet(ef.convert2rankToVec, t2)), vec)
                and all(t2[i, j] == vec[I] for I, (i, j) in enumerate(VO))):
            v.append(('voigt_roundtrip', 'vector <-> 3x3', 'convertVecTo2rankTensor / convert2rankToVec do not round-trip on %r' % vec.tolist()))
        if not np.array_equal(np.array(quiet(ef.convertVecTo2rankTensor, quiet(ef.convert2rankToVec, t))), t):
            v.append(('voigt_roundtrip', '3x3 -> vector -> 3x3', 'symmetric 3x3 tensor does not round-trip'))
        # rotations
        r4 = np.array(quiet(ef.rotateRank4Tensor, R, exp4))
        e4 = rotate4(R, exp4)
        if np.max(np.abs(r4 - e4)) > 1e-12 * np.max(np.abs(e4)):
            v.append(('rotation_rank4', 'value', 'rotateRank4Tensor differs from R_im R_jn R_ko R_lp T_mnop by %r' % float(np.max(np.abs(r4 - e4)))))
        r2 = np.array(quiet(ef.rotateRank2Tensor, R, t))
        if np.max(np.abs(r2 - R @ t @ R.T)) > 1e-12 * np.max(np.abs(t)):
            v.append(('rotation_rank2', 'value', 'rotateRank2Tensor differs from R T R^T by %r' % float(np.max(np.abs(r2 - R @ t @ R.T)))))
        # fourth-rank inverse of a rotated cubic stiffness:  a : inv(a) = identity on symmetric tensors
        a4 = rotate4(R, c4_of_c2(cubic_c2(*c['cub'])))
        ia = np.array(quiet(ef.invert4rankTensor, a4))
        ident = np.einsum('ijkl,klmn->ijmn', a4, ia)
        Isym = 0.5 * (np.einsum('ik,jl->ijkl', np.eye(3), np.eye(3)) + np.einsum('il,jk->ijkl', np.eye(3), np.eye(3)))
        if np.max(np.abs(ident - Isym)) > 1e-9:
            k = np.unravel_index(int(np.argmax(np.abs(ident - Isym))), ident.shape)
            v.append(('invert4_is_inverse', 'shear' if k[0] != k[1] or k[2] != k[3] else 'normal',
                      'c : invert4rankTensor(c) has entry %s = %r, the identity on symmetric tensors has %r' % (k, float(ident[k]), float(Isym[k]))))
    except Exception as e:
        v.append(('no_internal_error', 'exception', 'tensor utilities raised %s: %s' % (type(e).__name__, e)))
    return _dedupe(v)


# ==========================================================================================
# oracle 6: order of the setter calls
def oracle_order(c):
    v = []
    r = np.array(c['r'])
    which = c.get('which', 'both')
    RM = c['R'] if which in ('M', 'both') else None
    RP = c['RP'] if which in ('P', 'both') else None
    try:
        q = 'low' if c['shape'] == 'ellipsoid' else None
        a = quiet(make_se, c['shape'], c['c'], c['cP'], RM, RP, c['eps'], q, 'rot_first')
        b = quiet(make_se, c['shape'], c['c'], c['cP'], RM, RP, c['eps'], q, 'stiffness_first')
        Ea, Eb = float(quiet(a.compute, r)), float(quiet(b.compute, r))
        I = np.eye(3)
        exp4 = rotate4(np.array(RM) if RM is not None else I, c4_of_c2(cubic_c2(*c['c'])))
        expP = rotate4(np.array(RP) if RP is not None else I, c4_of_c2(cubic_c2(*c['cP']))) if c['cP'] is not None else exp4
        for nm, s in (('rotation first', a), ('stiffness first', b)):
            got = np.array(s.params.cMatrix_4th)
            if np.max(np.abs(got - exp4)) > 1e-12 * np.max(np.abs(exp4)):
                v.append(('rotation_order', 'matrix tensor, ' + nm, 'cMatrix_4th with %s differs from the rotated stiffness by %r (relative); setters called: %s'
                          % (nm, float(np.max(np.abs(got - exp4)) / np.max(np.abs(exp4))), which)))
            gotP = np.array(s.params.cPrec_4th)
            if np.max(np.abs(gotP - expP)) > 1e-12 * np.max(np.abs(expP)):
                v.append(('rotation_order', 'precipitate tensor, ' + nm, 'cPrec_4th with %s differs from the rotated stiffness by %r (relative); setters called: %s'
                          % (nm, float(np.max(np.abs(gotP - expP)) / np.max(np.abs(expP))), which)))
        if rel(Ea, Eb) > 1e-10 and not any(h[0] == 'rotation_order' for h in v):
            v.append(('rotation_order', 'energy', 'energy %r with the rotation supplied first, %r with the stiffness supplied first' % (Ea, Eb)))
        if type(a.description).__name__ != type(b.description).__name__:
            v.append(('rotation_order', 'shape', 'description %s vs %s' % (type(a.description).__name__, type(b.description).__name__)))
    except Exception as e:
        v.append(('no_internal_error', 'exception', 'setter sequence raised %s: %s' % (type(e).__name__, e)))
    return _dedupe(v)


# ==========================================================================================
# oracle 7: the eigenstrain an object uses is the one it was given (scalar / 3-vector / tensor forms, other objects, earlier values)
def gen_eigen_case(rng):
    sh = np.zeros((3, 3))
    i, j = [(0, 1), (0, 2), (1, 2)][int(rng.integers(0, 3))]
    sh[i, j] = sh[j, i] = float(10 ** rng.uniform(-3, -1.5))
    return {'kind': 'eigen', 'cM': gen_cubic(rng), 'r': gen_radii(rng)[0], 'e1': float(10 ** rng.uniform(-3, -1.5)),
            'e2': [float(x) for x in rng.uniform(-1, 1, 3) * 10 ** rng.uniform(-3, -1.5)], 'shear': sh.tolist()}


def oracle_eigen(c):
    v = []
    r = np.array(c['r'])
    try:
        ref = lambda eps: float(quiet(make_se('ellipsoid', c['cM'], None, None, None, np.array(eps, dtype=float).tolist(), 'low').compute, r))
        want1 = ref(np.eye(3) * c['e1'])
        want2 = ref(np.diag(c['e2']))
        # another object sets its own eigenstrain afterwards
        a = quiet(make_se, 'ellipsoid', c['cM'], None, None, None, c['e1'], 'low')
        b = quiet(make_se, 'ellipsoid', c['cM'], None, None, None, c['e2'], 'low')
        Ea, Eb = float(quiet(a.compute, r)), float(quiet(b.compute, r))
        if rel(Ea, want1) > 1e-10:
            v.append(('eigenstrain_setter', 'after another object set its eigenstrain', 'object with eigenstrain %r gives %r after a second object was given %r; alone it gives %r'
                      % (c['e1'], Ea, c['e2'], want1)))
        if rel(Eb, want2) > 1e-10:
            v.append(('eigenstrain_setter', '3-vector form', 'setEigenstrain(%r) gives %r, the diagonal tensor %r' % (c['e2'], Eb, want2)))
        # a scalar replaces a tensor set earlier on the same object
        d = quiet(make_se, 'ellipsoid', c['cM'], None, None, None, c['shear'], 'low')
        d.setEigenstrain(c['e1'])
        Ed = float(quiet(d.compute, r))
        if rel(Ed, want1) > 1e-10:
            v.append(('eigenstrain_setter', 'scalar after a tensor', 'setEigenstrain(tensor) then setEigenstrain(%r) gives %r, setEigenstrain(%r) alone %r' % (c['e1'], Ed, c['e1'], want1)))
        # an object created afterwards starts from its own value
        f = quiet(make_se, 'ellipsoid', c['cM'], None, None, None, c['e1'], 'low')
        Ef = float(quiet(f.compute, r))
        if rel(Ef, want1) > 1e-10:
            v.append(('eigenstrain_setter', 'fresh object', 'a fresh object with eigenstrain %r gives %r, expected %r' % (c['e1'], Ef, want1)))
    except Exception as e:
        v.append(('no_internal_error', 'exception', 'eigenstrain setter sequence raised %s: %s' % (type(e).__name__, e)))
    return _dedupe(v)


# ==========================================================================================
# oracle 8: histories on one object, caller-side re-use of argument arrays, calling conventions, interleaved objects.
# Reference = a FRESH object given the final configuration (copies of every argument).
def gen_history_case(rng):
    eps, _ = gen_eps(rng)
    eps2, _ = gen_eps(rng)
    r, _ = gen_radii(rng)
    return {'kind': 'history', 'cM1': gen_cubic(rng), 'cM2': gen_cubic(rng), 'cP': gen_cubic(rng), 'R1': gen_rot(rng, 'random'), 'R2': gen_rot(rng, 'random'),
            'eps': eps, 'eps2': eps2, 'r': r, 's': float(10 ** rng.uniform(-1, 1)), 'e': float(10 ** rng.uniform(-3, -1.5)),
            'shape': str(rng.choice(['ellipsoid', 'ellipsoid', 'sphere', 'cube']))}


def _fresh_energy(shape, cM, cP, RM, RP, eps, r):
    se = quiet(make_se, shape, list(cM), None if cP is None else list(cP), None if RM is None else np.array(RM).copy(),
               None if RP is None else np.array(RP).copy(), np.array(eps, dtype=float).copy().tolist(), 'low' if shape == 'ellipsoid' else None)
    return float(quiet(se.compute, np.array(r, dtype=float)))


def oracle_history(c):
    from kawin.precipitation import StrainEnergy
    v = []
    shape = c['shape']
    q = 'low' if shape == 'ellipsoid' else None
    r = np.array(c['r'], dtype=float)
    tol = 1e-10

    def cmp(clause, cls, got, want, what):
        if not (math.isfinite(got) and rel(got, want) <= tol):
            v.append((clause, cls, '%s: the object gives %r, a fresh object with the same final configuration gives %r (shape %s)' % (what, got, want, shape)))
    try:
        # ---- one object, setters between computes ------------------------------------------------------
        se = quiet(make_se, shape, c['cM1'], None, c['R1'], None, c['eps'], q)
        quiet(se.compute, r)
        se.setElasticConstants(*c['cM2'])
        cmp('history_independent', 'matrix stiffness changed between two calls', float(quiet(se.compute, r)),
            _fresh_energy(shape, c['cM2'], None, c['R1'], None, c['eps'], r), 'compute, setElasticConstants, compute')
        se.setRotationMatrix(np.array(c['R2']))
        cmp('history_independent', 'matrix rotation changed between two calls', float(quiet(se.compute, r)),
            _fresh_energy(shape, c['cM2'], None, c['R2'], None, c['eps'], r), 'compute, setRotationMatrix, compute')
        cmp('history_independent', 'same object at another size', float(quiet(se.compute, c['s'] * r)),
            _fresh_energy(shape, c['cM2'], None, c['R2'], None, c['eps'], c['s'] * r), 'compute(r), compute(s r)')
        se.setElasticConsantsPrecipitate(*c['cP'])
        cmp('history_independent', 'precipitate stiffness set between two calls', float(quiet(se.compute, r)),
            _fresh_energy(shape, c['cM2'], c['cP'], c['R2'], None, c['eps'], r), 'compute, setElasticConsantsPrecipitate, compute')
        se.setEigenstrain(np.array(c['eps2']))
        cmp('history_independent', 'eigenstrain changed between two calls', float(quiet(se.compute, r)),
            _fresh_energy(shape, c['cM2'], c['cP'], c['R2'], None, c['eps2'], r), 'compute, setEigenstrain, compute')
        # ---- arrays the caller re-uses after the call ---------------------------------------------------------
        def fresh():
            x = StrainEnergy(shape)
            if q is not None:
                set_quadrature(x.description, q)
            return x
        for which in ('matrix', 'precipitate'):
            buf = np.array(c['R1'], dtype=float)
            x = fresh()
            (x.setRotationMatrix if which == 'matrix' else x.setRotationPrecipitate)(buf)
            if not np.array_equal(buf, np.array(c['R1'])):
                v.append(('argument_unchanged', which + ' rotation', 'the rotation array passed to the setter was modified'))
            buf[:] = np.array(c['R2'])                 # the caller re-uses its buffer
            x.setElasticConstants(*c['cM1'])
            x.setElasticConsantsPrecipitate(*c['cP'])
            x.setEigenstrain(np.array(c['eps']))
            cmp('argument_reuse', which + ' rotation array overwritten by the caller after the call', float(quiet(x.compute, r)),
                _fresh_energy(shape, c['cM1'], c['cP'], c['R1'] if which == 'matrix' else None, c['R1'] if which == 'precipitate' else None, c['eps'], r),
                'set%s(buf); buf[:] = other; stiffness setters; compute' % ('RotationMatrix' if which == 'matrix' else 'RotationPrecipitate'))
        tbuf = cubic_c2(*c['cM1'])
        x = fresh()
        x.setElasticTensor(tbuf)
        tbuf *= 2.0
        x.setRotationMatrix(np.array(c['R1']))
        ebuf = np.array(c['eps'], dtype=float)
        x.setEigenstrain(ebuf)
        ebuf *= 3.0
        rbuf = r.copy()
        got = float(quiet(x.compute, rbuf))
        if not np.array_equal(rbuf, r):
            v.append(('argument_unchanged', 'radius', 'the radius array passed to compute was modified'))
        cmp('argument_reuse', 'stiffness / eigenstrain arrays overwritten by the caller after the call', got,
            _fresh_energy(shape, c['cM1'], None, c['R1'], None, c['eps'], r), 'setElasticTensor(buf); buf *= 2; setEigenstrain(ebuf); ebuf *= 3; compute')
        # ---- calling conventions ------------------------------------------------------------------------------
        e = c['e']
        want = _fresh_energy(shape, c['cM1'], None, None, None, (np.eye(3) * e).tolist(), r)
        for nm, val in (('python float', e), ('numpy scalar', np.float64(e)), ('0-d array', np.array(e)), ('list of 3', [e, e, e]), ('tuple of 3', (e, e, e)),
                        ('1-d array', np.array([e, e, e])), ('3x3 array', np.eye(3) * e)):
            x = fresh()
            x.setElasticConstants(*c['cM1'])
            x.setEigenstrain(val)
            cmp('calling_convention', 'eigenstrain given as ' + nm, float(quiet(x.compute, r)), want, 'setEigenstrain(%s)' % nm)
        x = fresh()
        x.setElasticConstants(*c['cM1'])
        x.setEigenstrain(e)
        for nm, val in (('list', [float(z) for z in r]), ('tuple', tuple(float(z) for z in r)), ('1x3 array', r.reshape(1, 3))):
            cmp('calling_convention', 'radii given as ' + nm, float(quiet(x.compute, val)), want, 'compute(%s)' % nm)
        both = np.atleast_1d(quiet(x.compute, np.array([r, c['s'] * r])))
        if both.shape != (2,) or rel(float(both[0]), want) > tol or rel(float(both[1]), c['s'] ** 3 * want) > 1e-9:
            v.append(('calling_convention', 'two radii triples in one call', 'compute([[r], [s r]]) = %r, single calls give %r and s^3 times that' % (both.tolist(), want)))
        ints = [int(round(z / 1e9)) * 10 ** 9 for z in c['cM1']]
        x1, x2 = fresh(), fresh()
        x1.setElasticConstants(*ints)
        x2.setElasticConstants(*[float(z) for z in ints])
        x1.setEigenstrain(e)
        x2.setEigenstrain(e)
        cmp('calling_convention', 'integer elastic constants', float(quiet(x1.compute, r)), float(quiet(x2.compute, r)), 'setElasticConstants(int, int, int)')
        # ---- two objects used interleaved ---------------------------------------------------------------------------
        a = quiet(make_se, shape, c['cM1'], None, c['R1'], None, c['eps'], q)
        b = quiet(make_se, shape, c['cM2'], c['cP'], c['R2'], c['R1'], c['eps2'], q)
        quiet(a.compute, r)
        quiet(b.compute, c['s'] * r)
        b.setElasticConstants(*c['cM1'])
        cmp('instances_independent', 'two objects interleaved', float(quiet(a.compute, r)), _fresh_energy(shape, c['cM1'], None, c['R1'], None, c['eps'], r), 'a.compute; b.compute; b.setElasticConstants; a.compute')
        cmp('instances_independent', 'two objects interleaved (second)', float(quiet(b.compute, r)), _fresh_energy(shape, c['cM1'], c['cP'], c['R2'], c['R1'], c['eps2'], r), 'b after a')
    except Exception as ex:
        v.append(('no_internal_error', 'exception', 'setter / compute history raised %s: %s' % (type(ex).__name__, ex)))
    return _dedupe(v)


ORACLES = {'energy': oracle_energy, 'iso': oracle_iso, 'lebedev': oracle_lebedev, 'moduli': oracle_moduli,
           'convert': oracle_convert, 'order': oracle_order, 'eigen': oracle_eigen, 'history': oracle_history}


def evaluate_case(c):
    return ORACLES[c['kind']](c)


def gen_search(rng, quick, budget=1.0):
    cases = [{'kind': 'lebedev', 'order': o, 'quick': quick, 'maxdeg': 23} for o in (53, 83, 131)]
    n = lambda q, t: max(1, int((q if quick else t) * budget))
    cases += [gen_energy_case(rng, quick) for _ in range(n(60, 1500))]
    cases += [gen_iso_case(rng, quick) for _ in range(n(30, 600))]
    cases += [gen_moduli_case(rng) for _ in range(n(25, 600))]
    cases += [gen_convert_case(rng) for _ in range(n(15, 300))]
    cases += [gen_order_case(rng) for _ in range(n(15, 300))]
    cases += [gen_eigen_case(rng) for _ in range(n(8, 150))]
    cases += [gen_history_case(rng) for _ in range(n(8, 150))]
    return cases


def corpus_cases():
    out = []
    p = os.path.join(VERIF, 'corpus', 'C16')
    if os.path.isdir(p):
        for f in sorted(os.listdir(p)):
            if f.endswith('.json'):
                c = json.load(open(os.path.join(p, f)))
                c = c.get('input', c)
                c = unhex(c)
                c['from_corpus'] = f
                out.append(c)
    return out


def hexcase(c):
    def h(o):
        if isinstance(o, float):
            return o.hex()
        if isinstance(o, (list, tuple)):
            return [h(x) for x in o]
        if isinstance(o, dict):
            return {k: h(v2) for k, v2 in o.items()}
        return o
    return {'case': {k: v2 for k, v2 in c.items() if k != 'from_corpus'}, 'hex': h({k: v2 for k, v2 in c.items() if k != 'from_corpus'})}


def unhex(o):
    """inverse of the 'hex' rendering; a replay / corpus file may carry {'case':..., 'hex':...} or a plain case"""
    if isinstance(o, dict) and 'hex' in o and 'case' in o:
        o = o['hex']

    def u(x):
        if isinstance(x, str):
            try:
                return float.fromhex(x) if (x.startswith('0x') or x.startswith('-0x')) else x
            except ValueError:
                return x
        if isinstance(x, list):
            return [u(y) for y in x]
        if isinstance(x, dict):
            return {k: u(y) for k, y in x.items()}
        return x
    return u(o)


def _fails(c, clause, cls):
    try:
        return any(h[0] == clause and h[1] == cls for h in evaluate_case(c))
    except Exception:
        return False


def shrink(c, clause, cls):
    """simpler case that still violates the same clause: identity rotations, dilatational / single-shear eigenstrain, sphere"""
    cur = copy.deepcopy(c)
    cur.pop('from_corpus', None)
    trials = []
    if c['kind'] == 'energy':
        I = np.eye(3).tolist()
        trials = [{'RM': I, 'RP': I}, {'r': [c['r'][0]] * 3, 'r_kind': 'sphere'}, {'quad': 'low'},
                  {'eps': [[0, 0.01, 0], [0.01, 0, 0], [0, 0, 0]], 'eps_kind': 'shear'}, {'eps': (0.01 * np.eye(3)).tolist(), 'eps_kind': 'dilatation'},
                  {'cM': [168.4e9, 121.4e9, 75.4e9]}, {'cP': [168.4e9, 121.4e9, 75.4e9]}, {'s_size': 2.0}, {'s_eps': 2.0}]
    elif c['kind'] == 'iso':
        trials = [{'r': [c['r'][0]] * 3, 'r_kind': 'sphere'}, {'nu': 0.3}, {'G': 80e9}, {'quad': 'low'}, {'quad': 'gauss'}, {'e': 0.01}, {'R': np.eye(3).tolist()}]
    elif c['kind'] == 'order':
        trials = [{'cP': None}, {'eps': (0.01 * np.eye(3)).tolist()}, {'shape': 'ellipsoid'}, {'r': [c['r'][0]] * 3}]
    elif c['kind'] == 'moduli':
        trials = [{'nu': 0.3}, {'E': 200e9}]
    for tchg in trials:
        d = dict(cur)
        d.update(tchg)
        if d.get('same') and 'cM' in tchg:
            d['cP'] = d['cM']
        if d.get('same') and 'cP' in tchg:
            continue
        if _fails(d, clause, cls):
            cur = d
    return cur


def report_hits(ctx, hits):
    seen = set()
    for (c, clause, cls, msg) in hits:
        if (clause, cls) in seen:
            continue
        seen.add((clause, cls))
        small = shrink(c, clause, cls)
        msgs = [h[2] for h in evaluate_case(small) if h[0] == clause and h[1] == cls]
        site = {'lebedev': 'LebedevNodes.loadPoints'}.get(c['kind'], 'ElasticFactors')
        ctx.violation(clause, {'site': site, 'cls': cls},
                      {'kind': 'input', 'input': hexcase(small), 'observed': msgs[0] if msgs else msg,
                       'oracle': 'independent recomputation from the property text / textbook formulas (harness/c16.py: oracle_%s)' % c['kind']},
                      msgs[0] if msgs else msg)


# ==========================================================================================
# correspondence: the hand-written tensor model, executed in Coq on what the implementation computed
HEADER = '''From Coq Require Import QArith List ZArith.
Require Import Kawin.Common.Ops Kawin.Common.Vec Kawin.C16.Model Kawin.C16.Corr.
Import ListNotations.
Open Scope Q_scope.
'''
RT = '(1 # 1073741824)'          # 2^-30, relative to the largest entry of the compared tensor


def ql2(m):
    return '[' + '; '.join(qlist(r) for r in np.asarray(m, dtype=float)) + ']'


def ql3(ms):
    return '[' + '; '.join(ql2(m) for m in ms) + ']'


def q3(v):
    return '(%s, %s, %s)' % tuple(qlit(x) for x in v)


class InvRecorder:
    """observes np.linalg.inv (the implementation keeps calling the real routine)"""

    def __init__(self):
        self.calls = []

    def __enter__(self):
        self.orig = np.linalg.inv
        rec = self

        def inv(a, *args, **kw):
            out = rec.orig(a, *args, **kw)
            rec.calls.append((np.array(a, dtype=float).copy(), np.array(out, dtype=float).copy()))
            return out
        np.linalg.inv = inv
        return self

    def __exit__(self, *a):
        np.linalg.inv = self.orig


def gen_pipe_case(rng, quick):
    N = int(rng.integers(2, 9))
    exact = bool(rng.random() < 0.2)
    c = {'kind': 'pipe', 'N': N, 'phi': [float(x) for x in rng.uniform(0, 2 * np.pi, N)], 'theta': [float(x) for x in rng.uniform(0.05, np.pi - 0.05, N)],
         'w': [float(x) for x in rng.uniform(0.2, 1.5, N)], 'dA': float(rng.choice([np.pi / 2, rng.uniform(0.1, 2)])),
         'cM': gen_cubic(rng), 'cP': gen_cubic(rng), 'RM': gen_rot(rng), 'RP': gen_rot(rng), 'eps': gen_eps(rng)[0], 'r': gen_radii(rng)[0],
         'quick_inverse': bool(rng.random() < 0.6), 'c2': (rng.normal(size=(6, 6)) * 1e11).tolist(), 't': rng.normal(size=(3, 3)).tolist(),
         'v': rng.normal(size=6).tolist(), 'I1': float(rng.uniform(0, 0.1)), 'I2': float(rng.uniform(0, 0.02))}
    if exact:
        # small dyadic data: binary64 is exact on the conversions and rotations
        c['c2'] = rng.integers(-8, 9, (6, 6)).astype(float).tolist()
        c['RM'] = gen_rot(rng, 'axis90')
        c['t'] = rng.integers(-4, 5, (3, 3)).astype(float).tolist()
        c['v'] = rng.integers(-4, 5, 6).astype(float).tolist()
    return c


def ohm_hook(d):
    """name of the instance attribute through which the description calls the 3x3 inversion routine, found by
    what the PUBLIC switch setOhmInverseFunction changes (no private name is assumed); None if there is no such
    attribute"""
    try:
        d.setOhmInverseFunction('numpy')
        a = dict(vars(d))
        d.setOhmInverseFunction('quick')
        b = dict(vars(d))
    except Exception:
        return None
    names = [k for k in b if k in a and callable(a[k]) and callable(b[k]) and a[k] != b[k]]
    return names[0] if len(names) == 1 else None


def normals_and_endterm(d, r):
    """unit normals and 1/beta^3 of the grid points: from the description's own helpers when they exist under
    their usual names, else from the formulas (which the translator ties to the source)"""
    phi, th = np.asarray(d.midPhiGrid, dtype=float), np.asarray(d.midThetaGrid, dtype=float)
    fn, fb = getattr(d, '_n', None), getattr(d, '_beta', None)
    n = np.array(fn(phi, th)) if callable(fn) else np.array([np.sin(th) * np.cos(phi), np.sin(th) * np.sin(phi), np.cos(th)])
    beta = np.array(fb(r[0], r[1], r[2], phi, th)) if callable(fb) else \
        np.sqrt(((r[0] * np.cos(phi)) ** 2 + (r[1] * np.sin(phi)) ** 2) * np.sin(th) ** 2 + (r[2] * np.cos(th)) ** 2)
    return n, 1 / beta ** 3


def run_pipe_impl(c):
    """runs the public / internal methods of the implementation once, observing _ohm_inverse and np.linalg.inv"""
    ef = EF()
    from kawin.precipitation import StrainEnergy
    o = {'err': None}
    try:
        R = np.array(c['RM'])
        c2 = np.array(c['c2'])
        t = np.array(c['t'])
        vec = np.array(c['v'])
        c4p = np.array(ef.convert2To4rankTensor(c2))
        o['t_c4'] = c4p
        o['t_back'] = np.array(ef.convert4To2rankTensor(c4p))
        o['t_r4'] = np.array(ef.rotateRank4Tensor(R, c4p))
        o['t_r2'] = np.array(ef.rotateRank2Tensor(R, t))
        o['t_v2t'] = np.array(ef.convertVecTo2rankTensor(vec))
        o['t_t2v'] = np.array(ef.convert2rankToVec(t))
        se = StrainEnergy('ellipsoid')
        d = se.description
        d.midPhiGrid, d.midThetaGrid, d.midWeights = np.array(c['phi']), np.array(c['theta']), np.array(c['w'])
        d.dA = c['dA']
        rec = {}
        hook = ohm_hook(d)
        d.setOhmInverseFunction('quick' if c['quick_inverse'] else 'numpy')
        if hook is not None:
            orig = getattr(d, hook)

            def observed(m):
                out = orig(m)
                rec['in'], rec['out'] = np.array(m, dtype=float).copy(), np.array(out, dtype=float).copy()
                return out
            setattr(d, hook, observed)
        se.setRotationMatrix(R)
        se.setRotationPrecipitate(np.array(c['RP']))
        se.setElasticConstants(*c['cM'])
        se.setElasticConsantsPrecipitate(*c['cP'])
        eps = np.array(c['eps'])
        se.setEigenstrain(eps)
        r = np.array(c['r'])
        o['cM4'], o['cP4'] = np.array(se.params.cMatrix_4th), np.array(se.params.cPrec_4th)
        o['n'], o['et'] = normals_and_endterm(d, r)
        o['D'] = np.array(d.Dijkl(r, o['cM4']))
        if 'in' in rec:
            o['invohm'], o['ohm'] = rec['in'], rec['out']
        else:
            # not observable through the public switch: recompute the Ohm term of every grid point here (the stage
            # "sum over grid points" then still compares the implementation's Dijkl with the model's sum)
            o['unobserved'] = 'the routine that inverts the Ohm term could not be observed (no instance attribute switches with setOhmInverseFunction)'
            nP = np.einsum('kn,ln->kln', o['n'], o['n'])
            o['invohm'] = np.tensordot(o['cM4'], nP, axes=[[1, 2], [0, 1]])
            o['ohm'] = np.transpose(np.linalg.inv(np.transpose(o['invohm'], (2, 0, 1))), (1, 2, 0))
        o['S'] = np.array(d.Sijmn(o['D']))
        o['V'] = float(4 * np.pi / 3 * np.prod(r))
        o['E4'] = float(d.strainEnergyEllipsoid(r))
        o['E2'] = float(d.strainEnergyEllipsoid2ndRank(r))
        with InvRecorder() as ir:
            o['B4'] = float(d.strainEnergyBohm(r))
        o['b4'] = [x for x in ir.calls if x[0].shape == (6, 6)]
        with InvRecorder() as ir:
            o['B2'] = float(d.strainEnergyBohm2ndRank(r))
        o['b2'] = [x for x in ir.calls if x[0].shape == (6, 6)]
        A = np.einsum('ijkl,klmn->ijmn', o['cP4'] - o['cM4'], o['S']) + o['cM4']       # any tensor with the minor symmetries will do
        o['A'], o['iA'] = np.array(A), np.array(ef.invert4rankTensor(A))
        # Khachaturyan with the (unrotated) cubic constants
        s2 = StrainEnergy('sphere')
        s2.setElasticConstants(*c['cM'])
        s2.setEigenstrain(eps)
        kh = getattr(s2.description, '_Khachaturyan', None)
        if callable(kh):
            o['kh'], o['kh_I'] = float(kh(c['I1'], c['I2'], r)), (c['I1'], c['I2'])
        else:                                   # public path: the sphere description uses I1 = 1/15, I2 = 1/105
            o['kh'], o['kh_I'] = float(s2.compute(r)), (1 / 15, 1 / 105)
        o['kh_e00'] = float(eps[0, 0])
        o['ecC'] = np.array(ef.elasticConstantToC(*c['cM']))
    except Exception as e:
        o['err'] = type(e).__name__ + ': ' + str(e)
    return o


STAGES = ['convert2To4rankTensor', 'convert4To2rankTensor', 'rotateRank4Tensor', 'rotateRank2Tensor', 'convertVecTo2rankTensor', 'convert2rankToVec',
          'Ohm term', 'sum over grid points (Dijkl)', 'Sijmn', 'strainEnergyEllipsoid', 'strainEnergyEllipsoid2ndRank',
          'strainEnergyBohm: array handed to np.linalg.inv', 'np.linalg.inv (Bohm)', 'strainEnergyBohm', 'strainEnergyBohm2ndRank: array handed to np.linalg.inv',
          'np.linalg.inv (Bohm2ndRank)', 'strainEnergyBohm2ndRank', 'invert4rankTensor', '_Khachaturyan', 'elasticConstantToC', 'update(): rotated tensors']


def pipe_terms(c, o):
    N = c['N']
    nodes = '[%s]' % '; '.join(q3(o['n'][:, k]) for k in range(N))
    io = ql3([o['invohm'][:, :, k] for k in range(N)])
    oo = ql3([o['ohm'][:, :, k] for k in range(N)])
    fl = lambda a: qlist(np.asarray(a, dtype=float).ravel())
    eps = np.array(c['eps'])
    scale = abs(o['V']) * (np.abs(o['cM4']).max() + np.abs(o['cP4']).max()) * float(np.sum(eps * eps)) * (1 + np.abs(o['S']).max()) ** 2
    if len(o['b4']) != 1 or len(o['b2']) != 1:
        raise RuntimeError('expected exactly one 6x6 np.linalg.inv call in strainEnergyBohm / strainEnergyBohm2ndRank, saw %d / %d' % (len(o['b4']), len(o['b2'])))
    ops = 'chk_ops %s Ellipsoid [OpRotM %s; OpRotP %s; OpMatrix6 %s; OpPrec6 %s] [(3%%nat, %s, %s); (3%%nat, %s, %s); (3%%nat, %s, %s); (3%%nat, %s, %s)]' % (
        RT, ql2(c['RM']), ql2(c['RP']), ql2(cubic_c2(*c['cM'])), ql2(cubic_c2(*c['cP'])),
        fl(np.zeros(81)), fl(np.zeros(81)), fl(np.zeros(81)), fl(np.zeros(81)), fl(o['cM4']), fl(o['cM4']), fl(o['cM4']), fl(o['cP4']))
    return [
        'chk_tensor %s %s %s %s %s %s %s %s %s %s %s' % (RT, ql2(c['c2']), ql2(c['RM']), ql2(c['t']), qlist(c['v']), fl(o['t_c4']), fl(o['t_back']), fl(o['t_r4']),
                                                         fl(o['t_r2']), fl(o['t_v2t']), fl(o['t_t2v'])),
        'chk_ohm %s %s %s %s %s %s' % (RT, boollit(c['quick_inverse']), fl(o['cM4']), nodes, io, oo),
        'chk_D %s %s %s %s %s %s %s %s %s' % (RT, qlit(np.pi), qlit(c['dA']), q3(c['r']), oo, nodes, qlist(o['et']), qlist(c['w']), fl(o['D'])),
        'chk_S %s %s %s %s' % (RT, fl(o['cM4']), fl(o['D']), fl(o['S'])),
        'chk_energy %s %s %s %s %s %s %s %s %s %s %s %s %s %s %s' % (RT, qlit(scale), qlit(o['V']), fl(o['cM4']), fl(o['cP4']), fl(o['S']), ql2(c['eps']),
                                                                     qlit(o['E4']), qlit(o['E2']), qlit(o['B4']), qlit(o['B2']),
                                                                     ql2(o['b4'][0][0]), ql2(o['b4'][0][1]), ql2(o['b2'][0][0]), ql2(o['b2'][0][1])),
        'chk_invert4 %s %s %s' % (RT, fl(o['A']), fl(o['iA'])),
        'chk_khach %s %s %s %s %s %s %s %s %s %s %s' % (RT, qlit(c['cM'][0]), qlit(c['cM'][1]), qlit(c['cM'][2]), qlit(o['kh_e00']), qlit(o['kh_I'][0]), qlit(o['kh_I'][1]),
                                                        qlit(np.pi), q3(c['r']), qlit(o['kh']), fl(o['ecC'])),
        ops,
    ]


def pipe_disagreements(c, res):
    """res: parsed results of the 8 terms of one case -> list of (stage, detail)"""
    out = []

    def vd(v, stage):
        if v is not None:
            k, ap = v[1]
            out.append((stage, 'entry %d: model value %.17g' % (k, float(tofrac(ap)))))
    t, ohm, D, S, en, inv4, kh, ops = res
    for v, st in zip(t, STAGES[:6]):
        vd(v, st)
    for k, v in enumerate(ohm):
        if v is not None:
            out.append((STAGES[6], 'grid point %d, %s: model value %.17g at entry %d' % (k // 2, 'C_iklj n_k n_l' if k % 2 == 0 else 'inverse', float(tofrac(v[1][1])), v[1][0])))
            break
    vd(D, STAGES[7])
    vd(S, STAGES[8])
    for v, st in zip(en, STAGES[9:17]):
        vd(v, st)
    vd(inv4[0], STAGES[17])
    if inv4[1]:
        out.append((STAGES[17], 'model finds the array singular'))
    vd(kh[0], STAGES[18])
    vd(kh[1], STAGES[19])
    if ops is not None:
        out.append((STAGES[20], 'after operation %d: %s differs' % (ops[1][0], {0: 'shape', 1: 'cMatrix_4th', 2: 'cPrec_4th'}.get(ops[1][1], 'length'))))
    return out


# state machine: random setter sequences
SHAPES = {'constant': 'Constant', 'sphere': 'Sphere', 'cube': 'Cube', 'ellipsoid': 'Ellipsoid'}
SHAPE_CODE = {'ConstantEnergyDescription': 0, 'SphericalEnergyDescription': 1, 'CuboidalEnergyDescription': 2, 'EllipsoidalEnergyDescription': 3}


def run_ops_impl(c):
    from kawin.precipitation import StrainEnergy
    se = StrainEnergy(c['shape0'])
    obs = []
    for k, a in c['ops']:
        if k == 'M':
            se.setElasticConstants(*a)
        elif k == 'P':
            se.setElasticConsantsPrecipitate(*a)
        elif k == 'RM':
            se.setRotationMatrix(np.array(a))
        elif k == 'RP':
            se.setRotationPrecipitate(np.array(a))
        else:
            se.setShape(a)
        obs.append((SHAPE_CODE[type(se.description).__name__], np.array(se.params.cMatrix_4th, dtype=float).copy(), np.array(se.params.cPrec_4th, dtype=float).copy()))
    return obs


def ops_term(c, obs):
    ops = []
    for k, a in c['ops']:
        if k == 'M':
            ops.append('OpMatrix6 %s' % ql2(cubic_c2(*a)))
        elif k == 'P':
            ops.append('OpPrec6 %s' % ql2(cubic_c2(*a)))
        elif k == 'RM':
            ops.append('OpRotM %s' % ql2(a))
        elif k == 'RP':
            ops.append('OpRotP %s' % ql2(a))
        else:
            ops.append('OpShape %s' % SHAPES[a])
    ob = ['(%d%%nat, %s, %s)' % (s, qlist(m.ravel()), qlist(p.ravel())) for s, m, p in obs]
    return 'chk_ops %s %s [%s] [%s]' % (RT, SHAPES[c['shape0']], '; '.join(ops), '; '.join(ob))


def correspondence(ctx, quick):
    """returns list of (kind, case, text)"""
    dis = []
    npipe = 10 if quick else 120
    nops = 24 if quick else 400
    pipes = [gen_pipe_case(ctx.rng, quick) for _ in range(npipe)]
    opsc = [gen_ops_case(ctx.rng) for _ in range(nops)]
    terms, owner = [], []
    for c in pipes:
        o = quiet(run_pipe_impl, c)
        ctx.count(hexcase(c), True)
        ctx.hist('kind', 'pipe')
        if o['err']:
            dis.append(('implementation-error', c, 'implementation raised %s' % o['err']))
            continue
        if o.get('unobserved'):
            ctx.notes['ohm_routine_unobserved'] = o['unobserved']
        tt = pipe_terms(c, o)
        terms += tt
        owner.append((c, len(tt)))
    res = ctx.coq_eval('corr_pipe', HEADER, terms, shard=8) if terms else []
    pos = 0
    for c, n in owner:
        for st, detail in pipe_disagreements(c, res[pos:pos + n]):
            dis.append((st, c, '%s: %s' % (st, detail)))
        pos += n
    terms, owner = [], []
    for c in opsc:
        ctx.count(hexcase(c), any(k in ('RM', 'RP') for k, _ in c['ops']))
        ctx.hist('kind', 'ops')
        try:
            obs = quiet(run_ops_impl, c)
        except Exception as e:
            dis.append(('implementation-error', c, 'setter sequence raised %s: %s' % (type(e).__name__, e)))
            continue
        terms.append(ops_term(c, obs))
        owner.append(c)
    res = ctx.coq_eval('corr_ops', HEADER, terms, shard=6) if terms else []
    for c, r in zip(owner, res):
        if r is not None:
            k, what = r[1]
            dis.append((STAGES[20], c, 'StrainEnergy after operation %d (%s): %s differs between model and implementation'
                        % (k, c['ops'][k][0] if k < len(c['ops']) else '?', {0: 'shape', 1: 'cMatrix_4th', 2: 'cPrec_4th'}.get(what, 'length'))))
    ctx.cov['traces_validated_against_impl'] += len(opsc)
    return dis


# ==========================================================================================
# translator: regenerate, and validate the generated text against the running functions
def regenerate(ctx):
    path = os.path.join(REPO, SRC)
    try:
        text, info = tr.translate(open(path).read())
    except tr.TranslationError as e:
        return False, 'translator: %s' % e
    except (OSError, SyntaxError) as e:
        return False, 'source unreadable: %s' % e
    gen = os.path.join(ctx.build, 'Elastic_gen.v')
    with open(gen, 'w') as f:
        f.write(text)
    ok, out = ctx.coqc(gen)
    if not ok:
        return False, 'generated text does not compile: %s' % out[-600:]
    return True, info


def rlit(x):
    f = frac(x)
    if f.denominator == 1:
        return '(%d)' % f.numerator
    return '(%d / %d)' % (f.numerator, f.denominator)


VAL_HEADER = '''From Coq Require Import Reals List Lra.
From Interval Require Import Tactic.
Require Import KawinRun.Elastic_gen.
Import ListNotations.
Open Scope R_scope.
Lemma truthy_some_v v : v <> 0 -> truthy (Some v) = true.
Proof. intros H. unfold truthy. destruct (Req_EM_T v 0); [contradiction|reflexivity]. Qed.
Definition c11_of_v (E nu : R) := E * (1 - nu) / ((1 + nu) * (1 - 2 * nu)).
Definition c12_of_v (E nu : R) := E * nu / ((1 + nu) * (1 - 2 * nu)).
Ltac enc := cbv beta iota zeta delta [quickInverse_gen Khachaturyan_gen constantEnergy_gen n_gen beta_gen Dijkl_prefactor_gen volume_gen
                                       nth fst snd c11_of_v c12_of_v]; interval with (i_prec 90).
Ltac mod_enc := unfold moduliToC_gen; rewrite ?truthy_some_v by lra; cbn [truthy]; cbv beta iota zeta delta [val fin c11_of_v c12_of_v];
                repeat split; interval with (i_prec 90).
'''


def validation_goals(ctx):
    """list of (name, coq goal text, tactic): the generated definitions against the running Python functions"""
    ef = EF()
    from kawin.precipitation import StrainEnergy
    rng = ctx.rng
    goals = []
    tol = lambda y: rlit(max(abs(float(y)), 1e-300) * 2.0 ** -36)
    # _ohm_quickInverse
    d = StrainEnergy('ellipsoid').description
    for _ in range(2):
        m = rng.normal(size=(3, 3))
        m = m @ m.T + np.eye(3)
        y = np.array(d._ohm_quickInverse(m[:, :, None]))[:, :, 0]
        args = ' '.join(rlit(m[i, j]) for i in range(3) for j in range(3))
        for i in range(3):
            for j in range(3):
                goals.append(('_ohm_quickInverse[%d,%d]' % (i, j), 'Rabs (nth %d (nth %d (quickInverse_gen %s) []) 0 - %s) <= %s' % (j, i, args, rlit(y[i, j]), tol(np.abs(y).max())), 'enc'))
    # _n, _beta
    for _ in range(3):
        ph, th = float(rng.uniform(0, 6.2)), float(rng.uniform(0, 3.1))
        a, b, cc = [float(x) for x in 10 ** rng.uniform(-9.5, -8, 3)]
        n = np.array(d._n(ph, th))
        for k, pr in enumerate(['fst (fst (n_gen %s %s))', 'snd (fst (n_gen %s %s))', 'snd (n_gen %s %s)']):
            goals.append(('_n[%d]' % k, 'Rabs (%s - %s) <= %s' % (pr % (rlit(ph), rlit(th)), rlit(n[k]), rlit(2.0 ** -40)), 'enc'))
        bt = float(d._beta(a, b, cc, ph, th))
        goals.append(('_beta', 'Rabs (beta_gen %s %s %s %s %s - %s) <= %s' % (rlit(a), rlit(b), rlit(cc), rlit(ph), rlit(th), rlit(bt), tol(bt)), 'enc'))
    # _Khachaturyan and the constant description
    params = ctx.notes['translator'].get('Khachaturyan_params', [])
    want = ['I1', 'I2', 'radius_0', 'radius_1', 'radius_2', 'params_cMatrix_2nd_0_0', 'params_cMatrix_2nd_0_1', 'params_cMatrix_2nd_3_3', 'params_eigenstrain_0_0']
    if params != want:
        raise tr.TranslationError('parameter order of _Khachaturyan changed: %r' % params)
    for _ in range(3):
        cM = gen_cubic(rng)
        e = float(10 ** rng.uniform(-3, -1.5))
        r = [float(x) for x in 10 ** rng.uniform(-9.5, -8, 3)]
        I1, I2 = float(rng.uniform(0, 0.1)), float(rng.uniform(0, 0.02))
        s2 = StrainEnergy('sphere')
        s2.setElasticConstants(*cM)
        s2.setEigenstrain(e)
        y = float(s2.description._Khachaturyan(I1, I2, np.array(r)))
        goals.append(('_Khachaturyan', 'Rabs (Khachaturyan_gen %s - %s) <= %s' % (' '.join(rlit(x) for x in [I1, I2] + r + cM + [e]), rlit(y), tol(y)), 'enc'))
        s3 = StrainEnergy()
        s3.setConstantElasticEnergy(e * 1e9)
        y = float(s3.compute(np.array(r)))
        if ctx.notes['translator'].get('constant_params') != ['radius_0', 'radius_1', 'radius_2', 'params_constantEnergy']:
            raise tr.TranslationError('parameter order of ConstantEnergyDescription.computeStrainEnergy changed')
        goals.append(('ConstantEnergyDescription.computeStrainEnergy', 'Rabs (constantEnergy_gen %s - %s) <= %s' % (' '.join(rlit(x) for x in r + [e * 1e9]), rlit(y), tol(y)), 'enc'))
    # sphere / cube dispatch constants through the public path
    for shp, tag in (('sphere', 'sphere'), ('cube', 'cube')):
        cM = gen_cubic(rng)
        e = 0.01
        r = [2e-9, 3e-9, 4e-9]
        s2 = StrainEnergy(shp)
        s2.setElasticConstants(*cM)
        s2.setEigenstrain(e)
        y = float(s2.compute(np.array(r)))
        goals.append(("StrainEnergy('%s').compute" % shp, 'Rabs (Khachaturyan_gen %s_I1_gen %s_I2_gen %s - %s) <= %s' % (tag, tag, ' '.join(rlit(x) for x in r + cM + [e]), rlit(y), tol(y)), 'enc'))
    # moduliToC: every pair
    E_, nu = float(10 ** rng.uniform(10, 11.5)), float(rng.uniform(0.05, 0.45))
    G = E_ / (2 * (1 + nu))
    vals = {'E': E_, 'nu': nu, 'G': G, 'lam': E_ * nu / ((1 + nu) * (1 - 2 * nu)), 'K': E_ / (3 * (1 - 2 * nu)), 'M': E_ * (1 - nu) / ((1 + nu) * (1 - 2 * nu))}
    names = ['E', 'nu', 'G', 'lam', 'K', 'M']
    for pair in itertools.combinations(names, 2):
        C = np.array(ef.moduliToC(**{k: vals[k] for k in pair}), dtype=float)
        args = ' '.join('(Some %s)' % rlit(vals[k]) if k in pair else 'None' for k in names)
        goal = ('match moduliToC_gen %s with Some (E, nu, G) => Rabs (c11_of_v E nu - %s) <= %s /\\ Rabs (c12_of_v E nu - %s) <= %s /\\ Rabs (G - %s) <= %s | None => False end'
                % (args, rlit(C[0, 0]), tol(C[0, 0]), rlit(C[0, 1]), tol(C[0, 0]), rlit(C[3, 3]), tol(C[3, 3])))
        goals.append(('moduliToC(%s, %s)' % pair, goal, 'mod_enc'))
    # elasticConstantToC: exact table
    C = np.array(ef.elasticConstantToC(1.0, 2.0, 3.0))
    goals.append(('elasticConstantToC', ' /\\ '.join('elasticConstantToC_gen 1 2 3 %d %d = %d' % (i, j, int(C[i, j])) for i in range(6) for j in range(6)), 'repeat split; reflexivity'))
    return goals


def index_tables(ctx):
    """the generated index maps against probing tensors run through the Python functions (exact, discrete)"""
    ef = EF()
    bad = []
    c2 = np.arange(36, dtype=float).reshape(6, 6) + 1
    c4 = np.array(ef.convert2To4rankTensor(c2))
    probe4 = np.arange(81, dtype=float).reshape(3, 3, 3, 3) + 1
    b2 = np.array(ef.convert4To2rankTensor(probe4))
    v = np.arange(6, dtype=float) + 1
    t = np.array(ef.convertVecTo2rankTensor(v))
    p3 = np.arange(9, dtype=float).reshape(3, 3) + 1
    tv = np.array(ef.convert2rankToVec(p3))
    hdr = 'From Coq Require Import Reals List.\nRequire Import KawinRun.Elastic_gen.\nImport ListNotations.\n'
    idx = '[0;1;2]%nat'
    terms = ['flat_map (fun i => flat_map (fun j => flat_map (fun k => map (fun l => (6 * vmap24_gen i j + vmap24_gen k l)%%nat) %s) %s) %s) %s' % (idx, idx, idx, idx),
             'map (fun p => (3 * fst p + snd p)%nat) vmap42_gen', 'concat vecTo2_idx_gen', 'map (fun p => (3 * fst p + snd p)%nat) rank2ToVec_idx_gen']
    r = ctx.coq_eval('tables', hdr, terms, shard=4)
    if [int(x) - 1 for x in c4.ravel()] != list(r[0]):
        bad.append('convert2To4rankTensor: generated index map differs from what the function does on a probing array')
    exp42 = [int(b2[I, 0]) - 1 for I in range(6)]             # b2[I,0] = probe4[vMap[I], 0, 0] = 27 i + 9 j + 1
    if [x // 9 for x in exp42] != list(r[1]) or any(int(b2[I, J]) - 1 != 27 * (r[1][I] // 3) + 9 * (r[1][I] % 3) + 3 * (r[1][J] // 3) + r[1][J] % 3 for I in range(6) for J in range(6)):
        bad.append('convert4To2rankTensor: generated index map differs from what the function does on a probing array')
    if [int(x) - 1 for x in t.ravel()] != list(r[2]):
        bad.append('convertVecTo2rankTensor: generated index table differs from the function')
    if [int(x) - 1 for x in tv] != list(r[3]):
        bad.append('convert2rankToVec: generated index table differs from the function')
    return bad


def validate_translation(ctx):
    """returns list of descriptions of generated definitions that disagree with the running functions"""
    bad = []
    try:
        bad += index_tables(ctx)
        goals = validation_goals(ctx)
    except tr.TranslationError as e:
        return ['translator: %s' % e]
    lines = [VAL_HEADER]
    start = {}
    for k, (name, goal, tac) in enumerate(goals):
        start[len('\n'.join(lines).splitlines()) + 1] = k
        lines.append('Goal %s.\nProof. %s. Qed.' % (goal, tac))
    path = os.path.join(ctx.build, 'Validate.v')
    remaining = list(range(len(goals)))
    # one file; on failure drop the failing goal and retry (at most a few times) to name every failing definition
    for attempt in range(6):
        body = [VAL_HEADER]
        where = []
        for k in remaining:
            where.append((len('\n'.join(body).splitlines()) + 1, k))
            body.append('Goal %s.\nProof. %s. Qed.' % (goals[k][1], goals[k][2]))
        with open(path, 'w') as f:
            f.write('\n'.join(body) + '\n')
        ok, out = ctx.coqc(path)
        if ok:
            break
        m = re.search(r'line (\d+)', out)
        if not m:
            bad.append('validation file does not compile: %s' % out[-300:])
            break
        ln = int(m.group(1))
        k = [kk for (l0, kk) in where if l0 <= ln][-1]
        bad.append('%s: generated definition is not within 2^-36 of the value the Python function returns' % goals[k][0])
        remaining.remove(k)
    ctx.notes['translator_validation_goals'] = len(goals)
    ctx.cov['evaluations'] += len(goals)
    return bad


# ==========================================================================================
def run(ctx):
    quick = ctx.quick
    ctx.cov['rule'] = ('oracle cases: positive-definite cubic / isotropic stiffness pairs (bulk, shear and tetragonal shear moduli log-uniform), random / identity / '
                       '90-degree rotations, dilatational / diagonal / single-shear / general eigenstrains, spheres / spheroids (aspect 0.06-16) / triaxial radii, '
                       'the three shipped Lebedev orders and an exact Gauss product rule; isotropic cases with nu in (-0.6, 0.45); all 15 modulus pairs; '
                       'correspondence cases: 2-8 arbitrary grid points with arbitrary weights and dA, both 3x3 inverse routines, random setter sequences; '
                       'a case is non-trivial when its eigenstrain is non-zero / its setter sequence contains a rotation; distinct by hash of the exact input')
    # ---- 1. regenerate the model of the code --------------------------------------------------
    tie_ok, info = regenerate(ctx)
    failed = []
    if tie_ok:
        ctx.notes['translator'] = info
        ctx.notes['generated_sha256'] = info['sha256']
        axioms, failed = ctx.prove(['C16/Properties.v', 'C16/PropertiesExt.v'] + RUN_FILES)
    else:
        ctx.notes['tie_broken'] = info
        axioms, failed = ctx.prove(['C16/Properties.v', 'C16/PropertiesExt.v'])
        failed = list(failed)
        for rel_ in RUN_FILES:
            thms = re.findall(r'^\s*Theorem\s+([A-Za-z_0-9\']+)', open(os.path.join(COQ, rel_)).read(), re.M)
            ctx.cov['obligations'] += len(thms)
            failed += thms
    # ---- 2. corpus + search with the independent oracle (always) ----------------------------------
    hits = []
    for c in corpus_cases():
        name = c.pop('from_corpus')
        try:
            hs = evaluate_case(c)
        except Exception as e:
            hs = [('no_internal_error', 'exception', 'corpus case %s raised %s' % (name, e))]
        ctx.count(hexcase(c), True)
        ctx.hist('kind', 'corpus')
        hits += [(c, *h) for h in hs]
    cases = gen_search(ctx.rng, quick)
    for i, c in enumerate(cases):
        try:
            hs = evaluate_case(c)
        except Exception as e:
            hs = [('no_internal_error', 'exception', '%s case raised %s: %s' % (c['kind'], type(e).__name__, e))]
        ctx.count(hexcase(c), True)
        ctx.hist('kind', c['kind'])
        for k in ('quad', 'eps_kind', 'r_kind'):
            if k in c:
                ctx.hist(k, c[k])
        if i % 37 == 5:
            ctx.sample({'input': {k: v2 for k, v2 in c.items() if k in ('kind', 'cM', 'cP', 'eps', 'r', 'quad', 'nu', 'G', 'E', 'order')}, 'oracle_violations': len(hs)})
        hits += [(c, *h) for h in hs]
    # ---- 3. the generated text is what runs; the hand model is what runs -----------------------------
    bad_gen, dis = [], []
    if tie_ok:
        try:
            bad_gen = validate_translation(ctx)
        except Exception as e:
            bad_gen = ['translator validation could not be evaluated: %s' % e]
    try:
        dis = correspondence(ctx, quick)
    except Exception as e:
        dis = [('corr-crash', None, 'correspondence could not be evaluated: %s' % e)]
    ctx.notes['disagreements'] = len(dis)
    ctx.notes['translator_validation_failures'] = bad_gen
    ctx.notes['oracle_hits'] = len(hits)
    broken = (not tie_ok) or failed or dis or bad_gen
    new_hits = [h for h in hits if not _is_known(ctx, h)]
    if broken and not new_hits:
        # something no longer checks: search harder for a concrete failing input
        more = gen_search(ctx.rng, quick, budget=3.0)
        for c in more:
            try:
                hits += [(c, *h) for h in evaluate_case(c)]
            except Exception as e:
                hits.append((c, 'no_internal_error', 'exception', '%s case raised %s' % (c['kind'], e)))
        ctx.cov['evaluations'] += len(more)
        new_hits = [h for h in hits if not _is_known(ctx, h)]
    report_hits(ctx, hits)
    if not new_hits:
        if not tie_ok:
            ctx.violation('translator', {'site': 'harness/c16_translate.py', 'cls': 'unsupported source'},
                          {'broken': {'tie': 'translator', 'error': info, 'file': SRC}},
                          'tie broken: the source is outside the translated subset (%s); the search found no failing input' % info, no_input=True)
        else:
            for t in failed:
                ctx.violation(t, {'site': 'coq/C16', 'cls': 'proof'},
                              {'broken': {'theorem': t, 'errors': ctx.notes.get('coq_errors', [])[:2]}},
                              'theorem %s no longer checks against the text generated from the current source' % t, no_input=True)
        for b in bad_gen[:3]:
            ctx.violation('translator_validation', {'site': 'harness/c16_translate.py', 'cls': b.split(':')[0]},
                          {'broken': {'tie': 'generated text vs running function', 'what': b}}, b, no_input=True)
        for kind, c, d in dis[:1]:
            ctx.violation('correspondence', {'site': 'coq/C16/Model.v', 'cls': kind},
                          {'broken': {'correspondence': 'coq/C16/Model.v (BigQ) vs ' + SRC, 'first_disagreement': d},
                           'input': hexcase(c) if c else None, 'disagreements': len(dis)},
                          'model and implementation disagree (%d stage checks), e.g. %s' % (len(dis), d), no_input=True)
    elif failed or not tie_ok:
        ctx.notes['unchecked_theorems'] = failed
    ctx.assumptions += [
        'SAMPLED ONLY (independent oracle on the real code, every run): non-negativity of the energy for positive-definite stiffness; the textbook components of the Eshelby tensor (sphere: closed form; ellipsoid: Mura I-integrals by adaptive quadrature); closed forms for dilatational and pure-shear eigenstrain in a sphere; exactness of the shipped Lebedev rules on all monomials up to the stated order (quick tier: up to degree 23) and octahedral invariance of their node sets; orientation independence on the shipped quadratures',
        'np.linalg.inv is an oracle of the model: theorems state what they need of it (a left inverse of its argument); in the correspondence its calls are observed and checked against exact Gauss-Jordan elimination',
        'the quadrature is an arbitrary list of (phi, theta, weight) in every theorem; Eshelby theory itself (that the surface integral is the Eshelby tensor) is not formalised',
        'binary64 rounding and numpy summation order are not modelled: stage outputs are compared norm-wise with relative tolerance 2^-30, generated scalar formulas pointwise with 2^-36 (interval arithmetic)',
        'applied stress / strainEnergyEllipsoidWithStress, the equilibrium aspect ratio searches and the midpoint grid of setIntegrationIntervals are outside the property text and are not modelled']
    ctx.cov['trusted_base'] += ['Coq 8.16.1 kernel, vm_compute, Bignums BigQ (correspondence only), Interval tactic (translator validation only)',
                                'translator harness/c16_translate.py (fail-closed; validated on every run against the running Python functions)',
                                'hand-written tensor model coq/C16/Model.v + stage-wise correspondence coq/C16/Corr.v, harness/c16.py',
                                'float -> Q transport and output parser in harness/common.py',
                                'oracle formulas of harness/c16.py (Eshelby tensor of an isotropic ellipsoid after Mura eq. 11.16, scipy.integrate.quad; Gauss product rule from numpy)']


def _is_known(ctx, h):
    c, clause, cls, msg = h
    site = {'lebedev': 'LebedevNodes.loadPoints'}.get(c['kind'], 'ElasticFactors')
    sig = {'clause': clause, 'site': site, 'cls': cls}
    return any(k.get('property') == ctx.prop and k.get('status') == 'open' and k.get('signature') == sig for k in ctx.known)


def replay(ctx, obj):
    c = unhex(obj.get('input') or obj)
    c.pop('from_corpus', None)
    if 'kind' not in c:
        print('replay: the file names no failing input (%s)' % obj.get('what', obj.get('clause')))
        return 1
    hits = evaluate_case(c)
    for h in hits:
        print('replay:', h)
    print('replay: %d oracle violations on this input' % len(hits))
    return 1 if hits else 0
