"""C18 - coupled strength and grain-growth models stay physical and aligned.

tie (translator): kawin/precipitation/coupling/Strength.py, GrainGrowth.py and GenericModel.py are translated
                on EVERY run (harness/c18_translate.py -> build/C18/Strength_gen.v): all formula methods, the
                clipping rules of getStrengthContributions, and the frozen shape of every method the hand model
                mirrors.  coq/C18/run/Bridge.v + BridgeS.v prove generated = model, run/GenProperties{A,B,C}.v restate the
                theorems for the generated text.
tie (enclosure): for sampled exact inputs the running Python methods are compared with the generated
                definitions / the hand model by goals |f(x) - y| <= tol |y| proved by interval arithmetic in Coq
                (formulas, combination, superposition, radius / spacing, Zener drag term).
tie (execution): clipping on injected raw values (exact goals), the grain-growth kernels on exact rationals
                (vm_compute), the grain-growth clock on binary64 bit for bit, history lengths of coupled runs.
proof:          coq/C18/Properties.v and run/GenProperties*.v
search/oracle:  written from the property text, independent of the code under test; always run.
"""
import json, math, io, contextlib, concurrent.futures, warnings, inspect, threading, copy
from fractions import Fraction
import numpy as np
from common import *
import c18_translate as tr

LEVEL = 'proof'
RUN_FILES = ['C18/run/BridgeS.v', 'C18/run/GenPropertiesB.v', 'C18/run/GenPropertiesC.v', 'C18/run/Bridge.v', 'C18/run/GenPropertiesA.v']
SRC = ['kawin/precipitation/coupling/Strength.py', 'kawin/precipitation/coupling/GrainGrowth.py', 'kawin/GenericModel.py']
S_SITE = 'Strength'
G_SITE = 'GrainGrowth'
EPS = float(np.finfo(float).eps)
# half a unit in the last printed digit of the rounded constants of the mixed-dislocation formulas
MIXED_TOL = {'coherencyWeak': 5e-5, 'coherencyStrong': 5e-5, 'APBstrong': 7.5e-3}
PAIRS = {  # mixed formula -> (edge counterpart, screw counterpart, counterpart carries J)
    'coherencyWeak': ('coherencyWeakEdge', 'coherencyWeakScrew'), 'coherencyStrong': ('coherencyStrongEdge', 'coherencyStrongScrew'),
    'modulusWeak': ('modulusWeakEdge', 'modulusWeakScrew'), 'APBweak': ('APBweakEdge', 'APBweakScrew'),
    'APBstrong': ('APBstrongEdge', 'APBstrongScrew'), 'SFEweak': ('SFEweakNarrowEdge', 'SFEweakNarrowScrew'),
    'SFEstrong': ('SFEstrongNarrowEdge', 'SFEstrongNarrowScrew'), 'interfacialWeak': ('interfacialWeakEdge', 'interfacialWeakScrew'),
    'interfacialStrong': ('interfacialStrongOld', 'interfacialStrongOld')}
CONTRIB = ['coherency', 'modulus', 'apb', 'sfe', 'interfacial']
WEAK = ['coherencyWeak', 'modulusWeak', 'APBweak', 'SFEweak', 'interfacialWeak']
STRONG = ['coherencyStrong', 'modulusStrong', 'APBstrong', 'SFEstrong', 'interfacialStrong']


class TieBroken(Exception):
    """the harness cannot observe the implementation the way the model needs (e.g. a public extension point is gone):
    reported as a broken tie without input, never as a failing input"""


def quiet(fn, *a, **k):
    with warnings.catch_warnings():
        warnings.simplefilter('ignore')
        with np.errstate(all='ignore'):
            return fn(*a, **k)


def impl():
    from kawin.precipitation.coupling.Strength import StrengthModel
    from kawin.precipitation.coupling.GrainGrowth import GrainGrowthModel
    from kawin.solver import SolverType
    return StrengthModel, GrainGrowthModel, SolverType


# ==========================================================================================
# parameter sets
def gen_params(rng, full=False):
    b = float(rng.uniform(0.2e-9, 0.3e-9))
    P = {'G': float(rng.uniform(20e9, 90e9)), 'b': b, 'nu': float(rng.uniform(0.2, 0.4)),
         'ri': None if rng.random() < 0.3 else float(b * rng.uniform(1, 4)),
         'theta_deg': float(rng.choice([0.0, 90.0, float(rng.uniform(1, 89))])), 'psi_deg': float(rng.uniform(100, 140)),
         'w1': float(rng.uniform(0.0175, 0.0722)), 'w2': float(rng.uniform(0.72, 0.9)),
         's': float(rng.choice([1, 2])), 'beta': float(rng.uniform(0.5, 1)), 'V': float(rng.uniform(1, 3)),
         'ySFM': float(rng.uniform(0.02, 0.3)), 'M': float(rng.uniform(1, 3.1)), 'sigma0': float(rng.choice([0.0, rng.uniform(1e6, 1e8)])),
         'Tmodel': str(rng.choice(['complex', 'simple'])), 'Jmodel': str(rng.choice(['simple', 'complex'])),
         'exps': [float(rng.choice([1.0, 1.8, 2.0, float(rng.uniform(1, 2.5))])) for _ in range(4)],
         'phases': ['beta', 'gammap'][:int(rng.integers(1, 3))], 'contrib': {}}

    def one(prob):
        d = {}
        if rng.random() < prob:
            d['eps'] = float(10 ** rng.uniform(-4, -1.7))
        if rng.random() < prob:
            d['Gp'] = float(rng.uniform(20e9, 200e9))
        if rng.random() < prob:
            d['yAPB'] = float(rng.uniform(0.01, 0.5))
        if rng.random() < prob:
            d['ySFP'] = float(rng.uniform(0.01, 0.3))
            d['bp'] = None if rng.random() < 0.5 else float(b * rng.uniform(0.8, 1.2))
        if rng.random() < prob:
            d['gamma'] = float(rng.uniform(0.01, 1))
        return d
    P['contrib']['all'] = one(1.0 if full else 0.6)
    for ph in P['phases']:
        P['contrib'][ph] = {} if full else one(0.35)
    return P


def build_strength(P):
    SM = impl()[0]
    s = SM()
    s.setDislocationParameters(P['G'], P['b'], P['nu'], P['ri'], P['theta_deg'], P['psi_deg'])
    for ph, d in P['contrib'].items():
        if 'eps' in d:
            s.setCoherencyParameters(d['eps'], phase=ph)
        if 'Gp' in d:
            s.setModulusParameters(d['Gp'], P['w1'], P['w2'], phase=ph)
        if 'yAPB' in d:
            s.setAPBParameters(d['yAPB'], P['s'], P['beta'], P['V'], phase=ph)
        if 'ySFP' in d:
            s.setSFEParameters(P['ySFM'], d['ySFP'], d.get('bp'), phase=ph)
        if 'gamma' in d:
            s.setInterfacialParameters(d['gamma'], phase=ph)
    s.setTaylorFactor(P['M'])
    s.setStrengthSuperpositionExponent(*P['exps'])
    s.setBaseStrength(P['sigma0'])
    s.setTmodel(P['Tmodel'])
    s.setJfactor(P['Jmodel'])
    return s


class FakeHost:
    """what precStrength / plot functions read from the host"""
    def __init__(self, phases):
        self.phases = list(phases)


def gen_radii(rng, P, n):
    """mean radii and spacings incl. zeros, sub-core radii (2r < ri), tiny and large values"""
    ri = P['ri'] if P['ri'] is not None else P['b']
    r, L = [], []
    for _ in range(n):
        k = rng.choice(['none', 'subcore', 'core', 'normal', 'large', 'zeroL', 'zeror'], p=[0.1, 0.25, 0.1, 0.35, 0.1, 0.05, 0.05])
        if k == 'none':
            r.append(0.0), L.append(0.0)
        elif k == 'subcore':
            r.append(float(ri * rng.uniform(0.01, 0.499))), L.append(float(10 ** rng.uniform(-9, -6)))
        elif k == 'core':
            r.append(float(ri * rng.choice([0.5, 1.0, 2.0]))), L.append(float(10 ** rng.uniform(-9, -6)))
        elif k == 'normal':
            r.append(float(10 ** rng.uniform(-9.5, -7.5))), L.append(float(10 ** rng.uniform(-8.5, -6)))
        elif k == 'large':
            r.append(float(10 ** rng.uniform(-7, -4))), L.append(float(10 ** rng.uniform(-7, -3)))
        elif k == 'zeroL':
            r.append(float(10 ** rng.uniform(-9.5, -7.5))), L.append(0.0)
        else:
            r.append(0.0), L.append(float(10 ** rng.uniform(-8.5, -6)))
    return r, L


# ==========================================================================================
# oracle 1: strength pipeline on the implementation (written from the property text)
def sup(vals, n):
    """(sum v^n)^(1/n) for non-negative v, scalar loops"""
    tot = 0.0
    for v in vals:
        tot += v ** n if v > 0 else 0.0
    return tot ** (1.0 / n) if tot > 0 else 0.0


def run_strength(c):
    P = c['params']
    out = {'err': None}
    try:
        s = build_strength(P)
        r = np.array(c['r'], dtype=float)
        L = np.array(c['Ls'], dtype=float)
        ss = np.array(c.get('ss', [0.0] * len(r)), dtype=float)
        out['phases'] = []
        for ph in P['phases']:
            w, st, o, labels = quiet(s.getStrengthContributions, r.copy(), L.copy(), ph)
            w, st, o = np.array(w, dtype=float), np.array(st, dtype=float), np.array(o, dtype=float)
            strength, cmpf, branches = quiet(s.combineStrengthContributions, w.copy(), st.copy(), o.copy(), returnComparison=True)
            plain = quiet(s.combineStrengthContributions, w.copy(), st.copy(), o.copy())
            out['phases'].append({'phase': ph, 'w': w, 's': st, 'o': o, 'labels': list(labels), 'strength': np.array(strength, dtype=float),
                                  'plain': np.array(plain, dtype=float), 'cmp': np.array(cmpf, dtype=bool),
                                  'branches': [np.array(x, dtype=float) for x in branches]})
        s.rss = np.tile(r[:, None], (1, len(P['phases'])))
        s.ls = np.tile(L[:, None], (1, len(P['phases'])))
        s.solidStrength = ss
        out['prec'] = np.array(quiet(s.precStrength, FakeHost(P['phases'])), dtype=float)
        out['total'] = np.array(quiet(s.totalStrength, ss, out['prec'].copy()), dtype=float)
        bump = [np.array(quiet(s.totalStrength, ss * 1.5 + 1e6, out['prec'].copy()), dtype=float),
                np.array(quiet(s.totalStrength, ss, out['prec'] * 1.5 + 1e6), dtype=float)]
        s.setBaseStrength(P['sigma0'] * 1.5 + 1e6)
        bump.append(np.array(quiet(s.totalStrength, ss, out['prec'].copy()), dtype=float))
        out['bump'] = bump
        out['M'], out['n'], out['ri'] = float(s.M), float(s.singlePhaseExp), float(s.ri)
        out['nT'] = float(s.totalStrengthExp)
    except Exception as e:
        out['err'] = type(e).__name__ + ': ' + str(e)
    return out


def radius_class(r, L, ri):
    if r == 0 and L == 0:
        return 'no precipitates'
    if r == 0:
        return 'zero radius'
    if L == 0:
        return 'zero spacing'
    if 2 * r < ri:
        return 'sub-core radius'
    return 'radius above the core'


def oracle_strength(c):
    v = []
    o = run_strength(c)
    if o['err']:
        return [('no_internal_error', 'exception', 'strength methods raised %s' % o['err'])]
    P = c['params']
    r, L = c['r'], c['Ls']
    N = len(r)
    M, n, ri = o['M'], o['n'], o['ri']

    def bad(x):
        return (not math.isfinite(x)) or x < 0
    for ph in o['phases']:
        name = ph['phase']
        for arr, kind in ((ph['w'], 'weak'), (ph['s'], 'strong')):
            for row in np.atleast_2d(arr) if np.size(arr) else []:
                for j in range(N):
                    if bad(row[j]):
                        v.append(('contribution_nonneg', '%s, %s' % (kind, radius_class(r[j], L[j], ri)),
                                  '%s contribution %r for r=%r, Ls=%r (phase %s): must be finite and non-negative' % (kind, row[j], r[j], L[j], name)))
        for j in range(N):
            if bad(ph['o'][j]):
                v.append(('contribution_nonneg', 'orowan, %s' % radius_class(r[j], L[j], ri),
                          'Orowan contribution %r for r=%r, Ls=%r, core radius %r: must be finite and non-negative' % (ph['o'][j], r[j], L[j], ri)))
            sj = ph['strength'][j]
            if bad(sj):
                v.append(('prec_strength_nonneg', 'one phase, %s' % radius_class(r[j], L[j], ri),
                          'precipitate strength of phase %s is %r for r=%r, Ls=%r' % (name, sj, r[j], L[j])))
            if r[j] == 0 and L[j] == 0 and sj != 0:
                v.append(('zero_without_precipitates', 'one phase', 'strength %r with no precipitates (r = Ls = 0)' % sj))
            if ph['plain'][j] != sj and not (math.isnan(sj) and math.isnan(ph['plain'][j])):
                v.append(('prec_is_M_times_min', 'returnComparison', 'combineStrengthContributions returns %r without and %r with returnComparison' % (ph['plain'][j], sj)))
            # Taylor factor times the smallest branch, branches recomputed from the returned contributions
            W = [float(x[j]) for x in np.atleast_2d(ph['w'])] if np.size(ph['w']) else []
            S = [float(x[j]) for x in np.atleast_2d(ph['s'])] if np.size(ph['s']) else []
            if all(math.isfinite(x) and x >= 0 for x in W + S) and math.isfinite(ph['o'][j]):
                exp = M * min(sup(W, n) if W else 0.0, sup(S, n) if S else 0.0, float(ph['o'][j]))
                if not (abs(sj - exp) <= 1e-9 * abs(exp)):
                    v.append(('prec_is_M_times_min', 'value', 'strength %r, Taylor factor %r times the smallest of weak %r, strong %r, Orowan %r = %r'
                              % (sj, M, sup(W, n) if W else 0.0, sup(S, n) if S else 0.0, float(ph['o'][j]), exp)))
    nph = len(o['phases'])
    for j in range(N):
        pj, tj = o['prec'][j], o['total'][j]
        cls = radius_class(r[j], L[j], ri)
        if bad(pj):
            v.append(('prec_strength_nonneg', 'all phases, %s' % cls, 'precStrength = %r for r=%r, Ls=%r' % (pj, r[j], L[j])))
        if bad(tj):
            v.append(('total_nonneg', cls, 'totalStrength = %r for r=%r, Ls=%r' % (tj, r[j], L[j])))
        if r[j] == 0 and L[j] == 0 and pj != 0:
            v.append(('zero_without_precipitates', 'all phases', 'precStrength %r with no precipitates' % pj))
        ok_parts = all(math.isfinite(ph['strength'][j]) and ph['strength'][j] >= 0 for ph in o['phases'])
        if ok_parts and math.isfinite(pj):
            for ph in o['phases']:
                if pj < ph['strength'][j] * (1 - 1e-9):
                    v.append(('prec_ge_each_phase', 'phases', 'precStrength %r below the strength %r of phase %s' % (pj, ph['strength'][j], ph['phase'])))
            if nph == 1 and abs(pj - o['phases'][0]['strength'][j]) > 1e-9 * abs(pj):
                v.append(('prec_ge_each_phase', 'single phase', 'precStrength %r differs from the only phase strength %r' % (pj, o['phases'][0]['strength'][j])))
        ssj = c.get('ss', [0.0] * N)[j]
        if math.isfinite(pj) and pj >= 0 and math.isfinite(tj) and ssj >= 0:
            for part, nm in ((P['sigma0'], 'base strength'), (ssj, 'solid-solution strength'), (pj, 'precipitate strength')):
                if tj < part * (1 - 1e-9):
                    v.append(('total_ge_parts', nm, 'total strength %r below its part %s = %r' % (tj, nm, part)))
            for k, nm in enumerate(('solid-solution strength', 'precipitate strength', 'base strength')):
                if o['bump'][k][j] < tj * (1 - 1e-9) or not math.isfinite(o['bump'][k][j]):
                    v.append(('total_monotone', nm, 'total strength falls from %r to %r when the %s is raised' % (tj, o['bump'][k][j], nm)))
    return _dedupe(v)


def _dedupe(v):
    seen, out = set(), []
    for h in v:
        if (h[0], h[1]) not in seen:
            seen.add((h[0], h[1]))
            out.append(h)
    return out


def gen_strength_case(rng):
    P = gen_params(rng)
    n = int(rng.integers(3, 9))
    r, L = gen_radii(rng, P, n)
    ss = [float(x) for x in rng.choice([0.0, 1e6, 5e7, 3e8], n)]
    return {'kind': 'strength', 'params': P, 'r': r, 'Ls': L, 'ss': ss}


# ---- phase-specific vs global parameters -------------------------------------------------------
def oracle_phase_params(c):
    """a contribution enabled for the phase uses the phase's parameters, one enabled for 'all' only uses the
    global ones, others are absent; checked with the formula methods themselves (tied separately)"""
    v = []
    P = c['params']
    try:
        s = build_strength(P)
        r, L = np.array(c['r'], dtype=float), np.array(c['Ls'], dtype=float)
        r0w = L / np.sqrt(np.cos(s.psi / 2))
        for ph in P['phases'] + ['unknown-phase']:
            w, st, o, labels = quiet(s.getStrengthContributions, r.copy(), L.copy(), ph)
            keys = {'coherency': 'eps', 'modulus': 'Gp', 'apb': 'yAPB', 'sfe': 'ySFP', 'interfacial': 'gamma'}
            exp_rows = []
            for i, cn in enumerate(CONTRIB):
                inph = keys[cn] in P['contrib'].get(ph, {})
                inall = keys[cn] in P['contrib']['all']
                if inph or inall:
                    src = ph if inph else 'all'
                    ew = quiet(getattr(s, WEAK[i]), r, L, r0w, src)
                    es = quiet(getattr(s, STRONG[i]), r, L, L, src)
                    exp_rows.append((cn, src, np.array(ew, dtype=float) * np.ones(len(r)), np.array(es, dtype=float) * np.ones(len(r))))
            if len(exp_rows) != len(np.atleast_2d(w)) * (1 if np.size(w) else 0) or len(labels) != len(exp_rows):
                v.append(('phase_parameters', 'set of contributions', 'phase %s: %d contributions returned (%s), expected %s'
                          % (ph, len(labels), labels, [(a, b) for a, b, _, _ in exp_rows])))
                continue
            for k, (cn, src, ew, es) in enumerate(exp_rows):
                for got, ex, kind in ((np.atleast_2d(w)[k], ew, 'weak'), (np.atleast_2d(st)[k], es, 'strong')):
                    ex = np.where(np.isfinite(ex) & (ex >= 0), ex, 0.0)
                    if not np.allclose(got, ex, rtol=1e-12, atol=0):
                        j = int(np.argmax(~np.isclose(got, ex, rtol=1e-12, atol=0)))
                        v.append(('phase_parameters', 'parameter source', 'phase %s, %s %s contribution %r; with the parameters of %r the formula gives %r'
                                  % (ph, cn, kind, got[j], src, ex[j])))
    except Exception as e:
        v.append(('no_internal_error', 'exception', 'getStrengthContributions raised %s: %s' % (type(e).__name__, e)))
    return _dedupe(v)


# ---- oracle 2: mixed formulas at 90 / 0 degrees ------------------------------------------------
def oracle_mixed(c):
    v = []
    P = dict(c['params'])
    P['Jmodel'] = 'simple'
    for deg, idx, which in ((90.0, 0, 'edge'), (0.0, 1, 'screw')):
        P['theta_deg'] = deg
        try:
            s = build_strength(P)
            r, L = np.array(c['r'], dtype=float), np.array(c['Ls'], dtype=float)
            for r0 in (L, L / np.sqrt(np.cos(s.psi / 2))):
                for mname, pair in PAIRS.items():
                    a = np.array(quiet(getattr(s, mname), r, L, r0), dtype=float) * np.ones(len(r))
                    e = np.array(quiet(getattr(s, pair[idx]), r, L, r0), dtype=float) * np.ones(len(r))
                    tol = MIXED_TOL.get(mname, 1e-12)
                    for j in range(len(r)):
                        if math.isfinite(a[j]) and math.isfinite(e[j]) and abs(a[j] - e[j]) > tol * abs(e[j]):
                            v.append(('mixed_reduces_to_' + which, mname, '%s at %g degrees = %r, %s formula %s = %r (relative difference %.3g, printed-constant tolerance %g; r=%r, Ls=%r, r0=%r)'
                                      % (mname, deg, a[j], which, pair[idx], e[j], abs(a[j] - e[j]) / abs(e[j]), tol, r[j], L[j], r0[j])))
                            break
        except Exception as ex:
            v.append(('no_internal_error', 'exception', 'formula methods raised %s: %s' % (type(ex).__name__, ex)))
    return _dedupe(v)


def gen_mixed_case(rng):
    P = gen_params(rng, full=True)
    n = 4
    r = [float(10 ** rng.uniform(-9.3, -7.5)) for _ in range(n)]
    L = [float(10 ** rng.uniform(-8.3, -6)) for _ in range(n)]
    return {'kind': 'mixed', 'params': P, 'r': r, 'Ls': L}


# ==========================================================================================
# oracle 3: Zener drag on the implementation
def make_grain(c):
    """GrainGrowthModel on the grid / distribution of the case"""
    GG, ST = impl()[1], impl()[2]
    b = np.array(c['bounds'], dtype=float)
    n = len(b) - 1
    g = GG(float(b[0]), float(b[-1]), n, max(1, n // 2), 4 * n + 8, solverType=ST.EXPLICITEULER if c.get('solver', 'euler') == 'euler' else ST.RK4)
    g.pbm.PSDbounds = b.copy()
    g.pbm.PSDsize = 0.5 * (b[:-1] + b[1:])
    g.pbm.bins = n
    g.pbm.min, g.pbm.max = b[0], b[-1]
    g.pbm.PSD = np.array(c['psd'], dtype=float).copy()
    g.setGrainBoundaryEnergy(c['gbe'])
    g.setGrainBoundaryMobility(c['Mgb'])
    g.setAlpha(c['alpha'])
    return g


class _DragHost:
    """what computeZenerRadius reads from a host: one fictitious phase with volume fraction z, mean radius 1"""
    def __init__(self, z):
        self.phases = ['c18-drag']
        self.pData = type('PData', (), {})()
        self.pData.n = 0
        self.pData.Ravg = np.array([[1.0 if z > 0 else 0.0]])
        self.pData.volFrac = np.array([[float(z)]])


def set_drag(g, z):
    """impose the drag level z through the public API (no private attribute is written): with m = 1, K = 1 and a mean
    radius of 1 computeZenerRadius gives z**1 / (1 * 1) = z exactly"""
    g.setZenerParameters(1.0, 1.0, phase='c18-drag')
    g.computeZenerRadius(_DragHost(z))


def watch_growth(g):
    """instance-level wrappers of the public constrainedGrowth / pbm.getdXdtEuler: what drag level the model applies and
    which growth field it hands to the population balance"""
    seen = {'z': None, 'growth': None}
    real_c, real_d = g.constrainedGrowth, g.pbm.getdXdtEuler

    def constrained(growthRate, z=0):
        seen['z'] = float(z)
        return real_c(growthRate, z)

    def getdXdtEuler(growth, *a, **k):
        seen['growth'] = np.array(growth, dtype=float).copy()
        return real_d(growth, *a, **k)
    g.constrainedGrowth = constrained
    g.pbm.getdXdtEuler = getdXdtEuler
    return seen


def oracle_zener(c):
    v = []
    try:
        g = make_grain(c)
        rate = np.array(c['rate'], dtype=float)
        z = c['z']
        before = rate.copy()
        cg = np.array(g.constrainedGrowth(rate, z), dtype=float)
        drag = c['alpha'] * c['Mgb'] * c['gbe'] * z
        if not np.array_equal(before, rate):
            v.append(('zener_argument_unchanged', 'mutation', 'constrainedGrowth modified the growth rate it was given'))
        if len(cg) != len(rate):
            return [('zener_never_reverses', 'shape', 'constrainedGrowth returned %d rates for %d boundaries' % (len(cg), len(rate)))]
        for k in range(len(rate)):
            gk, ck = rate[k], cg[k]
            if gk * ck < 0 or (gk == 0 and ck != 0):
                v.append(('zener_never_reverses', 'sign', 'rate %r becomes %r under drag %r: reversed' % (gk, ck, drag)))
            if abs(ck) > abs(gk):
                v.append(('zener_never_accelerates', 'magnitude', 'rate %r becomes %r under drag %r: accelerated' % (gk, ck, drag)))
            if abs(gk) <= drag * (1 - 4 * EPS) and ck != 0:
                v.append(('zener_freezes', 'entry', 'rate %r does not exceed the drag %r but the boundary moves at %r' % (gk, drag, ck)))
            if abs(gk) > drag * (1 + 4 * EPS):
                exp = gk - math.copysign(drag, gk)
                if abs(ck - exp) > 1e-12 * (abs(gk) + drag):
                    v.append(('zener_drag_value', 'entry', 'rate %r under drag %r becomes %r, expected %r' % (gk, drag, ck, exp)))
        if z == 0 and not np.array_equal(cg, rate):
            v.append(('zener_no_drag', 'identity', 'without drag the rates change: %r -> %r' % (list(rate[:4]), list(cg[:4]))))
    except Exception as e:
        v.append(('no_internal_error', 'exception', 'constrainedGrowth raised %s: %s' % (type(e).__name__, e)))
    return _dedupe(v)


def gen_grid(rng, nmax=12):
    n = int(rng.integers(2, nmax + 1))
    lo = float(10 ** rng.uniform(-7, -5.5))
    hi = lo * float(10 ** rng.uniform(0.5, 2))
    b = np.linspace(lo, hi, n + 1)
    rm = 0.5 * (b[:-1] + b[1:])
    mu = rng.uniform(np.log(rm[0]), np.log(rm[-1]))
    sg = rng.uniform(0.2, 0.8)
    psd = np.exp(-(np.log(rm) - mu) ** 2 / (2 * sg * sg)) * float(10 ** rng.uniform(8, 14))
    psd[rng.random(n) < 0.15] = 0
    if psd.sum() == 0:
        psd[n // 2] = 1e10
    return [float(x) for x in b], [float(x) for x in psd]


def gen_zener_case(rng):
    b, psd = gen_grid(rng)
    n = len(b)
    exact = rng.random() < 0.3
    if exact:
        rate = [float(x) for x in rng.integers(-6, 7, n) * 0.5]
        c = {'alpha': 1.0, 'Mgb': 0.5, 'gbe': 2.0, 'z': float(rng.integers(0, 5))}
    else:
        sc = float(10 ** rng.uniform(-12, -8))
        rate = [float(x) for x in rng.normal(0, 1, n) * sc]
        c = {'alpha': float(rng.uniform(0.5, 2)), 'Mgb': float(10 ** rng.uniform(-15, -11)), 'gbe': float(rng.uniform(0.2, 1))}
        c['z'] = float(rng.choice([0.0, sc / (c['alpha'] * c['Mgb'] * c['gbe']) * float(10 ** rng.uniform(-1.5, 1))]))
        if rng.random() < 0.2:
            rate[int(rng.integers(0, n))] = c['alpha'] * c['Mgb'] * c['gbe'] * c['z']          # exactly at the threshold
    c.update(kind='zener', bounds=b, psd=psd, rate=rate, exact=bool(exact))
    return c


# ---- oracle 4: one evaluation of the grain-growth rate, and free-standing runs -----------------
def grain_rates(c):
    g = make_grain(c)
    set_drag(g, c['z'])
    seen = watch_growth(g)
    x = np.array(c['psd'], dtype=float)
    dx = np.array(g.getdXdt(0.0, [x.copy()])[0], dtype=float)
    if seen['growth'] is None or seen['z'] != c['z']:
        raise TieBroken('GrainGrowthModel.getdXdt no longer goes through constrainedGrowth / pbm.getdXdtEuler (drag seen: %r, imposed: %r)' % (seen['z'], c['z']))
    growth = seen['growth']
    free = np.array(g.grainGrowth(x.copy()), dtype=float)
    d2 = [dx.copy()]
    g.correctdXdt(c['dt'], [x.copy()], d2)
    return g, x, free, growth, dx, np.array(d2[0], dtype=float)


def oracle_grain_rate(c):
    v = []
    try:
        g, x, free, growth, dx, dx2 = quiet(grain_rates, c)
    except TieBroken:
        raise
    except Exception as e:
        return [('no_internal_error', 'exception', 'grain growth rate raised %s: %s' % (type(e).__name__, e))]
    drag = c['alpha'] * c['Mgb'] * c['gbe'] * c['z']
    sc = float(np.sum(np.abs(dx))) + 1e-300
    for arr, nm in ((dx, 'rate'), (dx2, 'rate after the step-size correction')):
        if not np.all(np.isfinite(arr)):
            v.append(('grain_rate_finite', nm, 'grain population %s is not finite: %r' % (nm, list(arr[:5]))))
        elif float(np.sum(arr)) > 1e-9 * float(np.sum(np.abs(arr))) + 1e-300:
            v.append(('grain_number_nonincreasing', nm, 'number of grains grows: sum of the %s = %r (entries up to %r)' % (nm, float(np.sum(arr)), float(np.max(np.abs(arr))))))
    new = x + c['dt'] * dx2
    if np.all(np.isfinite(dx2)) and float(np.sum(new)) > float(np.sum(x)) * (1 + 1e-12):
        v.append(('grain_number_nonincreasing', 'step', 'number of grains rises from %r to %r in one step' % (float(np.sum(x)), float(np.sum(new)))))
    if np.all(np.isfinite(free)) and drag >= np.max(np.abs(free)) * (1 + 1e-9) and np.any(dx != 0):
        v.append(('zener_freezes', 'structure', 'drag %r exceeds every rate (max %r) but the distribution still changes (max |dn/dt| = %r)'
                  % (drag, float(np.max(np.abs(free))), float(np.max(np.abs(dx))))))
    # grains above the critical radius grow, below shrink (no drag)
    size = g.pbm.PSDsize
    m1, m2 = float(np.sum(x * size)), float(np.sum(x * size ** 2))
    if m1 > 0 and np.all(np.isfinite(free)):
        rc = m2 / m1
        for k, bk in enumerate(c['bounds']):
            if (bk > rc * (1 + 1e-9) and free[k] <= 0) or (bk < rc * (1 - 1e-9) and free[k] >= 0):
                v.append(('growth_sign', 'critical radius', 'boundary %r vs critical radius %r: rate %r' % (bk, rc, free[k])))
                break
    return _dedupe(v)


def gen_grain_rate_case(rng):
    b, psd = gen_grid(rng, 16)
    c = {'kind': 'grain_rate', 'bounds': b, 'psd': psd, 'alpha': float(rng.uniform(0.5, 2)), 'Mgb': float(10 ** rng.uniform(-15, -11)),
         'gbe': float(rng.uniform(0.2, 1))}
    rm = 0.5 * (b[0] + b[-1])
    c['z'] = float(rng.choice([0.0, 1 / rm * float(10 ** rng.uniform(-2, 1.5))]))
    gmax = c['alpha'] * c['Mgb'] * c['gbe'] / b[0]
    c['dt'] = float((b[1] - b[0]) / gmax * 10 ** rng.uniform(-2, 1.5))
    return c


def run_grain(c):
    """free-standing run: grain model solved over c['spans'] with the drag level c['z']; per accepted step the
    clock, the third and zeroth moment and the recorded mean radius"""
    import stubs
    g = make_grain(c)
    g.Normalize()
    g.avgR[0] = g.Rm(g.pbm.PSD)
    set_drag(g, c['z'])
    rec = []

    def obs(m):
        rec.append((float(m.time[-1]), float(m.pbm.ThirdMoment()), float(m.pbm.ZeroMoment()), float(m.avgR[-1]), len(m.time), len(m.avgR),
                    bool(np.all(m.pbm.PSD >= 0)) and bool(np.all(np.isfinite(m.pbm.PSD))), float(m.pbm.PSD[-1])))
    g.addCouplingModel(stubs.StepObserver(obs))
    start_psd, start_b = g.pbm.PSD.copy(), g.pbm.PSDbounds.copy()
    ends = []
    for sp in c['spans']:
        t0 = float(g.time[-1])
        g.solve(sp, solverType=g.solverType)
        ends.append((t0, sp, float(g.time[-1])))
    return g, rec, ends, start_psd, start_b


def oracle_grain_run(c):
    v = []
    try:
        g, rec, ends, p0, b0 = quiet(run_grain, c)
    except Exception as e:
        return [('no_internal_error', 'exception', 'free-standing grain growth run raised %s: %s' % (type(e).__name__, e))]
    prev = float(g.avgR[0])
    covered = p0[-1] == 0            # the grid covers the distribution: no grain can leave through the upper end
    for k, (t, m3, m0, rm, lt, lr, ok, lastpop) in enumerate(rec):
        if not ok or not math.isfinite(rm):
            v.append(('grain_distribution_valid', 'negative or non-finite', 'step %d: distribution has negative or non-finite entries (mean radius %r)' % (k, rm)))
            break
        if abs(m3 - 1) > 1e-9:
            v.append(('grain_volume_conserved', 'third moment', 'step %d: total grain volume (third moment) is %r, not 1' % (k, m3)))
        if lt != lr:
            v.append(('grain_history_aligned', 'lengths', 'step %d: %d recorded times, %d recorded mean radii' % (k, lt, lr)))
        if c['z'] == 0 and rm < prev * (1 - 1e-9):
            # (with a populated last size class grains leave through the upper end of the grid before it is extended)
            v.append(('mean_size_nondecreasing', 'no pinning' if covered else 'no pinning, populated last size class',
                      'step %d: mean grain radius falls from %r to %r without pinning%s' % (k, prev, rm, '' if covered else ' (the last size class is populated: grains leave through the upper end of the grid)')))
        prev = rm
        covered = lastpop == 0
    for t0, sp, te in ends:
        if te != t0 + sp:
            v.append(('grain_clock', 'end of solve', 'solve(%r) from %r ended at %r, expected %r' % (sp, t0, te, t0 + sp)))
    if c.get('frozen'):
        # (classes may have been appended above a populated last class: compare the distribution itself)
        nb = len(b0)
        same = (len(g.pbm.PSDbounds) >= nb and np.allclose(g.pbm.PSDbounds[:nb], b0, rtol=1e-12, atol=0) and np.allclose(g.pbm.PSD[:nb - 1], p0, rtol=1e-12, atol=0)
                and not np.any(g.pbm.PSD[nb - 1:]))
        if not same:
            v.append(('zener_freezes', 'run', 'drag exceeds every growth rate but the distribution changed during the run (mean radius %r -> %r)'
                      % (float(g.avgR[0]), float(g.avgR[-1]))))
    return _dedupe(v)


def gen_grain_run_case(rng):
    n = int(rng.integers(12, 40))
    lo = float(10 ** rng.uniform(-7, -6))
    b = np.linspace(lo, lo * float(rng.uniform(20, 60)), n + 1)
    rm = 0.5 * (b[:-1] + b[1:])
    mu = np.log(rm[n // 4]) + rng.uniform(0, 0.6)
    sg = rng.uniform(0.25, 0.5)
    psd = np.exp(-(np.log(rm) - mu) ** 2 / (2 * sg * sg))
    psd[psd < 1e-8] = 0
    if rng.random() < 0.8:
        psd[int(0.6 * n):] = 0          # grid covers the distribution (the mean-size clause is sampled on these)
    c = {'kind': 'grain_run', 'bounds': [float(x) for x in b], 'psd': [float(x) for x in psd], 'alpha': 1.0,
         'Mgb': float(10 ** rng.uniform(-13.5, -12)), 'gbe': 0.5, 'solver': str(rng.choice(['euler', 'rk4']))}
    mode = rng.choice(['free', 'pinned', 'frozen'], p=[0.5, 0.3, 0.2])
    r50 = float(np.exp(mu))
    c['z'] = 0.0 if mode == 'free' else (float(rng.uniform(0.05, 0.5)) / r50 if mode == 'pinned' else 4.0 / lo)
    c['frozen'] = bool(mode == 'frozen')
    tau = r50 ** 2 / (c['Mgb'] * c['gbe'])
    c['spans'] = [float(tau * f) for f in rng.uniform(0.02, 0.3, int(rng.integers(1, 4)))]
    return c


# ==========================================================================================
# oracle 5: coupled runs (stub thermodynamics host + StrengthModel + GrainGrowthModel)
def run_coupled(c):
    import stubs
    SM, GG, ST = impl()
    with contextlib.redirect_stdout(io.StringIO()):
        host = stubs.make_binary_model(phases=tuple(c['host_phases']), T=c['T'], x0=c['x0'])
    P = c['params']
    P = dict(P)
    P['phases'] = list(c['host_phases'])
    s = build_strength(P)
    s.setSolidSolutionStrength({'B': c['ssw']}, c['ssexp'])
    gc = c['grain']
    g = make_grain(gc)
    g.Normalize()
    g.avgR[0] = g.Rm(g.pbm.PSD)
    rec = []
    props = []
    cur = []
    real_getDt = g.getDt

    def getDt(dXdt):
        d = real_getDt(dXdt)
        cur.append(float(d))
        return d
    g.getDt = getDt
    gseen = watch_growth(g)

    def obs(m):
        n = m.pData.n
        rows = []
        for p in range(len(m.phases)):
            psd, size = np.array(m.PBM[p].PSD, dtype=float), np.array(m.PBM[p].PSDsize, dtype=float)
            rows.append((psd.copy(), size.copy()))
        rec.append({'n': int(n), 't': float(m.pData.time[n]), 'tprev': float(m.pData.time[n - 1]), 'len_time': int(len(m.pData.time)),
                    'rss': None if s.rss is None else s.rss.shape, 'ls': None if s.ls is None else s.ls.shape,
                    'ss': None if s.solidStrength is None else s.solidStrength.shape,
                    'rss_row': None if s.rss is None else s.rss[-1].copy(), 'ls_row': None if s.ls is None else s.ls[-1].copy(),
                    'ss_last': None if s.solidStrength is None else float(s.solidStrength[-1]),
                    'comp': float(m.pData.composition[n, 0]), 'psd': rows,
                    'gclock': float(g.time[-1]), 'glen': len(g.time), 'gm3': float(g.pbm.ThirdMoment()), 'gavgR': float(g.avgR[-1]), 'z': gseen['z'],
                    'Ravg': [float(x) for x in m.pData.Ravg[n]], 'volFrac': [float(x) for x in m.pData.volFrac[n]]})
        props.append(list(cur))
        cur.clear()
    order = c.get('order', 'sgo')
    for ch in order:
        host.addCouplingModel({'s': s, 'g': g, 'o': stubs.StepObserver(obs)}[ch])
    calls = []
    t0 = float(host.pData.time[host.pData.n])
    for sp in c['spans']:
        before = len(rec)
        host.solve(sp, solverType=ST.EXPLICITEULER)
        calls.append(len(rec) - before)
    return host, s, g, rec, props, calls, t0


def oracle_coupled(c, run=None):
    v = []
    try:
        host, s, g, rec, props, calls, t0 = run if run is not None else quiet(run_coupled, c)
    except Exception as e:
        return [('no_internal_error', 'exception', 'coupled run raised %s: %s' % (type(e).__name__, e))]
    nph = len(c['host_phases'])
    w = c['ssw']
    for k, rc in enumerate(rec):
        steps = k + 1
        if rc['n'] != steps or rc['len_time'] != steps + 1:
            v.append(('host_one_record_per_step', 'host', 'after %d host steps the host holds %d records (n = %d)' % (steps, rc['len_time'], rc['n'])))
        for nm in ('rss', 'ls', 'ss'):
            sh = rc[nm]
            if sh is None or sh[0] != steps + 1 or (nm != 'ss' and sh[1] != nph):
                v.append(('strength_history_aligned', nm, 'after %d host steps (%d host records) the %s history has shape %r' % (steps, steps + 1, nm, sh)))
        if rc['rss_row'] is not None:
            for p in range(nph):
                psd, size = rc['psd'][p]
                r1, r2 = float(np.sum(psd * size)), float(np.sum(psd * size * size))
                e_rss = 0.0 if r1 == 0 else math.sqrt(2 / 3) * r2 / r1
                e_ls = 0.0 if r1 == 0 else math.sqrt(math.log(3) / (2 * math.pi * r1) + (2 * e_rss) ** 2) - 2 * e_rss
                if abs(rc['rss_row'][p] - e_rss) > 1e-9 * abs(e_rss) or abs(rc['ls_row'][p] - e_ls) > 1e-7 * abs(e_ls) + 1e-9 * e_rss:
                    v.append(('strength_history_aligned', 'row content', 'host step %d, phase %d: recorded (rss, Ls) = (%r, %r), the distribution at that step gives (%r, %r)'
                              % (steps, p, rc['rss_row'][p], rc['ls_row'][p], e_rss, e_ls)))
                if rc['rss_row'][p] < 0 or rc['ls_row'][p] < 0 or not math.isfinite(rc['rss_row'][p]) or not math.isfinite(rc['ls_row'][p]):
                    v.append(('radius_spacing_nonneg', 'coupled run', 'host step %d: rss = %r, Ls = %r' % (steps, rc['rss_row'][p], rc['ls_row'][p])))
            e_ss = w * rc['comp'] ** c['ssexp']
            if abs(rc['ss_last'] - e_ss) > 1e-12 * abs(e_ss):
                v.append(('strength_history_aligned', 'solid solution', 'host step %d: recorded solid-solution strength %r, composition %r gives %r' % (steps, rc['ss_last'], rc['comp'], e_ss)))
        tol = 4 * EPS * (steps + 1) * abs(rc['t'])
        if abs(rc['gclock'] - (rc['t'] - t0)) > tol:
            v.append(('grain_clock_equals_host', 'after a host step', 'after host step %d the host clock is %r (%r since coupling), the grain-growth clock %r'
                      % (steps, rc['t'], rc['t'] - t0, rc['gclock'])))
        if abs(rc['gm3'] - 1) > 1e-9:
            v.append(('grain_volume_conserved', 'coupled run', 'host step %d: total grain volume %r' % (steps, rc['gm3'])))
        ez = 0.0
        for p in range(nph):
            if rc['Ravg'][p] > 0:
                ez += rc['volFrac'][p] ** 1.0 / (4 / 3 * rc['Ravg'][p])
        if rc['z'] is not None and abs(rc['z'] - ez) > 1e-12 * abs(ez):
            v.append(('zener_drag_level', 'coupled run', 'host step %d: drag level %r, f/(K r) summed over the phases gives %r' % (steps, rc['z'], ez)))
    if sum(calls) != len(rec):
        v.append(('host_one_record_per_step', 'callbacks', 'callbacks %d, steps per solve call %r' % (len(rec), calls)))
    # strength over the whole history
    try:
        ps = np.array(quiet(s.precStrength, host), dtype=float)
        tot = np.array(quiet(s.totalStrength, s.solidStrength, ps.copy()), dtype=float)
        n = host.pData.n
        if len(ps) != n + 1 or len(tot) != n + 1:
            v.append(('strength_history_aligned', 'strength length', 'precStrength has %d entries, the host %d records' % (len(ps), n + 1)))
        bad = ~np.isfinite(ps) | (ps < 0)
        if np.any(bad):
            j = int(np.argmax(bad))
            ri = float(s.ri)
            v.append(('prec_strength_nonneg', 'coupled run, %s' % radius_class(float(s.rss[j, 0]), float(s.ls[j, 0]), ri),
                      'precStrength[%d] = %r in a coupled run (rss = %r, Ls = %r, core radius %r); %d of %d entries negative or not finite'
                      % (j, ps[j], float(s.rss[j, 0]), float(s.ls[j, 0]), ri, int(bad.sum()), len(ps))))
        bad = ~np.isfinite(tot) | (tot < 0)
        if np.any(bad):
            v.append(('total_nonneg', 'coupled run', 'totalStrength[%d] = %r in a coupled run' % (int(np.argmax(bad)), tot[int(np.argmax(bad))])))
        if ps[0] != 0:
            v.append(('zero_without_precipitates', 'coupled run', 'precipitate strength %r at the initial record (no precipitates)' % ps[0]))
    except Exception as e:
        v.append(('no_internal_error', 'exception', 'precStrength / totalStrength after a coupled run raised %s: %s' % (type(e).__name__, e)))
    return _dedupe(v)


def gen_coupled_case(rng, quick):
    P = gen_params(rng)
    P['contrib']['all'].setdefault('eps', 0.008)
    if rng.random() < 0.6:
        P['ri'] = float(P['b'] * rng.uniform(3.5, 6))            # nuclei start below half the core radius
    b, psd = gen_grid(rng, 30)
    lo = float(10 ** rng.uniform(-6.5, -6))
    n = int(rng.integers(15, 40))
    bb = np.linspace(lo, lo * 40, n + 1)
    rm = 0.5 * (bb[:-1] + bb[1:])
    psd = np.exp(-(np.log(rm) - np.log(rm[n // 5])) ** 2 / (2 * 0.3 ** 2))
    psd[psd < 1e-8] = 0
    grain = {'bounds': [float(x) for x in bb], 'psd': [float(x) for x in psd], 'alpha': 1.0, 'Mgb': float(10 ** rng.uniform(-13, -11.5)), 'gbe': 0.5,
             'solver': str(rng.choice(['euler', 'rk4']))}
    nsp = int(rng.integers(1, 4))
    spans = [float(x) for x in 10 ** rng.uniform(-1.5, 1.2 if quick else 2.5, nsp)]
    return {'kind': 'coupled', 'params': P, 'host_phases': ['B1'] if rng.random() < 0.7 else ['B1', 'B2'], 'T': float(rng.uniform(660, 720)),
            'x0': float(rng.uniform(1.5e-2, 2.5e-2)), 'ssw': float(rng.uniform(1e7, 1e9)), 'ssexp': float(rng.choice([1.0, 0.5, 2 / 3])),
            'grain': grain, 'spans': spans, 'order': str(rng.choice(['sgo', 'gso']))}


# ==========================================================================================
# oracle 6 (round 5): histories on ONE GrainGrowthModel through the public loading API - load from data / from a
# function, solve, reset(), setter, solve again; the INITIAL state of every run is looked at, not only the steps;
# two models alive at the same time, used interleaved, each compared with itself alone
def _grain_data(c):
    rng = np.random.default_rng(c['data_seed'])
    return rng.lognormal(np.log(c['mu']), c['sigma'], c['ndata'])


def _new_grain(c, which=0):
    GG, ST = impl()[1], impl()[2]
    cmin, cmax, bins, minb, maxb = c['grid']
    g = GG(cmin, cmax, bins, minb, maxb, solverType=ST.EXPLICITEULER if c.get('solver', 'euler') == 'euler' else ST.RK4)
    g.setGrainBoundaryEnergy(c['gbe'])
    g.setGrainBoundaryMobility(c['Mgb'] * (1.0 if which == 0 else 3.0))
    g.setAlpha(c['alpha'])
    if c['load'] == 'data':
        data = _grain_data(c) * (1.0 if which == 0 else 1.5)
        before = data.copy()
        g.LoadDistribution(data)
        if not np.array_equal(before, data):
            raise AssertionError('LoadDistribution modified the data it was given')
    else:
        mu, sg = c['mu'] * (1.0 if which == 0 else 1.5), c['sigma']
        g.LoadDistributionFunction(lambda R: np.exp(-(np.log(R) - np.log(mu)) ** 2 / (2 * sg * sg)))
    return g


def _grain_ops(g, c, log, tag):
    """runs c['ops'] on g; log receives (tag, run index, event, time, third moment, mean radius, len(time), len(avgR))"""
    import stubs
    run = [0]

    def snap(ev):
        log.append((tag, run[0], ev, float(g.time[-1]), float(g.pbm.ThirdMoment()), float(g.avgR[-1]), len(g.time), len(g.avgR),
                    float(g.pbm.PSD[-1]), bool(np.all(np.isfinite(g.pbm.PSD)) and np.all(g.pbm.PSD >= 0))))
    g.addCouplingModel(stubs.StepObserver(lambda m: snap('step')))
    snap('initial state after ' + ('LoadDistribution' if c['load'] == 'data' else 'LoadDistributionFunction'))
    for op in c['ops']:
        if op[0] == 'solve':
            t0 = float(g.time[-1])
            g.solve(op[1], solverType=g.solverType)
            log.append((tag, run[0], 'end', t0, op[1], float(g.time[-1])))
        elif op[0] == 'reset':
            g.reset()
            run[0] += 1
            snap('initial state after reset()')
        elif op[0] == 'mobility':
            g.setGrainBoundaryMobility(op[1])
        elif op[0] == 'drag':
            set_drag(g, op[1])


def run_grain_history(c):
    log = []
    g = _new_grain(c)
    _grain_ops(g, c, log, 'A')
    out = {'log': log, 'final': (g.pbm.PSD.copy(), g.pbm.PSDbounds.copy(), g.time.copy(), g.avgR.copy())}
    if c.get('second'):
        # two models alive together, operations interleaved one by one; each must behave as it does alone
        ga, gb = _new_grain(c, 0), _new_grain(c, 1)
        la, lb = [], []
        import stubs
        opsa, opsb = list(c['ops']), list(c['ops'])
        ca, cb = dict(c, ops=[]), dict(c, ops=[])
        _grain_ops(ga, ca, la, 'A2')
        _grain_ops(gb, cb, lb, 'B2')
        for oa, ob in zip(opsa, opsb):
            _grain_ops_one(ga, oa)
            _grain_ops_one(gb, ob)
        solo = _new_grain(c, 1)
        _grain_ops(solo, dict(c, ops=[]), [], 'B')
        for ob in opsb:
            _grain_ops_one(solo, ob)
        out['pair'] = {'A_alone': out['final'], 'A_with_B': (ga.pbm.PSD.copy(), ga.pbm.PSDbounds.copy(), ga.time.copy(), ga.avgR.copy()),
                       'B_alone': (solo.pbm.PSD.copy(), solo.pbm.PSDbounds.copy(), solo.time.copy(), solo.avgR.copy()),
                       'B_with_A': (gb.pbm.PSD.copy(), gb.pbm.PSDbounds.copy(), gb.time.copy(), gb.avgR.copy())}
    return out


def _grain_ops_one(g, op):
    if op[0] == 'solve':
        g.solve(op[1], solverType=g.solverType)
    elif op[0] == 'reset':
        g.reset()
    elif op[0] == 'mobility':
        g.setGrainBoundaryMobility(op[1])
    elif op[0] == 'drag':
        set_drag(g, op[1])


def oracle_grain_history(c):
    v = []
    try:
        o = quiet(run_grain_history, c)
    except TieBroken:
        raise
    except Exception as e:
        return [('no_internal_error', 'exception', 'load / solve / reset history on a GrainGrowthModel raised %s: %s' % (type(e).__name__, e))]
    prev, covered, pinned = None, True, False
    for ent in o['log']:
        if ent[2] == 'end':
            _, run, _, t0, sp, te = ent
            if te != t0 + sp:
                v.append(('grain_clock', 'end of solve', 'run %d: solve(%r) from %r ended at %r' % (run, sp, t0, te)))
            continue
        tag, run, ev, t, m3, rm, lt, lr, lastpop, ok = ent
        where = ev if ev != 'step' else 'after a step'
        if not ok:
            v.append(('grain_distribution_valid', where, 'run %d (%s): distribution has negative or non-finite entries' % (run, where)))
            break
        if abs(m3 - 1) > 1e-9:
            v.append(('grain_volume_conserved', where, 'run %d, %s (t = %r): total grain volume (third moment) is %r, not 1' % (run, where, t, m3)))
        if lt != lr:
            v.append(('grain_history_aligned', where, 'run %d, %s: %d recorded times, %d recorded mean radii' % (run, where, lt, lr)))
        if ev != 'step':
            if t != 0 or lt != 1:
                v.append(('grain_clock', where, 'run %d starts at clock %r with %d recorded times' % (run, t, lt)))
            prev, covered = None, lastpop == 0
            continue
        if prev is not None and not c.get('has_drag') and rm < prev * (1 - 1e-9):
            v.append(('mean_size_nondecreasing', 'no pinning' if covered else 'no pinning, populated last size class',
                      'run %d: mean grain radius falls from %r to %r without pinning' % (run, prev, rm)))
        prev, covered = rm, lastpop == 0
    if 'pair' in o:
        for nm, a, b in (('first', o['pair']['A_alone'], o['pair']['A_with_B']), ('second', o['pair']['B_alone'], o['pair']['B_with_A'])):
            same = all(len(x) == len(y) and np.array_equal(x, y) for x, y in zip(a, b))
            if not same:
                v.append(('instances_independent', 'two grain models', 'the %s of two GrainGrowthModels used interleaved ends differently from the same model used alone (mean radius %r vs %r, %d vs %d steps)'
                          % (nm, float(b[3][-1]), float(a[3][-1]), len(b[2]), len(a[2]))))
    return _dedupe(v)


def gen_grain_history_case(rng):
    mu = float(10 ** rng.uniform(-5.6, -5.0))
    c = {'kind': 'grain_history', 'load': str(rng.choice(['data', 'function'])), 'data_seed': int(rng.integers(0, 2 ** 31)), 'mu': mu,
         'sigma': float(rng.uniform(0.2, 0.4)), 'ndata': int(rng.integers(300, 3000)),
         'grid': [mu / 30, mu * 12, int(rng.integers(30, 60)), 20, 120], 'alpha': 1.0, 'Mgb': float(10 ** rng.uniform(-13, -12)), 'gbe': 0.5,
         'solver': str(rng.choice(['euler', 'rk4'])), 'second': bool(rng.random() < 0.4)}
    tau = mu ** 2 / (c['Mgb'] * c['gbe'])
    sp = lambda: float(tau * rng.uniform(0.01, 0.08))
    kind = rng.choice(['reset', 'reset_twice', 'two_solves', 'mobility', 'drag'])
    if kind == 'reset':
        ops = [['solve', sp()], ['reset'], ['solve', sp()]]
    elif kind == 'reset_twice':
        ops = [['solve', sp()], ['reset'], ['solve', sp()], ['reset'], ['solve', sp()]]
    elif kind == 'two_solves':
        ops = [['solve', sp()], ['solve', sp()]]
    elif kind == 'mobility':
        ops = [['solve', sp()], ['mobility', c['Mgb'] * 2], ['solve', sp()], ['reset'], ['solve', sp()]]
    else:
        ops = [['solve', sp()], ['drag', float(rng.uniform(0.05, 0.3) / mu)], ['solve', sp()], ['reset'], ['solve', sp()]]
        c['has_drag'] = True
    c['ops'] = ops
    return c


# ---- oracle 7 (round 5): calling conventions, histories and several instances of StrengthModel ----------------
def _strength_eval(s, r, L, phase, how):
    """getStrengthContributions + combineStrengthContributions in one calling convention; returns (w, s, o, strength) as 2-d/1-d lists"""
    def call(rr, ll):
        if how.endswith('kw'):
            w, st, o, _ = quiet(s.getStrengthContributions, rr, ll, phase=phase)
        elif phase == 'all' and how.endswith('omit'):
            w, st, o, _ = quiet(s.getStrengthContributions, rr, ll)
        else:
            w, st, o, _ = quiet(s.getStrengthContributions, rr, ll, phase)
        sg = quiet(s.combineStrengthContributions, np.array(w, dtype=float), np.array(st, dtype=float), np.array(o, dtype=float))
        return np.array(w, dtype=float), np.array(st, dtype=float), np.array(o, dtype=float), np.array(sg, dtype=float)
    base = how.split('-')[0]
    if base == 'array':
        ra, la = np.array(r, dtype=float), np.array(L, dtype=float)
        keep = (ra.copy(), la.copy())
        w, st, o, sg = call(ra, la)
        if not (np.array_equal(keep[0], ra) and np.array_equal(keep[1], la)):
            raise AssertionError('arguments modified')
        # the same argument objects are used again
        w2, st2, o2, sg2 = call(ra, la)
        if not (np.array_equal(w, w2, equal_nan=True) and np.array_equal(sg, sg2, equal_nan=True)):
            raise AssertionError('second call with the same arguments differs')
        return w.reshape(len(w), -1) if np.size(w) else np.zeros((0, len(r))), st.reshape(len(st), -1) if np.size(st) else np.zeros((0, len(r))), o.reshape(-1), sg.reshape(-1)
    conv = {'float': float, 'npfloat': np.float64, 'zerod': lambda x: np.array(x, dtype=float)}[base]
    cols = [call(conv(a), conv(b)) for a, b in zip(r, L)]
    W = np.array([np.ravel(cw[0]) for cw in cols]).T if np.size(cols[0][0]) else np.zeros((0, len(r)))
    S = np.array([np.ravel(cw[1]) for cw in cols]).T if np.size(cols[0][1]) else np.zeros((0, len(r)))
    return W, S, np.array([float(cw[2]) for cw in cols]), np.array([float(cw[3]) for cw in cols])


CONVENTIONS = ['array-pos', 'array-kw', 'array-omit', 'float-pos', 'npfloat-kw', 'zerod-pos']


def oracle_strength_api(c):
    v = []
    P, r, L = c['params'], c['r'], c['Ls']
    # (numpy's vectorised pow / log and the scalar ones may differ in the last bit: 1e-12 relative)
    same = lambda a, b: all(np.shape(x) == np.shape(y) and np.allclose(x, y, rtol=1e-12, atol=0, equal_nan=True) for x, y in zip(a, b))
    try:
        s = build_strength(P)
        ref = {}
        for ph in ['all'] + P['phases']:
            ref[ph] = _strength_eval(s, r, L, ph, 'array-pos')
            for how in CONVENTIONS[1:]:
                try:
                    got = _strength_eval(s, r, L, ph, how)
                except AssertionError as e:
                    v.append(('arguments_unchanged', how, 'getStrengthContributions / combineStrengthContributions (%s): %s' % (how, e)))
                    continue
                if not same(ref[ph], got):
                    v.append(('calling_convention', how, 'phase %s: strength %r when called with 1-d arrays and positional arguments, %r when called as %s (r=%r, Ls=%r)'
                              % (ph, [float(x) for x in ref[ph][3]], [float(x) for x in got[3]], how, r, L)))
        # history on one object: setters, then the same evaluation; compared with a fresh object in the final configuration
        P2 = copy.deepcopy(P)
        for k, val in c['changes']:
            if k in ('M', 'sigma0', 'theta_deg', 'nu', 'G'):
                P2[k] = val
            else:
                P2['contrib']['all'][k] = val
        s.setDislocationParameters(P2['G'], P2['b'], P2['nu'], P2['ri'], P2['theta_deg'], P2['psi_deg'])
        d = P2['contrib']['all']
        if 'eps' in d:
            s.setCoherencyParameters(d['eps'])
        if 'Gp' in d:
            s.setModulusParameters(d['Gp'], P2['w1'], P2['w2'])
        if 'gamma' in d:
            s.setInterfacialParameters(d['gamma'])
        s.setTaylorFactor(P2['M'])
        s.setBaseStrength(P2['sigma0'])
        s.setTmodel(P2['Tmodel'])
        s.setJfactor(P2['Jmodel'])
        fresh = build_strength(P2)
        for ph in ['all'] + P['phases']:
            a, b = _strength_eval(s, r, L, ph, 'array-pos'), _strength_eval(fresh, r, L, ph, 'array-pos')
            if not same(a, b):
                v.append(('history_independent', 'setters between two evaluations', 'phase %s: after changing %r on a used StrengthModel the strength is %r, a fresh model with the same configuration gives %r'
                          % (ph, [k for k, _ in c['changes']], [float(x) for x in a[3]], [float(x) for x in b[3]])))
        # two models alive together
        sa, sb = build_strength(P), build_strength(c['params_b'])
        ra = _strength_eval(sa, r, L, 'all', 'array-pos')
        rb = _strength_eval(sb, r, L, 'all', 'array-pos')
        ra2 = _strength_eval(sa, r, L, 'all', 'array-pos')
        solo_b = _strength_eval(build_strength(c['params_b']), r, L, 'all', 'array-pos')
        if not same(ra, ref['all']) or not same(ra2, ref['all']) or not same(rb, solo_b):
            v.append(('instances_independent', 'two strength models', 'two StrengthModels used interleaved give %r / %r, alone %r / %r'
                      % ([float(x) for x in ra2[3]], [float(x) for x in rb[3]], [float(x) for x in ref['all'][3]], [float(x) for x in solo_b[3]])))
    except TieBroken:
        raise
    except Exception as e:
        v.append(('no_internal_error', 'exception', 'StrengthModel called in another convention raised %s: %s' % (type(e).__name__, e)))
    return _dedupe(v)


def gen_strength_api_case(rng):
    P = gen_params(rng)
    P['Jmodel'] = 'simple'            # (the complex J factor is a snapshot taken by setJfactor: documented usage order)
    Pb = gen_params(rng)
    n = 3
    r = [float(10 ** rng.uniform(-9.4, -7.6)) for _ in range(n)]
    L = [float(10 ** rng.uniform(-8.3, -6.3)) for _ in range(n)]
    changes = [('M', float(rng.uniform(1, 3))), ('theta_deg', float(rng.choice([0.0, 45.0, 90.0]))), ('sigma0', float(rng.uniform(0, 1e8)))]
    if 'Gp' in P['contrib']['all']:
        changes.append(('Gp', float(rng.uniform(20e9, 200e9))))
    if 'eps' in P['contrib']['all']:
        changes.append(('eps', float(10 ** rng.uniform(-4, -2))))
    return {'kind': 'strength_api', 'params': P, 'params_b': Pb, 'r': r, 'Ls': L, 'changes': changes}


ORACLES = {'strength': oracle_strength, 'phase_params': oracle_phase_params, 'mixed': oracle_mixed, 'zener': oracle_zener,
           'grain_rate': oracle_grain_rate, 'grain_run': oracle_grain_run, 'coupled': oracle_coupled,
           'grain_history': oracle_grain_history, 'strength_api': oracle_strength_api}
SITES = {'strength': S_SITE, 'phase_params': S_SITE, 'mixed': S_SITE, 'zener': G_SITE, 'grain_rate': G_SITE, 'grain_run': G_SITE, 'coupled': 'coupling',
         'grain_history': G_SITE, 'strength_api': S_SITE}


def evaluate_case(c):
    return ORACLES[c['kind']](c)


# ==========================================================================================
# transport of exact values to the real-number side
def rl(x):
    """exact real literal of a float"""
    f = frac(x)
    if f.denominator == 1:
        return '%d' % f.numerator if f.numerator >= 0 else '(- %d)' % (-f.numerator)
    return '(%d / %d)' % (f.numerator, f.denominator) if f.numerator >= 0 else '(- (%d / %d))' % (-f.numerator, f.denominator)


def rlist(xs):
    return '[' + '; '.join(rl(x) for x in xs) + ']'


def xrl(x):
    """value of a numpy float array as the model's xr"""
    return 'Some %s' % rl(x) if math.isfinite(x) else 'None'


def flit(x):
    x = float(x)
    if math.isnan(x):
        return 'nan'
    if math.isinf(x):
        return 'infinity' if x > 0 else 'neg_infinity'
    return '(%s)' % x.hex()


GOAL_HEADER = '''From Coq Require Import Reals String List Bool Arith Lra.
From Interval Require Import Tactic.
Require Import Kawin.Common.Ops Kawin.Common.Vec Kawin.Common.VecLemmas Kawin.C07.Model Kawin.C18.Model Kawin.C18.Proofs Kawin.C18.Corr.
Require Import KawinRun.Strength_gen.
Import ListNotations.
Open Scope R_scope.
Ltac unf := cbv beta iota zeta delta [%s
  clip map sumT filter fst snd length Nat.eqb orb T zero one add sub mul dvd Rops].
'''


def run_goals(ctx, name, goals, gen_names, shards=16):
    """first pass; goals it does not decide get a second attempt with higher precision and a longer time limit
    (a loaded machine must not turn into a disagreement)"""
    out = _run_goals(ctx, name, goals, gen_names, shards, False)
    bad = [i for i, ok in enumerate(out) if not ok]
    if bad and len(bad) <= 40:
        again = _run_goals(ctx, name + '_retry', [goals[i] for i in bad], gen_names, shards, True)
        for i, ok in zip(bad, again):
            out[i] = ok
        ctx.notes['goals_decided_on_second_attempt'] = sum(1 for ok in again if ok)
    return out


def _run_goals(ctx, name, goals, gen_names, shards, second):
    """goals: list of (proposition, 'enc' | 'exact').  Each is decided inside Coq (kernel-checked proof or
    'not proved'); returns a list of booleans."""
    if not goals:
        return []
    header = GOAL_HEADER % ' '.join(gen_names)
    per = max(1, -(-len(goals) // shards))
    files = []
    for s in range(0, len(goals), per):
        path = os.path.join(ctx.build, '%s_%d.v' % (name, s // per))
        with open(path, 'w') as f:
            f.write(header)
            for i, (g, kind) in enumerate(goals[s:s + per]):
                tac = ('unf; enclose2' if second else 'unf; enclose') if kind == 'enc' else 'unf; exact_goal'
                f.write('Definition v%d : {%s} + {True}.\nProof. decide_enclosure ltac:(%s). Defined.\nEval vm_compute in (verdict v%d).\n' % (i, g, tac, i))
        files.append(path)
    with concurrent.futures.ThreadPoolExecutor(max_workers=16) as ex:
        res = list(ex.map(lambda p: ctx.coqc(p, timeout=900), files))
    out = []
    for p, (ok, o) in zip(files, res):
        if not ok:
            raise RuntimeError('goal file %s did not compile:\n%s' % (p, o[-1500:]))
        out += [parse_coq(b) for b in split_evals(o)]
    if len(out) != len(goals):
        raise RuntimeError('expected %d verdicts from Coq, got %d' % (len(goals), len(out)))
    return out


def regenerate(ctx):
    try:
        srcs = [open(os.path.join(REPO, p)).read() for p in SRC]
        text, info = tr.translate(*srcs)
    except tr.TranslationError as e:
        return False, str(e)
    except OSError as e:
        return False, 'source file missing: %s' % e
    path = os.path.join(ctx.build, 'Strength_gen.v')
    open(path, 'w').write(text)
    ok, out = ctx.coqc(path)
    if not ok:
        return False, 'generated text does not compile: ' + out[-800:]
    return True, info


# ==========================================================================================
# correspondence (a): formula methods vs generated definitions
def closed_args(s, m, uses, phase='all'):
    """Coq arguments for the section variables a generated definition is abstracted over"""
    out = []
    for v in tr.VAR_ORDER:
        if v not in uses[m]:
            continue
        if v == 'T':
            tm = 'Tcomplex' if s.T.__func__ is type(s).Tcomplex else 'Tsimple'
            out.append('(%s_gen %s)' % (tm, ' '.join(closed_args(s, tm, uses))))
        elif v == 'J':
            out.append(rl(float(s.J)))
        elif v in tr.DICTS:
            out.append(rl(float(getattr(s, v)[phase])))
        else:
            out.append(rl(float(getattr(s, v))))
    return out


def formula_goals(rng, info, nsets, npts):
    SM = impl()[0]
    uses = info['uses']
    goals, meta = [], []
    skipped = 0
    for k in range(nsets):
        P = gen_params(rng, full=True)
        P['contrib']['all']['bp'] = float(P['b'] * rng.uniform(0.8, 1.2))
        s = build_strength(P)
        for m in tr.FORMULAS:
            fn = getattr(SM, m)
            if isinstance(fn, property):
                y = float(getattr(s, m))
                goals.append(('Rabs (%s_gen %s - %s) <= (1 / 1000000000) * Rabs %s' % (m, ' '.join(closed_args(s, m, uses)), rl(y), rl(y)), 'enc'))
                meta.append((m, P, {}, y))
                continue
            pars = [p for p in inspect.signature(fn).parameters if p not in ('self', 'phase')]
            for j in range(npts):
                Ls = float(10 ** rng.uniform(-8.3, -6.3))
                vals = {'r': float(10 ** rng.uniform(-9.7, -7.6)), 'Ls': Ls, 'theta': float(rng.uniform(0, math.pi / 2)),
                        'r0': Ls if rng.random() < 0.5 else float(Ls / np.sqrt(np.cos(s.psi / 2)))}
                y = quiet(getattr(s, m), *[vals[p] for p in pars])
                y = float(y)
                if not math.isfinite(y) or y == 0:
                    skipped += 1
                    continue
                args = closed_args(s, m, uses) + [rl(vals[p]) for p in pars]
                goals.append(('Rabs (%s_gen %s - %s) <= (1 / 1000000000) * Rabs %s' % (m, ' '.join(args), rl(y), rl(y)), 'enc'))
                meta.append((m, P, {p: vals[p] for p in pars}, y))
    return goals, meta, skipped


# ---- (b) clipping on injected raw values -------------------------------------------------------
SPECIAL = [float('nan'), float('inf'), float('-inf'), 0.0, -0.0, -1.0, -1e-300, 1e-300, 1.0, -3.5e7, 2.5e8]


def clip_case(rng):
    """returns (goals, meta): getStrengthContributions with the formula methods replaced by scripted raw arrays"""
    P = gen_params(rng, full=True)
    s = build_strength(P)
    N = int(rng.integers(2, 6))
    raw = {}

    def draw():
        return np.array([float(rng.choice(SPECIAL)) if rng.random() < 0.6 else float(rng.normal(0, 1) * 10 ** rng.uniform(5, 9)) for _ in range(N)])
    for m in WEAK + STRONG + ['orowan']:
        raw[m] = draw()
        if m == 'orowan':
            setattr(s, m, (lambda a: (lambda r, Ls: a.copy()))(raw[m]))
        else:
            setattr(s, m, (lambda a: (lambda r, Ls, r0, phase='all': a.copy()))(raw[m]))
    r = np.ones(N) * 1e-9
    w, st, o, labels = quiet(s.getStrengthContributions, r, r * 10, 'all')
    goals = []
    rw = [x for m in WEAK for x in raw[m]]
    rs = [x for m in STRONG for x in raw[m]]
    ok = all(np.all(np.isfinite(a)) for a in (w, st, o))
    if ok:
        goals.append(('map (clip clip_weak_gen) [%s] = %s' % ('; '.join(xrl(x) for x in rw), rlist(np.ravel(w))), 'exact'))
        goals.append(('map (clip clip_strong_gen) [%s] = %s' % ('; '.join(xrl(x) for x in rs), rlist(np.ravel(st))), 'exact'))
        goals.append(('map (clip clip_orowan_gen) [%s] = %s' % ('; '.join(xrl(x) for x in raw['orowan']), rlist(np.ravel(o))), 'exact'))
    return goals, {'raw': {k: [float(x) for x in v] for k, v in raw.items()}, 'w': np.ravel(w).tolist(), 's': np.ravel(st).tolist(), 'o': np.ravel(o).tolist(),
                   'finite': ok}


# ---- (c) combination, superposition, total, radius / spacing, drag term --------------------------
def near(a, b, rt=1e-7):
    return a != b and abs(a - b) <= rt * max(abs(a), abs(b))


def combine_goals(rng, ncases):
    goals, meta = [], []
    indet = 0
    for _ in range(ncases):
        P = gen_params(rng)
        s = build_strength(P)
        kw, ks = int(rng.integers(0, 4)), int(rng.integers(0, 4))
        N = 3

        def arr(k):
            a = 10 ** rng.uniform(5, 9, (k, N))
            a[rng.random((k, N)) < 0.25] = 0.0
            return a
        W, S = arr(kw), arr(ks)
        o = 10 ** rng.uniform(5, 9, N)
        o[rng.random(N) < 0.25] = 0.0
        strength, cmpf, br = quiet(s.combineStrengthContributions, W.copy(), S.copy(), o.copy(), returnComparison=True)
        M, n = float(s.M), float(s.singlePhaseExp)
        for j in range(N):
            tw, ts, to = float(br[0][j]) / M, float(br[1][j]) / M, float(br[2][j]) / M
            if near(tw, ts) or near(tw, to) or near(ts, to):
                indet += 1
                continue
            y = float(strength[j])
            args = '%s %s %s %s %s' % (rl(M), rl(n), rlist(W[:, j]), rlist(S[:, j]), rl(o[j]))
            goals.append(('Rabs (combine_gen %s - %s) <= (1 / 1000000000) * Rabs %s' % (args, rl(y), rl(y)), 'enc'))
            meta.append(('combineStrengthContributions', {'M': M, 'n': n, 'W': W[:, j].tolist(), 'S': S[:, j].tolist(), 'o': float(o[j])}, y))
            goals.append(('compare_gen %s %s %s %s = %s' % (rl(n), rlist(W[:, j]), rlist(S[:, j]), rl(o[j]), boollit(bool(cmpf[j]))), 'exact'))
            meta.append(('combineStrengthContributions (comparison flag)', {'n': n, 'W': W[:, j].tolist(), 'S': S[:, j].tolist(), 'o': float(o[j])}, bool(cmpf[j])))
        # total strength
        ssv, psv = float(rng.choice([0.0, 10 ** rng.uniform(6, 9)])), float(rng.choice([0.0, 10 ** rng.uniform(6, 9)]))
        y = float(quiet(s.totalStrength, np.array([ssv]), np.array([psv]))[0])
        goals.append(('Rabs (total_gen %s %s %s %s - %s) <= (1 / 1000000000) * Rabs %s' % (rl(s.totalStrengthExp), rl(s.sigma0), rl(ssv), rl(psv), rl(y), rl(y)), 'enc'))
        meta.append(('totalStrength', {'n': float(s.totalStrengthExp), 'sigma0': float(s.sigma0), 'ss': ssv, 'ps': psv}, y))
    return goals, meta, indet


def mix_goals(rng, ncases):
    """precStrength with several phases: per-phase raw values scripted through the formula methods"""
    goals, meta = [], []
    for _ in range(ncases):
        P = gen_params(rng, full=True)
        nph = int(rng.integers(1, 4))
        phases = ['p%d' % i for i in range(nph)]
        P['phases'] = phases
        for ph in phases:
            P['contrib'][ph] = dict(P['contrib']['all'])
        s = build_strength(P)
        N = 3
        raw = {ph: {m: 10 ** rng.uniform(6, 9, N) for m in WEAK + STRONG} for ph in phases}
        oro = 10 ** rng.uniform(6, 9, (nph, N))
        for m in WEAK + STRONG:
            setattr(s, m, (lambda mm: (lambda r, Ls, r0, phase='all': raw[phase][mm].copy()))(m))
        # the Orowan value depends on the radius column handed over: script it through the radius
        s.rss = np.tile(np.arange(nph, dtype=float)[None, :], (N, 1))
        s.ls = np.ones((N, nph))
        s.orowan = lambda r, Ls: oro[int(r[0])].copy()
        y = np.array(quiet(s.precStrength, FakeHost(phases)), dtype=float)
        per = []
        for i, ph in enumerate(phases):
            w, st, o, _ = quiet(s.getStrengthContributions, s.rss[:, i], s.ls[:, i], ph)
            sg, cm, _ = quiet(s.combineStrengthContributions, w, st, o, returnComparison=True)
            per.append((np.array(sg, dtype=float), np.array(cm, dtype=bool)))
        for j in range(N):
            lst = '[' + '; '.join('(%s, %s)' % (rl(per[i][0][j]), boollit(bool(per[i][1][j]))) for i in range(nph)) + ']'
            goals.append(('Rabs (mix_gen %s %s %s - %s) <= (1 / 1000000000) * Rabs %s' % (rl(s.multiphaseSameExp), rl(s.multiphaseMixedExp), lst, rl(y[j]), rl(y[j])), 'enc'))
            meta.append(('precStrength', {'eSame': float(s.multiphaseSameExp), 'eMixed': float(s.multiphaseMixedExp),
                                          'phases': [(float(per[i][0][j]), bool(per[i][1][j])) for i in range(nph)]}, float(y[j])))
    return goals, meta


class FakePBM:
    def __init__(self, psd, size):
        self.PSD, self.PSDsize = np.array(psd, dtype=float), np.array(size, dtype=float)


class FakePData:
    pass


def radius_goals(rng, ncases):
    SM, GG, _ = impl()
    goals, meta = [], []
    for _ in range(ncases):
        n = int(rng.integers(1, 7))
        size = np.sort(10 ** rng.uniform(-9.7, -7.5, n))
        psd = 10 ** rng.uniform(15, 24, n)
        psd[rng.random(n) < 0.3] = 0
        if rng.random() < 0.15:
            psd[:] = 0
        host = FakeHost(['a'])
        host.PBM = [FakePBM(psd, size)]
        s = SM()
        yr, yl = float(quiet(s.rssterm, host, 0)), float(quiet(s.Lsterm, host, 0))
        m1 = 'moment1 %s %s' % (rlist(psd), rlist(size))
        m2 = 'moment2 %s %s' % (rlist(psd), rlist(size))
        for nm, y, rt in (('rssterm', yr, '1000000000'), ('Lsterm', yl, '1000000')):
            goals.append(('Rabs (%s_gen (%s) (%s) - %s) <= (1 / %s) * Rabs %s' % (nm, m1, m2, rl(y), rt, rl(y)), 'enc'))
            meta.append((nm, {'psd': psd.tolist(), 'size': size.tolist()}, y))
        # one drag term of computeZenerRadius
        g = GG(1e-7, 1e-5, 10, 5, 20)
        mexp, K = float(rng.choice([1.0, 0.5, 2 / 3])), float(rng.uniform(0.5, 2))
        g.setZenerParameters(mexp, K)
        host.pData = FakePData()
        host.pData.n = 0
        f, R = float(rng.uniform(1e-4, 0.2)), float(rng.choice([0.0, 10 ** rng.uniform(-9, -7)]))
        host.pData.Ravg = np.array([[R]])
        host.pData.volFrac = np.array([[f]])
        quiet(g.computeZenerRadius, host)
        seen = watch_growth(g)
        quiet(g.getdXdt, 0.0, [np.array(g.pbm.PSD, dtype=float) + 1.0])
        if seen['z'] is None:
            raise TieBroken('GrainGrowthModel.getdXdt no longer hands the drag level to constrainedGrowth')
        y = seen['z']
        goals.append(('Rabs (zener1_gen %s %s %s %s - %s) <= (1 / 1000000000) * Rabs %s' % (rl(f), rl(mexp), rl(K), rl(R), rl(y), rl(y)), 'enc'))
        meta.append(('computeZenerRadius', {'f': f, 'm': mexp, 'K': K, 'Ravg': R}, y))
    return goals, meta


# ---- (f) grain-growth kernels on exact rationals ---------------------------------------------------
QHEADER = '''From Coq Require Import QArith List ZArith.
Require Import Kawin.Common.Ops Kawin.Common.Vec Kawin.Common.Out Kawin.C07.Model Kawin.C18.Model Kawin.C18.Corr.
Import ListNotations.
Open Scope Q_scope.
'''
FHEADER = '''From Coq Require Import List ZArith PrimFloat.
Require Import Kawin.Common.Ops Kawin.C05.Model Kawin.C05.Corr Kawin.C18.Model Kawin.C18.Corr.
Import ListNotations.
Open Scope float_scope.
'''
RHEADER = '''From Coq Require Import Reals String List Bool Arith.
Require Import Kawin.C18.Model.
Import ListNotations.
'''


def grain_term(c):
    g, x, free, growth, dx, dx2 = quiet(grain_rates, c)
    if not all(np.all(np.isfinite(a)) for a in (free, growth, dx, dx2)):
        return None, None
    size = g.pbm.PSDsize
    cc = c['alpha'] * c['Mgb'] * c['gbe']
    cz = cc * c['z']
    m1, m2, m3, m0 = (float(np.sum(x * size ** k)) for k in (1, 2, 3, 0))
    if m1 == 0 or m3 == 0 or m0 == 0:
        return None, None
    g2 = make_grain(c)
    g2.Normalize()
    norm = np.array(g2.pbm.PSD, dtype=float)
    rm3 = float(g.Rm(x)) ** 3
    s_g = [abs(cc) * (m1 / m2 + 1 / b) for b in c['bounds']]
    rt = '(1 # 1125899906842624)' if c.get('exact') else '(1 # 68719476736)'
    term = 'check_grain %s %s %s %s %s %s %s %s %s %s %s %s %s %s' % (
        rt, qlit(cc), qlit(cz), qlit(c['dt']), qlist(c['bounds']), qlist(size), qlist(x), qlist(free), qlist(growth), qlist(dx), qlist(dx2),
        qlist(norm), qlit(rm3), qlist(s_g))
    return term, {'free': free, 'growth': growth, 'dx': dx, 'dx2': dx2, 'norm': norm, 'rm3': rm3}


def grain_compare(res, im):
    """-> (list of disagreement strings, indeterminate)"""
    r_g, r_cg, tie, r_dx, ltie, r_dx2, r_norm, r_rm3, r_m3 = res
    dis = []
    for nm, r, iv in (('grainGrowth', r_g, im['free']), ('constrainedGrowth', r_cg, im['growth']), ('getdXdt', r_dx, im['dx']),
                      ('correctdXdt', r_dx2, im['dx2']), ('Normalize', r_norm, im['norm']), ('Rm^3', r_rm3, [im['rm3']]),
                      ('ThirdMoment after Normalize', r_m3, [1.0])):
        if r is not None:
            k, ap = r[1]
            dis.append('%s[%d]: implementation %r, model %r' % (nm, k, float(np.ravel(iv)[k]) if k < np.size(iv) else None, float(tofrac(ap))))
    return dis, bool(tie or ltie)


# ---- (g) clock of coupled runs on binary64, histories ----------------------------------------------
def clock_term(rec, props, t0):
    ts = [r['t'] for r in rec]
    icl = [r['gclock'] for r in rec]
    fl = lambda xs: '[' + '; '.join(flit(x) for x in xs) + ']'
    pl = '[' + '; '.join(fl(p) for p in props) + ']'
    # the grain clock starts at 0 when the models are coupled at host time t0
    return 'check_gclock 4000 (%s) (%s) (%s) (%s) %s %s %s' % (flit(1e-8), flit(1.0), flit(0.0), flit(t0), fl(ts), pl, fl(icl))


def history_term(nph, calls):
    st = '(repeat 0%%R %d, repeat 0%%R %d, 0%%R)' % (nph, nph)
    cl = '[' + '; '.join('repeat %s %d' % (st, k) for k in calls) + ']'
    return '(let h := srun %d 0%%R %s None in (hlen_rss h, hlen_ls h, hlen_ss h))' % (nph, cl)


# ==========================================================================================
# corpus, shrinking, reporting
def corpus_cases():
    out = []
    p = os.path.join(VERIF, 'corpus', 'C18')
    if os.path.isdir(p):
        for f in sorted(os.listdir(p)):
            if f.endswith('.json'):
                c = json.load(open(os.path.join(p, f)))
                c = c.get('input', c)
                c['from_corpus'] = f
                out.append(c)
    return out


def clean(c):
    """JSON-able copy (floats are stored by repr: exact for binary64)"""
    return json.loads(json.dumps({k: v for k, v in c.items() if not k.startswith('_')}, default=lambda o: o.tolist() if hasattr(o, 'tolist') else str(o)))


def shrink(c, clause, cls):
    """smallest variant of the case that still shows (clause, cls)"""
    def fails(d):
        try:
            return any(h[0] == clause and h[1] == cls for h in evaluate_case(d))
        except Exception:
            return False           # (TieBroken included: nothing to shrink)
    cur = c
    if c['kind'] in ('strength', 'mixed', 'phase_params') and len(c['r']) > 1:
        for j in range(len(c['r'])):
            d = dict(c)
            d['r'], d['Ls'] = [c['r'][j]], [c['Ls'][j]]
            if 'ss' in c:
                d['ss'] = [c['ss'][j]]
            if fails(d):
                cur = d
                break
        if cur['kind'] == 'strength' and len(cur['params']['phases']) > 1:
            d = copy.deepcopy(cur)
            d['params']['phases'] = d['params']['phases'][:1]
            if fails(d):
                cur = d
    elif c['kind'] == 'zener' and len(c['rate']) > 1:
        for j in range(len(c['rate'])):
            d = dict(c)
            d['rate'] = [c['rate'][j]]
            if fails(d):
                cur = d
                break
    elif c['kind'] in ('coupled', 'grain_run') and len(c['spans']) > 1:
        for k in range(1, len(c['spans'])):
            d = dict(c)
            d['spans'] = c['spans'][:k]
            if fails(d):
                cur = d
                break
    return cur


def report_hits(ctx, hits):
    seen = set()
    for (c, clause, cls, msg) in hits:
        if (clause, cls) in seen:
            continue
        seen.add((clause, cls))
        small = shrink(c, clause, cls)
        msgs = [h[2] for h in evaluate_case(small) if h[0] == clause and h[1] == cls] if small is not c else [msg]
        ctx.violation(clause, {'site': SITES.get(c['kind'], S_SITE), 'cls': cls},
                      {'kind': 'input' if c['kind'] not in ('coupled', 'grain_run') else 'history', 'input': clean(small),
                       'observed': msgs[0] if msgs else msg,
                       'oracle': 'independent recomputation from the property text (harness/c18.py: oracle_%s)' % c['kind']},
                      msgs[0] if msgs else msg)


def nontrivial(c):
    k = c['kind']
    if k in ('strength', 'phase_params', 'mixed'):
        return any(r > 0 and L > 0 for r, L in zip(c['r'], c['Ls'])) and any(c['params']['contrib'][p] for p in c['params']['contrib'])
    if k == 'zener':
        return any(x != 0 for x in c['rate'])
    if k in ('grain_rate', 'grain_run'):
        return sum(1 for x in c['psd'] if x > 0) >= 2
    return True


def search(ctx, quick, scale=1.0):
    """independent oracle on the implementation; returns (hits, coupled runs kept for the correspondence)"""
    rng = ctx.rng
    mult = (1 if quick else 10) * scale
    plan = [(gen_strength_case, int(150 * mult)), (gen_mixed_case, int(20 * mult)), (gen_zener_case, int(150 * mult)),
            (gen_grain_rate_case, int(100 * mult)), (gen_grain_run_case, int(12 * mult)), (gen_grain_history_case, int(12 * mult)),
            (gen_strength_api_case, int(30 * mult)), (lambda r: gen_coupled_case(r, quick), max(1, int(5 * mult)))]
    hits, kept = [], []
    for gen, n in plan:
        for i in range(n):
            c = gen(rng)
            run = None
            if c['kind'] == 'coupled':
                try:
                    run = quiet(run_coupled, c)
                    hs = oracle_coupled(c, run)
                except Exception as e:
                    hs = [('no_internal_error', 'exception', 'coupled run raised %s: %s' % (type(e).__name__, e))]
                if run is not None and len(kept) < (4 if quick else 12):
                    kept.append((c, run))
                ctx.cov['traces_validated_against_impl'] += 1
            else:
                try:
                    hs = evaluate_case(c)
                except TieBroken as e:
                    ctx.notes.setdefault('observation_lost', str(e))
                    hs = []
                if c['kind'] == 'strength':
                    c2 = dict(c)
                    c2['kind'] = 'phase_params'
                    hs2 = evaluate_case(c2)
                    hits += [(c2, *h) for h in hs2]
            ctx.count(clean(c), nontrivial(c))
            ctx.hist('kind', c['kind'])
            if c['kind'] == 'strength':
                ri = c['params']['ri'] or c['params']['b']
                for r, L in zip(c['r'], c['Ls']):
                    ctx.hist('radius', radius_class(r, L, ri))
            if c['kind'] == 'grain_run':
                ctx.hist('grain_run', 'frozen' if c['frozen'] else ('pinned' if c['z'] > 0 else 'free'))
            hits += [(c, *h) for h in hs]
            if i < 1:
                ctx.sample({'kind': c['kind'], 'input': {k: v for k, v in clean(c).items() if k in ('r', 'Ls', 'z', 'spans', 'rate')}, 'violations': [h[:2] for h in hs]})
    return hits, kept


# ==========================================================================================
def correspondence(ctx, quick, info, kept):
    """model (generated definitions / hand model) vs implementation; returns list of (what, input, message)"""
    rng = ctx.rng
    dis = []
    gen_names = info['definitions'] + ['moment1', 'moment2', 'momentFromN', 'zipWith', 'powT']
    k = 1 if quick else 4
    goals, meta = [], []
    fg, fm, skipped = formula_goals(rng, info, 3 * k, 2)
    goals += fg
    meta += [('formula ' + m[0], {'params': m[1], 'at': m[2]}, m[3]) for m in fm]
    ctx.notes['formula_points_not_finite'] = skipped
    for _ in range(6 * k):
        cg, cm = clip_case(rng)
        goals += cg
        meta += [('clipping of getStrengthContributions', cm, None)] * len(cg)
        if not cm['finite']:
            dis.append(('clipping', cm, 'getStrengthContributions returned a non-finite value for scripted raw contributions %r' % cm['raw']))
    cg, cm, indet = combine_goals(rng, 12 * k)
    goals += cg
    meta += cm
    mg, mm = mix_goals(rng, 6 * k)
    goals += mg
    meta += mm
    rg, rm = radius_goals(rng, 10 * k)
    goals += rg
    meta += rm
    # negative control: a wrong value must be rejected by the same machinery
    ctrl = None
    for (g, kind), m in zip(fg, fm):
        if m[0] == 'orowan':
            y = m[3] * (1 + 1e-6)
            ctrl = (g.rsplit(' - ', 1)[0] + ' - %s) <= (1 / 1000000000) * Rabs %s' % (rl(y), rl(y)), 'enc')
            break
    if ctrl:
        goals.append(ctrl)
        meta.append(('negative control', {}, None))
    verdicts = run_goals(ctx, 'goals', goals, gen_names)
    for (g, kind), m, ok in zip(goals, meta, verdicts):
        if m[0] == 'negative control':
            if ok:
                dis.append(('self-test', {}, 'the enclosure machinery accepted a value that is off by 1e-6'))
            continue
        ctx.count({'goal': g}, True)
        ctx.hist('goal', m[0].split(' ')[0] if m[0].startswith('formula') else m[0])
        if not ok:
            dis.append((m[0], m[1], '%s: the model does not reproduce the implementation value %r (goal not provable: %s)' % (m[0], m[2], g[:300])))
    ctx.notes['goals'] = len(goals)
    ctx.notes['indeterminate_near_tie'] = indet
    # grain kernels on exact rationals
    cases = [gen_grain_rate_case(rng) for _ in range(40 * k)] + [dict(gen_zener_case(rng), _z=True) for _ in range(20 * k)]
    terms, ims, used = [], [], []
    for c in cases:
        if c.get('_z'):
            c = dict(c)
            c['dt'] = 1.0
            c.pop('_z')
        t, im = grain_term(c)
        if t is not None:
            terms.append(t)
            ims.append(im)
            used.append(c)
    res = ctx.coq_eval('grain', QHEADER, terms)
    for c, im, r in zip(used, ims, res):
        d, ind = grain_compare(r, im)
        ctx.count(clean(c), nontrivial(c))
        ctx.hist('goal', 'grain kernels (exact rationals)')
        if ind:
            ctx.notes['indeterminate_near_tie'] += 1
        for x in d:
            dis.append(('grain kernels', clean(c), x))
    # constrainedGrowth on exact dyadic inputs: no tolerance
    ex = [gen_zener_case(rng) for _ in range(60 * k)]
    ex = [c for c in ex if c['exact']]
    terms = []
    for c in ex:
        g = make_grain(c)
        cg = g.constrainedGrowth(np.array(c['rate']), c['z'])
        terms.append('check_constrained_exact %s %s %s' % (qlit(c['alpha'] * c['Mgb'] * c['gbe'] * c['z']), qlist(c['rate']), qlist(cg)))
    if terms:
        for c, r in zip(ex, ctx.coq_eval('zexact', QHEADER, terms)):
            ctx.count(clean(c), True)
            if r is not True:
                dis.append(('constrainedGrowth (exact)', clean(c), 'constrainedGrowth on dyadic inputs %r, drag %r differs from the model' % (c['rate'], c['z'])))
    # coupled runs: clock bit for bit, history lengths
    terms, hterms = [], []
    for c, run in kept:
        host, s, g, rec, props, calls, t0 = run
        if rec:
            terms.append(clock_term(rec, props, t0))
            hterms.append(history_term(len(c['host_phases']), calls))
    if terms:
        for (c, run), r in zip(kept, ctx.coq_eval('clock', FHEADER, terms, shard=1)):
            if r is not None:
                k0 = r[1][0]
                dis.append(('grain clock (binary64)', clean(c), 'host step %d: grain-growth clock of the implementation %r differs from the model clock' % (k0 + 1, run[3][k0]['gclock'] if k0 < len(run[3]) else None)))
        for (c, run), r in zip(kept, ctx.coq_eval('history', RHEADER, hterms, shard=1)):
            host, s, g, rec, props, calls, t0 = run
            got = (s.rss.shape[0], s.ls.shape[0], s.solidStrength.shape[0]) if s.rss is not None else (1, 1, 1)
            if tuple(r) != got:
                dis.append(('strength history', clean(c), 'history lengths %r after solve calls with %r steps, model %r' % (got, calls, tuple(r))))
    return dis


def run(ctx):
    quick = ctx.quick
    ctx.cov['rule'] = ('strength: random material parameter sets (global and phase-specific contributions, simple / complex line tension and J, exponents 1-2.5), '
                       'radii / spacings incl. zero, sub-core (2r < ri), core, large; mixed formulas at 0 / 90 degrees; Zener drag on random and exact dyadic rates incl. '
                       'threshold ties; grain rate on random grids (2-16 classes); free-standing grain runs (free / pinned / frozen, Euler / RK4, 1-3 solve calls); coupled '
                       'runs of the stub-thermodynamics precipitation host with both coupling models over 1-3 solve calls; every Coq goal / exact evaluation counts as one '
                       'evaluation; non-trivial = has particles and at least one contribution (strength), a non-zero rate (Zener), two populated classes (grain)')
    # ---- 0. the guards of the AST normaliser behave (pairs that must / must not be identified) -------------
    import c18_normalize
    bad = c18_normalize.selftest()
    ctx.notes['normaliser_selftest'] = {'pairs': len(c18_normalize.SELFTEST), 'wrong': bad}
    if bad:
        ctx.violation('self-test', {'site': 'harness/c18_normalize.py', 'cls': 'rewrite guard'}, {'broken': {'normaliser pairs': bad}},
                      'the AST normaliser identifies / separates the wrong programs (self-test pairs %r)' % bad, no_input=True)
    # ---- 1. regenerate ----------------------------------------------------------------------------
    tie_ok, info = regenerate(ctx)
    failed = []
    prove_out = {}

    def prove():
        try:
            if tie_ok:
                prove_out['r'] = ctx.prove(['C18/Properties.v'] + RUN_FILES)
            else:
                prove_out['r'] = ctx.prove(['C18/Properties.v'])
        except Exception as e:
            prove_out['err'] = e
    th = threading.Thread(target=prove)
    th.start()
    if tie_ok:
        ctx.notes['translator'] = {'definitions': len(info['definitions']), 'clips': info['clips']}
        ctx.notes['generated_sha256'] = info['sha256']
    else:
        ctx.notes['tie_broken'] = info
    # ---- 2. corpus + search (always) -----------------------------------------------------------------
    hits = []
    for c in corpus_cases():
        name = c.pop('from_corpus')
        try:
            hs = evaluate_case(c)
        except TieBroken as e:
            ctx.notes.setdefault('observation_lost', str(e))
            hs = []
        except Exception as e:
            hs = [('no_internal_error', 'exception', 'corpus case %s raised %s' % (name, e))]
        ctx.count(clean(c), True)
        ctx.hist('kind', 'corpus')
        hits += [(c, *h) for h in hs]
    shits, kept = search(ctx, quick)
    hits += shits
    # ---- 3. correspondence ----------------------------------------------------------------------------
    dis = []
    if tie_ok:
        try:
            dis = correspondence(ctx, quick, info, kept)
        except Exception as e:
            dis = [('corr-crash', None, 'correspondence could not be evaluated: %s' % e)]
    th.join()
    if 'err' in prove_out:
        raise prove_out['err']
    axioms, failed = prove_out['r']
    if not tie_ok:
        for rel in RUN_FILES:
            thms = re.findall(r'^\s*Theorem\s+([A-Za-z_0-9\']+)', open(os.path.join(COQ, rel)).read(), re.M)
            ctx.cov['obligations'] += len(thms)
            failed = list(failed) + thms
    ctx.notes['disagreements'] = len(dis)
    ctx.notes['oracle_hits'] = len(hits)
    def fresh(hs):
        # hits that are not open known findings (those must not hide a broken theorem / tie / correspondence)
        out = []
        for h in hs:
            sig = {'clause': h[1], 'site': SITES.get(h[0]['kind'], S_SITE), 'cls': h[2]}
            if not any(k.get('property') == ctx.prop and k.get('status') == 'open' and k.get('signature') == sig for k in ctx.known):
                out.append(h)
        return out
    broken = (not tie_ok) or failed or dis
    if broken and not fresh(hits):
        more, _ = search(ctx, quick, scale=3.0)
        hits += more
    report_hits(ctx, hits)
    if ctx.notes.get('observation_lost'):
        ctx.violation('observation', {'site': 'harness/c18.py', 'cls': 'public extension point'},
                      {'broken': {'tie': 'observation', 'error': ctx.notes['observation_lost']}},
                      'tie broken: %s' % ctx.notes['observation_lost'], no_input=True)
    if not fresh(hits):
        if not tie_ok:
            ctx.violation('translator', {'site': 'harness/c18_translate.py', 'cls': 'unsupported source'},
                          {'broken': {'tie': 'translator', 'error': info, 'files': SRC}},
                          'tie broken: the source is outside the translated subset (%s); the search found no failing input' % info, no_input=True)
        for t in failed if tie_ok else []:
            ctx.violation(t, {'site': 'coq/C18', 'cls': 'proof'},
                          {'broken': {'theorem': t, 'errors': ctx.notes.get('coq_errors', [])[:2]}},
                          'theorem %s no longer checks against the text generated from the current source' % t, no_input=True)
        for what, c, d in dis[:1]:
            ctx.violation('correspondence', {'site': 'coq/C18/Model.v', 'cls': what},
                          {'broken': {'correspondence': 'model vs kawin/precipitation/coupling', 'first_disagreement': d}, 'input': c, 'disagreements': len(dis)},
                          'model and implementation disagree (%d cases), e.g. %s' % (len(dis), d), no_input=True)
    elif failed or not tie_ok or dis:
        ctx.notes['unchecked_theorems'] = failed
        ctx.notes['first_disagreements'] = [d[2][:400] for d in dis[:3]]
    ctx.assumptions += [
        'IEEE special values are not modelled arithmetically: a raw contribution is a real number or "non-finite"; that the formula methods return non-finite values exactly where the real formula is undefined (division by zero spacing, log of zero radius) is sampled, not proved',
        'np.power is modelled as exp(y ln x) for x > 0 and 0 for x = 0 (y > 0); negative bases / non-positive exponents are excluded by hypotheses; binary64 overflow of x^n is not modelled',
        'mean grain size never decreases without pinning: NOT proved (partial theorem C18_mean_size_monotone_partial needs "the transport step does not lose volume"); sampled on free-standing and coupled runs whose grid covers the distribution; with a populated last size class grains leave through the upper end and the mean radius can drop for one step (observed, see notes/C18.md)',
        'mixed-dislocation formulas equal the edge / screw formulas up to the printed constants (4.1127, 1.3416, 2.1352: <= 1e-4 relative; 0.69 for 2/sqrt(pi)/sqrt(8/3): <= 1.5e-3) and for J = 1; with setJfactor("complex") the edge / screw formulas carry sqrt(1-nu) / 1/sqrt(1-nu) (theorem C18_Jcomplex_pure_characters)',
        'grain-growth clock: equality with the host clock is a theorem over the reals (and over any split into solve calls); on binary64 the model clock is compared bit for bit with the implementation on the coupled runs of the check, and the oracle allows 4 ulp per host step',
        'the host is the stub-thermodynamics PrecipitateModel (harness/stubs.py); its own step contract is C05 / C03 territory: host times are assumed strictly increasing (C05_solver_contract)',
        'grain-size distributions with all classes empty (division by a zero moment) are outside the model: theorems carry the hypothesis M3 <> 0']
    ctx.cov['trusted_base'] += ['Coq 8.16.1 kernel, vm_compute, and the Interval tactic (kernel-checked proofs by reflection)',
                                'translator harness/c18_translate.py with the AST normaliser harness/c18_normalize.py (fail-closed; validated on every run by enclosures of its output against the Python methods)',
                                'hand-written part of coq/C18/Model.v (wiring of the generated pieces) + correspondence harness harness/c18.py',
                                'float -> exact rational transport and output parser in harness/common.py; numpy libm (1e-9 relative tolerance of the enclosures)',
                                'coq/C07 (transport kernels) and coq/C05 (solver clock) models, tied to the code by their own checks']


def replay(ctx, obj):
    c = obj.get('input') or obj
    c.pop('from_corpus', None)
    hits = evaluate_case(c)
    for h in hits:
        print('replay:', h)
    print('replay: %d oracle violations on this input' % len(hits))
    return 1 if hits else 0
