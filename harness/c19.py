"""C19 - stopping conditions stop the run when, and only when, they are met.

proof:          coq/C19/Properties.v (26 theorems about the real instance of coq/C19/Model.v: latch, registration API,
                or/and combination, first-hit stop, crossing time within the step / on the chord, TTP
                after reset; the physics is an arbitrary function `next`).
correspondence: the REAL stopping machinery (PrecipitationStoppingCondition.testCondition,
                PrecipitateBase.postProcess / reset / addStoppingCondition, DESolver.solve through
                GenericModel.solve, TTPCalculator) is run
                  (a) on scripted histories: a PrecipitateBase subclass whose physics (dependent terms,
                      step size) is a script, everything else inherited,
                  (b) on real PrecipitateModel runs with a closed-form stub thermodynamics backend,
                  (c) through TTPCalculator (scripted, and stub backend on 3 temperatures);
                the reference trajectory (same run WITHOUT conditions) is shipped exactly to Coq, the
                model (exact rationals, vm_compute) is run on it and its outcome (rows recorded, stop
                flag, every latch and reported time) compared with the implementation's.
search:         an oracle written from the property text (plain loops over the reference trajectory:
                first step at which any 'or' / all 'and' conditions have been met, times inside the
                step and on the chord, -1 when never met, latches never change once set, the run with
                conditions is a prefix of the run without) judges every implementation run.
"""
import copy, io, json, math, contextlib, warnings
from fractions import Fraction
import numpy as np
from common import *

LEVEL = 'proof'
SITE = 'StoppingConditions'

QUANT = ['VolFrac', 'AvgRadius', 'DrivingForce', 'NucRate', 'Density', 'Composition']
ATTR = {'VolFrac': 'volFrac', 'AvgRadius': 'Ravg', 'DrivingForce': 'drivingForce', 'NucRate': 'nucRate',
        'Density': 'precipitateDensity', 'Composition': 'composition'}
CLSNAME = {'VolFrac': 'VolumeFractionCondition', 'AvgRadius': 'AverageRadiusCondition',
           'DrivingForce': 'DrivingForceCondition', 'NucRate': 'NucleationRateCondition',
           'Density': 'PrecipitateDensityCondition', 'Composition': 'CompositionCondition'}

HEADER = '''From Coq Require Import String QArith List ZArith.
Require Import Kawin.Common.Ops Kawin.Common.Vec Kawin.Common.Out Kawin.C19.Model Kawin.C19.Corr.
Import ListNotations.
Open Scope Q_scope.
'''

TOL = Fraction(1, 2 ** 36)


# ------------------------------------------------------------------------------------------
# exact JSON transport
def enc(o):
    if isinstance(o, float):
        return {'f': o.hex()}
    if isinstance(o, (np.floating,)):
        return {'f': float(o).hex()}
    if isinstance(o, (np.integer,)):
        return int(o)
    if isinstance(o, (np.bool_,)):
        return bool(o)
    if isinstance(o, dict):
        return {str(k): enc(v) for k, v in o.items()}
    if isinstance(o, (list, tuple, np.ndarray)):
        return [enc(x) for x in o]
    return o


def dec(o):
    if isinstance(o, dict):
        if set(o.keys()) == {'f'}:
            return float.fromhex(o['f'])
        return {k: dec(v) for k, v in o.items()}
    if isinstance(o, list):
        return [dec(x) for x in o]
    return o


# ------------------------------------------------------------------------------------------
# implementation side
def mk_cond(c):
    from kawin.precipitation import StoppingConditions as SC
    ineq = SC.Inequality.GREATER_THAN if c['ineq'] == 'GT' else SC.Inequality.LESSER_THAN
    cls = getattr(SC, CLSNAME[c['q']])
    style = c.get('ctor', 'kw')
    if style == 'omit' and c['sel'] is None:
        return cls(ineq, c['value'])                 # phase / element argument omitted: default None
    if style == 'pos':
        return cls(ineq, c['value'], c['sel'])       # third positional parameter
    if c['q'] == 'Composition':
        return cls(ineq, c['value'], element=c['sel'])
    return cls(ineq, c['value'], phase=c['sel'])


KNOWN_MODES = ('or', 'and', 'default')


def register_cond(model, obj, c):
    """model.addStoppingCondition as a user writes it: mode omitted ('default'), positional or keyword"""
    if c['mode'] == 'default':
        if c.get('call') == 'kw':
            model.addStoppingCondition(condition=obj)
        else:
            model.addStoppingCondition(obj)
    elif c.get('call') == 'kw':
        model.addStoppingCondition(obj, mode=c['mode'])
    else:
        model.addStoppingCondition(obj, c['mode'])


def is_or(c):
    """the API contract: addStoppingCondition(condition, mode='or') - no mode means or-combined"""
    return c['mode'] in ('or', 'default')


def latch_of(obj):
    return (bool(obj.isSatisfied()), float(obj.satisfiedTime()))


_SCRIPTED = None


def scripted_class():
    """PrecipitateBase with scripted physics; the stopping machinery is inherited unchanged."""
    global _SCRIPTED
    if _SCRIPTED is not None:
        return _SCRIPTED
    from kawin.precipitation.KWNBase import PrecipitateBase
    from kawin.precipitation.PrecipitationParameters import PrecipitationData

    class ScriptedModel(PrecipitateBase):
        def __init__(self, phases, elements, script):
            super().__init__(phases=list(phases), elements=list(elements))
            self.script = script
            self.log = []          # per accepted step: (stop flag, [latches])

        def _script(self):
            if 'byT' in self.script:
                T = float(self.temperatureParameters(0.0))
                return self.script['byT'][repr(T)]
            return self.script

        def _row(self, k):
            rows = self._script()['rows']
            return rows[min(k, len(rows) - 1)]

        def _mk(self, k, t):
            Y = PrecipitationData(self.phases, self.elements, N=1)
            r = self._row(k)
            Y.time[0] = t
            for q in QUANT:
                getattr(Y, ATTR[q])[0] = r[q]
            return Y

        def setup(self):
            if self._isSetup:
                return
            self.pData.setSlice(self._mk(0, self.pData.time[0]), 0)
            self._isSetup = True

        def _calculateDependentTerms(self, t, x):
            self._currY = self._mk(self.pData.n + 1, t)

        def _updateParticleSizeDistribution(self, t, x):
            pass

        def getCurrentX(self):
            return self.pData.time[self.pData.n], [np.zeros(1)]

        def getdXdt(self, t, x):
            return [np.zeros(1)]

        def correctdXdt(self, dt, x, dXdt):
            pass

        def getDt(self, dXdt):
            d = self._script()['dt']
            return d[min(self.pData.n, len(d) - 1)]

        def printStatus(self, iteration, modelTime, simTimeElapsed):
            pass

        def postProcess(self, t, x):
            r = super().postProcess(t, x)
            self.log.append((bool(r[1]), [latch_of(c) for c in getattr(self, 'c19_objs', [])]))
            return r

    _SCRIPTED = ScriptedModel
    return ScriptedModel


R_GAS = 8.314


class StubMulti:
    """closed-form ideal dilute binary thermodynamics (see notes/snippets/stub_backends.md)"""
    numElements = 2
    elements = ['A', 'B', 'VA']
    P = {'B1': (0.25, 60000., 2.0), 'B2': (0.5, 52000., 1.2), 'B3': (0.2, 65000., 2.6)}

    def __init__(self, phases):
        self.phases = ['ALPHA'] + list(phases)

    def xeq(self, T, ph):
        xb, H, S = self.P[ph]
        return np.exp(-H / (R_GAS * T) + S)

    def getInterfacialComposition(self, T, gExtra=0, precPhase=None):
        T = np.atleast_1d(T)
        g = np.array(np.atleast_1d(gExtra), dtype=float)
        xb0 = self.P[precPhase][0]
        xa = self.xeq(T[0], precPhase) * np.exp(g / (R_GAS * T[0] * xb0))
        xb = xb0 * np.ones(g.shape)
        bad = xa >= xb0
        return np.squeeze(np.where(bad, -1, xa)), np.squeeze(np.where(bad, -1, xb))

    def getDrivingForce(self, x, T, precPhase=None, removeCache=False, **k):
        x = np.atleast_2d(x)
        T = np.atleast_1d(T)
        xe = self.xeq(T, precPhase)
        xb = self.P[precPhase][0]
        return (np.squeeze(R_GAS * T * (xb * np.log(x[:, 0] / xe) + (1 - xb) * np.log((1 - x[:, 0]) / (1 - xe)))),
                np.squeeze(xb * np.ones(len(T))))

    def getInterdiffusivity(self, x, T, removeCache=True, phase=None):
        return np.squeeze(1e-5 * np.exp(-150000 / (R_GAS * np.atleast_1d(T))))

    def getTracerDiffusivity(self, x, T, removeCache=True, phase=None):
        d = 1e-5 * np.exp(-150000 / (R_GAS * np.atleast_1d(T)))
        return np.squeeze(np.array([d, d]).T)


def mk_stub_model(cfg):
    from kawin.precipitation import PrecipitateModel, VolumeParameter
    phases = list(cfg['phases'])

    class Logged(PrecipitateModel):
        def postProcess(self, t, x):
            r = super().postProcess(t, x)
            if not hasattr(self, 'log'):
                self.log = []
            self.log.append((bool(r[1]), [latch_of(c) for c in getattr(self, 'c19_objs', [])]))
            return r

    m = Logged(phases=phases, elements=['B'])
    m.log = []
    m.setPBMParameters(cMin=1e-10, cMax=1e-8, bins=75, minBins=50, maxBins=100)
    m.setInitialComposition(cfg['x0'])
    m.setTemperature(cfg['T'])
    a = 0.4e-9
    m.setVolumeAlpha(a ** 3, VolumeParameter.ATOMIC_VOLUME, 4)
    for p in phases:
        m.setInterfacialEnergy(cfg['gamma'], phase=p)
        m.setVolumeBeta(a ** 3, VolumeParameter.ATOMIC_VOLUME, 4, phase=p)
    m.setNucleationDensity(grainSize=1, dislocationDensity=1e15)
    for p in phases:
        m.setNucleationSite('dislocations', phase=p)
    m.setThermodynamics(StubMulti(phases))
    return m


def mk_model(sc):
    if sc['base'] == 'scripted':
        return scripted_class()(sc['phases'], sc['elements'], sc['script'])
    return mk_stub_model(sc['stub'])


def solver_of(sc):
    from kawin.solver import SolverType
    return SolverType.RK4 if sc.get('solver') == 'rk4' else SolverType.EXPLICITEULER


def rows_of(model):
    pd = model.pData
    out = []
    for k in range(pd.n + 1):
        r = {'t': float(pd.time[k])}
        for q in QUANT:
            r[q] = [float(x) for x in np.atleast_1d(getattr(pd, ATTR[q])[k])]
        out.append(r)
    return out


def quiet_solve(model, simTime, solver):
    """returns None or the exception name"""
    try:
        with contextlib.redirect_stdout(io.StringIO()), warnings.catch_warnings():
            warnings.simplefilter('ignore')
            model.solve(simTime, solverType=solver)
        return None
    except Exception as e:
        tb = e.__traceback__
        while tb.tb_next is not None:
            tb = tb.tb_next
        if isinstance(e, (AttributeError, TypeError, NameError)) and tb.tb_frame.f_code.co_filename.endswith('c19.py'):
            # raised by the harness's own code (its scripted subclass / logging touching kawin internals that
            # are gone): the check itself is broken, this is not a failing input
            raise RuntimeError('harness code failed on kawin internals: %s: %s' % (type(e).__name__, e))
        return type(e).__name__ + ': ' + str(e)[:200]


def segment_result(model, objs, n_before, err):
    log = model.log[:]
    model.log = []
    return {'err': err, 'rows': rows_of(model), 'n0': n_before, 'log': log,
            'latches': [latch_of(o) for o in objs],
            'stopped': (log[-1][0] if log else False)}


_REF_CACHE = {}


def run_scenario(sc):
    """runs reference (no conditions) and conditioned runs for every segment of the scenario;
    returns list of segment records {ref, n0, simTime, init (latches at segment start), fresh, res}"""
    segs = []
    for _ in scenario_steps(sc, segs):
        pass
    return segs


def run_interleaved(scs):
    """two or three scenarios whose models and condition objects are alive at the same time and whose solves
    alternate: A built, B built, A segment 1, B segment 1, A segment 2, B segment 2"""
    all_segs = [[] for _ in scs]
    gens = [scenario_steps(sc, segs) for sc, segs in zip(scs, all_segs)]
    alive = list(range(len(gens)))
    while alive:
        for i in list(alive):
            try:
                next(gens[i])
            except StopIteration:
                alive.remove(i)
    return all_segs


def permuted_script(script, phases, elements, phases2, elements2):
    """the same recorded quantities, columns re-ordered by NAME for a model that lists phases2 / elements2;
    a phase the first model did not have gets a series of its own"""
    rows = []
    for r in script['rows']:
        r2 = {}
        for q in QUANT:
            src, dst = (elements, elements2) if q == 'Composition' else (phases, phases2)
            r2[q] = [r[q][src.index(nm)] if nm in src else 0.37 * r[q][0] + 0.11 * r[q][-1] for nm in dst]
        rows.append(r2)
    return {'rows': rows, 'dt': list(script['dt'])}


def scenario_steps(sc, segs):
    """generator: yields after construction, after the first segment and at the end"""
    solver = solver_of(sc)
    ck = json.dumps([sc['stub'], sc['simTime'], sc.get('solver')], sort_keys=True) if sc['base'] == 'stub' else None
    if ck is not None and ck in _REF_CACHE:
        ref_rows = _REF_CACHE[ck]
    else:
        ref = mk_model(sc)
        e = quiet_solve(ref, sc['simTime'], solver)
        if e:
            segs.append({'ref_err': e})
            return
        ref_rows = rows_of(ref)
        if ck is not None:
            _REF_CACHE[ck] = ref_rows
    model = mk_model(sc)
    objs = [mk_cond(c) for c in sc['conds']]
    for c, o in zip(sc['conds'], objs):
        register_cond(model, o, c)
    model.c19_objs = objs          # the harness's own record of what it registered (no private attribute is read)
    init = [latch_of(o) for o in objs]
    yield 'built'
    err = quiet_solve(model, sc['simTime'], solver)
    segs.append({'ref': ref_rows, 'n0': 1, 'simTime': sc['simTime'], 'init': init, 'fresh': True,
                 'res': segment_result(model, objs, 1, err)})
    yield 'first'
    then = sc.get('then')
    if then and not err:
        if then['op'] == 'continue':
            n0 = model.pData.n + 1
            init = [latch_of(o) for o in objs]
            twin = copy.deepcopy(model)
            twin.clearStoppingConditions()
            twin.log = []
            twin.c19_objs = []
            e = quiet_solve(twin, then['simTime'], solver)
            if e:
                segs.append({'ref_err': e})
                return
            err = quiet_solve(model, then['simTime'], solver)
            segs.append({'ref': rows_of(twin), 'n0': n0, 'simTime': then['simTime'], 'init': init, 'fresh': False,
                         'res': segment_result(model, objs, n0, err)})
        elif then['op'] == 'reset':
            model.reset()
            after_reset = [latch_of(o) for o in objs]
            ref2 = mk_model(sc)
            ref2.reset()         # the reference of a run after reset() is a run after reset()
            e = quiet_solve(ref2, then['simTime'], solver)
            if e:
                segs.append({'ref_err': e})
                return
            err = quiet_solve(model, then['simTime'], solver)
            segs.append({'ref': rows_of(ref2), 'n0': 1, 'simTime': then['simTime'], 'init': after_reset, 'fresh': True,
                         'after_reset': after_reset, 'res': segment_result(model, objs, 1, err)})
        elif then['op'] == 'clear':
            # clearStoppingConditions() and a new set of conditions; after reset() or continuing the run
            if then.get('reset'):
                model.reset()
                n0 = 1
                twin = mk_model(sc)
                twin.reset()
            else:
                n0 = model.pData.n + 1
                twin = copy.deepcopy(model)
            twin.clearStoppingConditions()
            twin.log = []
            twin.c19_objs = []
            old_before = [latch_of(o) for o in objs]
            model.clearStoppingConditions()
            objs2 = [mk_cond(c) for c in then['conds']]
            for c, o in zip(then['conds'], objs2):
                register_cond(model, o, c)
            model.c19_objs = objs2
            init = [latch_of(o) for o in objs2]
            e = quiet_solve(twin, then['simTime'], solver)
            if e:
                segs.append({'ref_err': e})
                return
            err = quiet_solve(model, then['simTime'], solver)
            segs.append({'ref': rows_of(twin), 'n0': n0, 'simTime': then['simTime'], 'init': init, 'fresh': True,
                         'conds': then['conds'], 'old_latches': [latch_of(o) for o in objs],
                         'old_before': old_before, 'res': segment_result(model, objs2, n0, err)})
        elif then['op'] == 'reuse':
            # the SAME condition objects registered on a second model that lists the phases / elements in
            # another order (or has an additional phase listed first); the documented ways of re-using a
            # condition: model.reset() after registering, condition.reset(), or nothing (latches carried over)
            sc2 = dict(sc, phases=then['phases'], elements=then['elements'])
            if sc['base'] == 'scripted':
                sc2['script'] = then['script']
            else:
                sc2['stub'] = then['stub']
            sc2.pop('then', None)
            model2 = mk_model(sc2)
            twin = mk_model(sc2)
            for c, o in zip(sc['conds'], objs):
                register_cond(model2, o, c)
            model2.c19_objs = objs
            if then['how'] == 'model_reset':
                model2.reset()
                twin.reset()
            elif then['how'] == 'cond_reset':
                for o in objs:
                    o.reset()
            init = [latch_of(o) for o in objs]
            e = quiet_solve(twin, then['simTime'], solver)
            if e:
                segs.append({'ref_err': e})
                return
            err = quiet_solve(model2, then['simTime'], solver)
            segs.append({'ref': rows_of(twin), 'n0': 1, 'simTime': then['simTime'], 'init': init, 'fresh': then['how'] != 'none',
                         'after_reset': init if then['how'] != 'none' else None,
                         'phases': list(then['phases']), 'elements': list(then['elements']),
                         'res': segment_result(model2, objs, 1, err)})
    return


def run_seq(sc):
    """direct calls of testCondition on a growing history (first call at pData.n = 0)"""
    model = scripted_class()(sc['phases'], sc['elements'], sc['script'])
    model.setup()
    objs = [mk_cond(c) for c in sc['conds']]
    rows = sc['script']['rows']
    times = sc['times']
    out = []
    init = [latch_of(o) for o in objs]
    err = None
    for k in range(len(rows)):
        if k > 0:
            model._appendArrays(model._mk(k, times[k]))
        try:
            for o in objs:
                o.testCondition(model)
            out.append([latch_of(o) for o in objs])
        except Exception as e:
            err = type(e).__name__
            out.append(None)
            break
    ref = rows_of(model)
    full = []
    for k in range(len(rows)):
        r = {'t': times[k]}
        r.update({q: rows[k][q] for q in QUANT})
        full.append(r)
    return {'rows': full, 'init': init, 'out': out, 'err': err, 'seen': ref}


def run_ttp(sc):
    from kawin.precipitation.TimeTemperaturePrecipitation import TTPCalculator
    model = mk_model(sc)
    objs = [mk_cond(c) for c in sc['conds']]
    if sc.get('pre_or') is not None:
        register_cond(model, mk_cond(sc['pre_or']), sc['pre_or'])
    rec = {'calls': []}
    try:
        with contextlib.redirect_stdout(io.StringIO()), warnings.catch_warnings():
            warnings.simplefilter('ignore')
            calc = TTPCalculator(model, objs)
            for call in range(2 if sc.get('twice') else 1):
                init = [latch_of(o) for o in objs]
                calc.calculateTTP(sc['Tlow'], sc['Thigh'], sc['Tsteps'], sc['maxTime'])
                rec['calls'].append({'init': init, 'temps': [float(x) for x in calc.temperatures],
                                     'table': [[float(x) for x in row] for row in calc.transformationTimes],
                                     'last_rows': rows_of(model)})
        rec['err'] = None
    except Exception as e:
        rec['err'] = type(e).__name__ + ': ' + str(e)[:200]
    # references: a model without conditions for every temperature, same solver (TTP uses the default RK4),
    # reset() before the run exactly as _getStopTime does (on PrecipitateModel reset() also re-creates the
    # size-class grids with DEFAULT parameters - that concerns reset(), not the stopping conditions)
    temps = [float(x) for x in np.linspace(sc['Tlow'], sc['Thigh'], sc['Tsteps'])]
    rec['temps'] = temps
    rec['refs'] = []
    for T in temps:
        m = mk_model(sc)
        m.reset()
        m.setTemperature(T)
        try:
            with contextlib.redirect_stdout(io.StringIO()), warnings.catch_warnings():
                warnings.simplefilter('ignore')
                m.solve(sc['maxTime'])
            rec['refs'].append(rows_of(m))
        except Exception as e:
            rec['ref_err'] = type(e).__name__ + ': ' + str(e)[:200]
            break
    return rec


# ------------------------------------------------------------------------------------------
# Coq literals
def qx(x):
    """exact Coq literal of a binary64 value: hexadecimal mantissa and a power of two (Coq parses and
    type-checks this about three times faster than the decimal numerator/denominator form)"""
    x = float(x)
    if not math.isfinite(x):
        raise ValueError('non-finite value cannot be shipped to the model: %r' % x)
    if x == 0:
        return '(Qmake 0 1)'
    m, e = math.frexp(abs(x))
    m = int(m * 2 ** 53)
    e -= 53
    while m % 2 == 0:
        m //= 2
        e += 1
    sm = '(- 0x%x)' % m if x < 0 else '0x%x' % m
    if e >= 0:
        return '(Qmake (%s * 2 ^ %d) 1)' % (sm, e)
    return '(Qmake %s (2 ^ %d))' % (sm, -e)


def qxlist(xs):
    return '[' + '; '.join(qx(x) for x in xs) + ']'


def strlit(s):
    return '"%s"%%string' % s


def names_lit(phases, elements):
    return '(mkNames [%s] [%s])' % ('; '.join(strlit(p) for p in phases), '; '.join(strlit(e) for e in elements))


def row_lit(r):
    return '(R_ %s %s)' % (qx(r['t']), ' '.join(qxlist(r[q]) for q in QUANT))


def rows_lit(rows):
    return '[' + ';\n '.join(row_lit(r) for r in rows) + ']'


def cond_lit(c):
    sel = 'None' if c['sel'] is None else '(Some %s)' % strlit(c['sel'])
    return '(C_ %s %s %s %s)' % (c['q'], 'GreaterThan' if c['ineq'] == 'GT' else 'LesserThan', qx(c['value']), sel)


def latch_lit(l):
    return '(L_ %s %s)' % (boollit(l[0]), qx(l[1]))


def mode_lit(c):
    """the mode ARGUMENT as written by the caller; the model decides what it means"""
    return 'None' if c['mode'] == 'default' else '(Some %s)' % strlit(c['mode'])


def entries_lit(conds, latches):
    return '(registered [' + '; '.join('Reg_ %s %s %s' % (cond_lit(c), latch_lit(l), mode_lit(c))
                                        for c, l in zip(conds, latches)) + '])'


def rows_finite(rows):
    return all(np.isfinite(r['t']) and all(np.isfinite(x) for q in QUANT for x in r[q]) for r in rows)


# ------------------------------------------------------------------------------------------
# independent oracle (property text -> plain loops)
def sel_ok(c, phases, elements):
    if c['sel'] is None:
        return True
    return c['sel'] in (elements if c['q'] == 'Composition' else phases)


def value_of(c, row, phases, elements):
    if c['sel'] is None:
        p = 0
    else:
        p = (elements if c['q'] == 'Composition' else phases).index(c['sel'])
    return row[c['q']][p]


def pred(c, v):
    return v > c['value'] if c['ineq'] == 'GT' else v < c['value']


def time_close(a, b, scale):
    return abs(frac(a) - frac(b)) <= TOL * (frac(abs(scale)) + abs(frac(b)))


def expected_time(c, ref, n, phases, elements):
    """the property: within the step on which the quantity crossed the threshold, by linear
    interpolation; a quantity that satisfied the inequality already at the previous recorded step did
    not cross during this step - any time within the step is accepted by the `bounds`, the exact
    interpolant is demanded only for a genuine crossing"""
    tp, tc = ref[n - 1]['t'], ref[n]['t']
    xp, xc = value_of(c, ref[n - 1], phases, elements), value_of(c, ref[n], phases, elements)
    if pred(c, xp):
        return (tp, tc, None)
    v = frac(c['value'])
    tau = frac(tp) + (frac(tc) - frac(tp)) * (v - frac(xp)) / (frac(xc) - frac(xp))
    return (tp, tc, tau)


def oracle_segment(sc, seg):
    """returns list of (clause, cls, message)"""
    phases, elements = seg.get('phases', sc['phases']), seg.get('elements', sc['elements'])
    conds = seg.get('conds', sc['conds'])
    res = seg['res']
    ref = seg['ref']
    n0 = seg['n0']
    v = []
    if not all(sel_ok(c, phases, elements) for c in conds):
        return v                                 # a name that does not exist: nothing is promised
    if not all(c['mode'] in KNOWN_MODES for c in conds):
        return v                                 # a mode string other than 'or' / 'and': nothing is promised
    if seg.get('old_latches') is not None and seg['old_latches'] != seg['old_before']:
        v.append(('latched_stays', 'cleared condition touched', 'conditions removed by clearStoppingConditions() changed from %r to %r during the next run'
                  % (seg['old_before'], seg['old_latches'])))
    if res['err']:
        return [('no_internal_error', res['err'].split(':')[0], 'run with stopping conditions raised ' + res['err'])]
    tf = ref[n0 - 1]['t'] + seg['simTime']
    init = [(False, -1.0)] * len(conds) if seg.get('fresh') else seg['init']
    if seg.get('after_reset') is not None:
        for c, l in zip(conds, seg['after_reset']):
            if l != (False, -1.0):
                v.append(('ttp_reports_after_reset', 'reset leaves latch', 'after model.reset() a condition still reports %r' % (l,)))
    # first step (>= n0) at which each condition's inequality holds on the reference trajectory
    first = []
    for c, l in zip(conds, init):
        if l[0]:
            first.append(-1)
            continue
        k = next((n for n in range(n0, len(ref)) if pred(c, value_of(c, ref[n], phases, elements))), None)
        first.append(k)
    ors = [i for i, c in enumerate(conds) if is_or(c)]
    ands = [i for i, c in enumerate(conds) if not is_or(c)]

    def combined(n):
        met = [f is not None and f <= n for f in first]
        return any(met[i] for i in ors) or (len(ands) > 0 and all(met[i] for i in ands))
    n = n0 - 1
    stopped = False
    short = False
    while ref[n]['t'] < tf:
        if n + 1 >= len(ref):
            short = True
            break
        n += 1
        if combined(n):
            stopped = True
            break
    if short:
        return [('oracle', 'reference too short', 'reference run ended before the requested end time')]
    got = res['rows']
    # the run with conditions is the run without, cut at the stopping step
    if len(got) - 1 != n:
        if len(got) - 1 < n:
            v.append(('fires_at_first', 'stopped early', 'run ended after step %d at t=%r; conditions are first met at step %d (t=%r)%s'
                      % (len(got) - 1, got[-1]['t'], n, ref[n]['t'], '' if stopped else ' [never: end time %r]' % tf)))
        else:
            v.append(('fires_at_first', 'stopped late', 'run went on to step %d (t=%r); the conditions were met at step %d (t=%r)'
                      % (len(got) - 1, got[-1]['t'], n, ref[n]['t'])))
    m = min(len(got), len(ref))
    if got[:m] != ref[:m]:
        k = next(i for i in range(m) if got[i] != ref[i])
        v.append(('run_unperturbed', 'trajectory', 'recorded step %d differs between the runs with and without stopping conditions' % k))
    if bool(res['stopped']) != stopped and len(got) - 1 == n:
        v.append(('fires_at_first', 'flag', 'postProcess returned stop=%r at step %d, expected %r' % (res['stopped'], n, stopped)))
    if not stopped and not (got[-1]['t'] >= tf * (1 - 1e-12)) and len(got) - 1 == n:
        v.append(('fires_at_first', 'end time', 'no condition met but the run ended at %r < %r' % (got[-1]['t'], tf)))
    # latches never change once set
    last = list(init)
    for k, (flag, ls) in enumerate(res['log']):
        for i, l in enumerate(ls):
            if last[i][0] and l != last[i]:
                v.append(('latched_stays', 'latch changed', 'condition %d was satisfied with time %r and reports %r after step %d'
                          % (i, last[i], l, n0 + k)))
                break
            last[i] = l
    # reported flags and times
    nend = len(got) - 1
    for i, (c, l) in enumerate(zip(conds, res['latches'])):
        f = first[i]
        if f == -1:
            if l != init[i]:
                v.append(('latched_stays', 'latch changed', 'condition %d satisfied before the run reports %r instead of %r' % (i, l, init[i])))
            continue
        if f is None or f > nend:
            if l[0]:
                v.append(('reported_time', 'satisfied without being met', 'condition %d (%s %s %r) reports satisfied but its inequality never held up to step %d'
                          % (i, c['q'], c['ineq'], c['value'], nend)))
            elif l[1] != init[i][1]:
                v.append(('reported_time', 'unmet time changed', 'condition %d was never met but reports time %r' % (i, l[1])))
            continue
        if not l[0]:
            v.append(('latched_stays', 'met but not satisfied', 'condition %d (%s %s %r) held at step %d but is reported unsatisfied after step %d'
                      % (i, c['q'], c['ineq'], c['value'], f, nend)))
            continue
        tp, tc, tau = expected_time(c, ref, f, phases, elements)
        lo = frac(tp) - TOL * (abs(frac(tp)) + abs(frac(tc)))
        hi = frac(tc) + TOL * (abs(frac(tp)) + abs(frac(tc)))
        if not (np.isfinite(l[1]) and lo <= frac(l[1]) <= hi):
            cls = 'already met on previous step' if tau is None else 'outside step'
            v.append(('crossing_time_in_step', cls, 'condition %d (%s %s %r) first held at step %d (t %r -> %r, value %r -> %r) but reports time %r'
                      % (i, c['q'], c['ineq'], c['value'], f, tp, tc, value_of(c, ref[f - 1], phases, elements),
                         value_of(c, ref[f], phases, elements), l[1])))
        elif tau is not None and not time_close(l[1], tau, abs(tp) + abs(tc)):
            v.append(('crossing_time_in_step', 'not the linear interpolant', 'condition %d (%s %s %r) crossed on step %d (t %r -> %r, value %r -> %r): reported %r, linear interpolation gives %r'
                      % (i, c['q'], c['ineq'], c['value'], f, tp, tc, value_of(c, ref[f - 1], phases, elements),
                         value_of(c, ref[f], phases, elements), l[1], float(tau))))
    return v


def oracle_seq(sc, rec):
    """direct calls: the call at n = 0 reports the only recorded time; later calls as in a run"""
    hits = []
    ok_names = all(sel_ok(c, sc['phases'], sc['elements']) for c in sc['conds'])
    if not ok_names:
        return hits
    if rec['err'] is not None:
        return [('no_internal_error', rec['err'], 'testCondition raised ' + rec['err'])]
    for i, c in enumerate(sc['conds']):
        f = next((n for n in range(len(rec['rows'])) if pred(c, value_of(c, rec['rows'][n], sc['phases'], sc['elements']))), None)
        for k, o in enumerate(rec['out']):
            exp_sat = f is not None and f <= k
            if bool(o[i][0]) != exp_sat:
                hits.append(('latched_stays', 'direct call', 'condition %d after call %d: satisfied=%r, expected %r' % (i, k, o[i][0], exp_sat)))
                break
            if not exp_sat:
                if o[i][1] != -1.0:
                    hits.append(('reported_time', 'unmet time changed', 'condition %d not met after call %d but reports time %r' % (i, k, o[i][1])))
                    break
                continue
            if f == 0:
                ok = o[i][1] == rec['rows'][0]['t']
            else:
                tp, tc, tau = expected_time(c, rec['rows'], f, sc['phases'], sc['elements'])
                tol = TOL * (abs(frac(tp)) + abs(frac(tc)))
                ok = bool(np.isfinite(o[i][1])) and frac(tp) - tol <= frac(o[i][1]) <= frac(tc) + tol \
                    and (tau is None or time_close(o[i][1], tau, abs(tp) + abs(tc)))
            if not ok:
                hits.append(('crossing_time_in_step', 'direct call', 'condition %d first holds at row %d, reported time %r after call %d' % (i, f, o[i][1], k)))
                break
    return hits


def oracle_ttp(sc, rec):
    v = []
    if rec.get('ref_err'):
        return [('oracle', 'reference failed', rec['ref_err'])]
    if rec['err']:
        return [('no_internal_error', rec['err'].split(':')[0], 'TTPCalculator raised ' + rec['err'])]
    phases, elements = sc['phases'], sc['elements']
    conds = [dict(c, mode='and') for c in sc['conds']]
    for ci, call in enumerate(rec['calls']):
        if call['temps'] != rec['temps']:
            v.append(('ttp_reports_after_reset', 'temperatures', 'temperatures %r, expected %r' % (call['temps'], rec['temps'])))
            continue
        for ti, T in enumerate(rec['temps']):
            ref = rec['refs'][ti]
            # what a fresh model with fresh conditions must report at this temperature
            fake = {'err': None, 'rows': None, 'stopped': None, 'log': [], 'latches': None}
            tf = ref[0]['t'] + sc['maxTime']
            first = [next((n for n in range(1, len(ref)) if pred(c, value_of(c, ref[n], phases, elements))), None) for c in conds]
            n = 0
            while ref[n]['t'] < tf and n + 1 < len(ref):
                n += 1
                if len(conds) > 0 and all(f is not None and f <= n for f in first):
                    break
            for i, c in enumerate(conds):
                got = call['table'][ti][i]
                f = first[i]
                if f is None or f > n:
                    if got != -1.0:
                        v.append(('ttp_reports_after_reset', 'unmet not -1', 'call %d, T=%r: condition %d is never met in the run of this temperature but %r is reported'
                                  % (ci, T, i, got)))
                    continue
                tp, tc, tau = expected_time(c, ref, f, phases, elements)
                lo = frac(tp) - TOL * (abs(frac(tp)) + abs(frac(tc)))
                hi = frac(tc) + TOL * (abs(frac(tp)) + abs(frac(tc)))
                if not (np.isfinite(got) and lo <= frac(got) <= hi) or (tau is not None and not time_close(got, tau, abs(tp) + abs(tc))):
                    v.append(('ttp_reports_after_reset', 'time', 'call %d, T=%r: condition %d first holds on step %d (t %r -> %r) of a fresh run, reported %r%s'
                              % (ci, T, i, f, tp, tc, got, '' if tau is None else ', interpolation gives %r' % float(tau))))
            if ci == len(rec['calls']) - 1 and ti == len(rec['temps']) - 1:
                lr = call['last_rows']
                if len(lr) - 1 != n or lr != ref[:len(lr)]:
                    v.append(('ttp_reports_after_reset', 'run', 'the run of the last temperature recorded %d steps, a fresh run stops after %d' % (len(lr) - 1, n)))
    return v


# ------------------------------------------------------------------------------------------
# generators
def walk(rng, n, kind, scale):
    if kind == 'dyadic':
        x = np.cumsum(rng.integers(-2, 4, n)) / 8.0
        x = np.abs(x)
    else:
        x = np.abs(np.cumsum(rng.normal(0.15, 1.0, n))) * scale * rng.uniform(0.5, 1.5)
        if rng.random() < 0.3:
            x = np.sort(x)
    return [float(v) for v in x]


def gen_script(rng, phases, elements, kind):
    n = int(rng.integers(3, 22))
    rows = []
    cols = {}
    scales = {'VolFrac': 0.01, 'AvgRadius': 1e-9, 'DrivingForce': 1e8, 'NucRate': 1e18, 'Density': 1e21, 'Composition': 0.01}
    for q in QUANT:
        m = len(elements) if q == 'Composition' else len(phases)
        cols[q] = [walk(rng, n, kind, scales[q] if kind != 'dyadic' else 1.0) for _ in range(m)]
    for k in range(n):
        rows.append({q: [cols[q][p][k] for p in range(len(cols[q]))] for q in QUANT})
    if kind == 'dyadic':
        dt = [float(rng.choice([0.25, 0.5, 1.0, 2.0])) for _ in range(n)]
    else:
        dt = [float(10 ** rng.uniform(-2, 1)) for _ in range(n)]
    return {'rows': rows, 'dt': dt}


def gen_cond(rng, script, phases, elements, badname=False, dyadic=False):
    q = str(rng.choice(QUANT))
    pool = elements if q == 'Composition' else phases
    sel = None if rng.random() < 0.3 else str(rng.choice(pool))
    if badname:
        sel = 'NOPE'
    p = 0 if sel is None or badname else pool.index(sel)
    xs = [r[q][p] for r in script['rows']]
    how = rng.choice(['between', 'tie', 'never', 'initial'], p=[0.55, 0.2, 0.1, 0.15])
    ineq = str(rng.choice(['GT', 'LT']))
    k = int(rng.integers(1, len(xs)))
    if how == 'between':
        a, b = xs[k - 1], xs[k]
        u = float(rng.choice([0.25, 0.5, 0.75, 0.125])) if dyadic else float(rng.uniform(0.02, 0.98))
        value = a + u * (b - a) if a != b else a
    elif how == 'tie':
        value = xs[k]
    elif how == 'never':
        value = (max(xs) * 2 + 1) if ineq == 'GT' else (min(xs) - abs(min(xs)) - 1)
    else:
        value = (xs[0] - abs(xs[0]) * 0.5 - 0.125) if ineq == 'GT' else (xs[0] + abs(xs[0]) * 0.5 + 0.125)
    return dict({'q': q, 'ineq': ineq, 'value': float(value), 'sel': sel}, **gen_api(rng, sel))


def gen_api(rng, sel):
    """how the user writes the two API calls: mode 'or' / 'and' / omitted (rarely another string), positional
    or keyword; phase / element positional, keyword or (when None) omitted"""
    mode = str(rng.choice(['or', 'and', 'default', 'all', 'OR'], p=[0.33, 0.33, 0.3, 0.02, 0.02]))
    ctor = str(rng.choice(['kw', 'pos', 'omit'])) if sel is None else str(rng.choice(['kw', 'pos']))
    return {'mode': mode, 'call': str(rng.choice(['pos', 'kw'])), 'ctor': ctor}


def gen_scripted(rng, idx):
    kind = str(rng.choice(['dyadic', 'float'], p=[0.4, 0.6]))
    phases = ['B1', 'B2', 'B3'][:int(rng.integers(1, 4))]
    elements = ['B', 'C'][:int(rng.integers(1, 3))]
    script = gen_script(rng, phases, elements, kind)
    nc = int(rng.choice([0, 1, 2, 3, 4], p=[0.04, 0.36, 0.3, 0.2, 0.1]))
    bad = rng.random() < 0.04
    conds = [gen_cond(rng, script, phases, elements, badname=(bad and i == 0), dyadic=(kind == 'dyadic')) for i in range(nc)]
    mode_bias = rng.random()
    if mode_bias < 0.45:
        # all conditions registered the same way: all 'or', all 'and', all with the mode omitted
        m = 'or' if mode_bias < 0.15 else 'and' if mode_bias < 0.3 else 'default'
        for c in conds:
            c['mode'] = m
    n = len(script['rows'])
    total = sum(script['dt'][:n - 1])
    simTime = float(total * rng.choice([0.3, 0.6, 1.0, 1.0, 1.4])) if kind != 'dyadic' else float(sum(script['dt'][:int(rng.integers(1, n))]))
    sc = {'kind': 'run', 'base': 'scripted', 'phases': phases, 'elements': elements, 'script': script, 'conds': conds,
          'simTime': simTime, 'solver': str(rng.choice(['euler', 'rk4'], p=[0.8, 0.2])), 'flavour': kind}
    r = rng.random()
    if r < 0.25:
        sc['then'] = {'op': 'continue', 'simTime': float(simTime * rng.choice([0.5, 1.0, 2.0]))}
    elif r < 0.4:
        sc['then'] = {'op': 'reset', 'simTime': float(simTime * rng.choice([0.5, 1.0, 1.5]))}
    elif r < 0.55:
        # clearStoppingConditions() and a new set, mostly registered without a mode
        conds2 = [gen_cond(rng, script, phases, elements, dyadic=(kind == 'dyadic')) for _ in range(int(rng.integers(1, 4)))]
        if rng.random() < 0.6:
            for c in conds2:
                c['mode'] = 'default'
        sc['then'] = {'op': 'clear', 'reset': bool(rng.random() < 0.6), 'simTime': float(simTime * rng.choice([0.5, 1.0, 1.5])), 'conds': conds2}
    elif r < 0.75 and conds:
        sc['then'] = gen_reuse(rng, sc)
    return sc


def gen_reuse(rng, sc):
    """second model for the same condition objects: phases / elements permuted, possibly an additional phase
    listed first or a phase missing; same recorded quantities per NAME"""
    phases, elements = sc['phases'], sc['elements']
    how = str(rng.choice(['perm', 'extra_first', 'drop'], p=[0.5, 0.4, 0.1])) if len(phases) > 1 else 'extra_first'
    if how == 'perm':
        ph2 = [phases[i] for i in rng.permutation(len(phases))]
        if ph2 == phases:
            ph2 = phases[1:] + phases[:1]
    elif how == 'extra_first':
        ph2 = ['B4'] + [phases[i] for i in rng.permutation(len(phases))]
    else:
        ph2 = phases[1:]
    el2 = list(reversed(elements)) if rng.random() < 0.6 else list(elements)
    return {'op': 'reuse', 'how': str(rng.choice(['model_reset', 'cond_reset', 'none'], p=[0.45, 0.35, 0.2])),
            'phases': ph2, 'elements': el2, 'script': permuted_script(sc['script'], phases, elements, ph2, el2),
            'simTime': float(sc['simTime'] * rng.choice([0.5, 1.0, 1.5]))}


def gen_seq(rng, idx):
    kind = str(rng.choice(['dyadic', 'float']))
    phases = ['B1', 'B2'][:int(rng.integers(1, 3))]
    elements = ['B', 'C'][:int(rng.integers(1, 3))]
    script = gen_script(rng, phases, elements, kind)
    n = len(script['rows'])
    times = [0.0]
    for k in range(1, n):
        times.append(times[-1] + script['dt'][k - 1])
    conds = [gen_cond(rng, script, phases, elements, badname=(rng.random() < 0.03), dyadic=(kind == 'dyadic')) for _ in range(int(rng.integers(1, 4)))]
    return {'kind': 'seq', 'base': 'scripted', 'phases': phases, 'elements': elements, 'script': script, 'times': times, 'conds': conds}


def gen_ttp_scripted(rng, idx):
    kind = str(rng.choice(['dyadic', 'float']))
    phases = ['B1', 'B2'][:int(rng.integers(1, 3))]
    elements = ['B']
    Tsteps = int(rng.integers(1, 5))
    Tlow = float(rng.integers(500, 700))
    Thigh = Tlow + float(rng.integers(1, 200)) if Tsteps > 1 else Tlow
    temps = [float(x) for x in np.linspace(Tlow, Thigh, Tsteps)]
    byT = {repr(T): gen_script(rng, phases, elements, kind) for T in temps}
    # conditions drawn from one temperature's script so that they are met at some temperatures only
    src = byT[repr(temps[int(rng.integers(0, len(temps)))])]
    conds = [gen_cond(rng, src, phases, elements, dyadic=(kind == 'dyadic')) for _ in range(int(rng.integers(1, 4)))]
    total = min(sum(s['dt'][:len(s['rows']) - 1]) for s in byT.values())
    sc = {'kind': 'ttp', 'base': 'scripted', 'phases': phases, 'elements': elements, 'script': {'byT': byT}, 'conds': conds,
          'Tlow': Tlow, 'Thigh': Thigh, 'Tsteps': Tsteps, 'maxTime': float(total * rng.choice([0.6, 1.0])),
          'twice': bool(rng.random() < 0.5), 'flavour': kind}
    if rng.random() < 0.3:
        sc['pre_or'] = gen_cond(rng, src, phases, elements)
    return sc


def stub_conds(rng, ref, phases, nconds):
    """thresholds taken from the reference trajectory: met early / late / never / from the start"""
    conds = []
    for _ in range(nconds):
        q = str(rng.choice(QUANT))
        sel = None if (q == 'Composition' and rng.random() < 0.5) or rng.random() < 0.2 else ('B' if q == 'Composition' else str(rng.choice(phases)))
        p = 0 if sel is None or q == 'Composition' else phases.index(sel)
        xs = [r[q][p] for r in ref]
        how = rng.choice(['early', 'late', 'never', 'initial'], p=[0.35, 0.4, 0.15, 0.1])
        n = len(xs)
        k = int(rng.integers(1, max(2, n // 4))) if how == 'early' else int(rng.integers(max(1, n // 2), n))
        inc = xs[k] >= xs[k - 1]
        ineq = 'GT' if inc else 'LT'
        value = xs[k - 1] + float(rng.uniform(0.05, 0.95)) * (xs[k] - xs[k - 1])
        if how == 'never':
            ineq = str(rng.choice(['GT', 'LT']))
            value = max(xs) * 1.5 + 1e-30 if ineq == 'GT' else min(xs) * 0.5 - 1e-30
        if how == 'initial':
            ineq = str(rng.choice(['GT', 'LT']))
            value = xs[0] * 0.5 - 1e-30 if ineq == 'GT' else xs[0] * 1.5 + 1e-30
        conds.append(dict({'q': q, 'ineq': ineq, 'value': float(value), 'sel': sel}, **gen_api(rng, sel)))
    if len(conds) > 1 and rng.random() < 0.35:
        for c in conds:
            c['mode'] = 'default'
    return conds


STUB_CFGS = [
    {'phases': ['B1'], 'T': 700.0, 'x0': 2e-2, 'gamma': 0.15, 'simTime': 4.0, 'solver': 'euler'},
    {'phases': ['B1', 'B3'], 'T': 690.0, 'x0': 2e-2, 'gamma': 0.14, 'simTime': 3.0, 'solver': 'euler'},
    {'phases': ['B1'], 'T': 720.0, 'x0': 2.5e-2, 'gamma': 0.13, 'simTime': 0.4, 'solver': 'rk4'},
]


def corpus_cases():
    out = []
    p = os.path.join(VERIF, 'corpus', 'C19')
    if os.path.isdir(p):
        for f in sorted(os.listdir(p)):
            if f.endswith('.json'):
                c = dec(json.load(open(os.path.join(p, f))))
                c = c.get('input', c)
                c['origin'] = 'corpus:' + f
                out.append(c)
    return out


# ------------------------------------------------------------------------------------------
# model evaluation + comparison
def model_terms_run(sc, segs):
    """one Coq term per comparable segment"""
    terms, idx = [], []
    for si, seg in enumerate(segs):
        if 'ref_err' in seg or not rows_finite(seg['ref']) or not all(np.isfinite(l[1]) for l in seg['init']):
            continue
        # rows beyond what the implementation recorded are only needed if the model wants to go on -
        # then it runs out of rows (dummy rows at time 0, fuel exhausted), which is reported
        keep = len(seg['res']['rows']) + 2
        # binary64 rounding is not modelled: the model adds t0 + simTime exactly, the implementation rounds
        # finalTime = t0 + simTime (GenericModel.setTimeInfo, one binary64 addition).  The simulation time
        # handed to the model is the exact rational that reproduces the correctly rounded end time
        # (identical to simTime whenever the addition is exact, e.g. always for t0 = 0).
        t0 = seg['ref'][seg['n0'] - 1]['t']
        tf = t0 + seg['simTime']
        terms.append('run_case %s %s %s %s %s' % (names_lit(seg.get('phases', sc['phases']), seg.get('elements', sc['elements'])), rows_lit(seg['ref'][:keep]), natlit(seg['n0']),
                                                  qlit(frac(tf) - frac(t0)), entries_lit(seg.get('conds', sc['conds']), seg['init'])))
        idx.append(si)
    return terms, idx


def compare_run(sc, seg, mod):
    """model outcome (code, rows, stopped, [(sat, time)]) vs implementation"""
    code, nrows, stopped, lat = mod
    res = seg['res']
    dis = []
    if code == 2:
        return ['model ran out of recorded rows (implementation recorded %d)' % len(res['rows'])]
    if code == 1:
        if not res['err']:
            dis.append('model: exception while testing conditions; implementation finished')
        elif not (res['err'].startswith('IndexError') or res['err'].startswith('ValueError')):
            dis.append('implementation raised %s; model: selection cannot be resolved' % res['err'])
        return dis
    if res['err']:
        return ['implementation raised %s; model finished with %d rows' % (res['err'], nrows)]
    if nrows != len(res['rows']):
        dis.append('rows recorded: implementation %d, model %d' % (len(res['rows']), nrows))
    if bool(stopped) != bool(res['stopped']):
        dis.append('stop flag: implementation %r, model %r' % (res['stopped'], stopped))
    tl = abs(seg['ref'][-1]['t'])
    for i, ((ms, mt), (isat, it)) in enumerate(zip(lat, res['latches'])):
        mt = tofrac(mt)
        if bool(ms) != bool(isat):
            dis.append('condition %d satisfied: implementation %r, model %r' % (i, isat, ms))
        elif not np.isfinite(it) or not time_close(it, mt, tl):
            dis.append('condition %d time: implementation %r, model %r' % (i, it, float(mt)))
    return dis


def nontrivial_run(sc, segs):
    """some condition goes from unmet to met on a genuine crossing during the run"""
    for seg in segs:
        if 'res' not in seg or seg['res']['err']:
            continue
        for c, l0, l1 in zip(seg.get('conds', sc['conds']), seg['init'], seg['res']['latches']):
            if not l0[0] and l1[0] and l1[1] > seg['ref'][seg['n0'] - 1]['t']:
                return True
    return False


def key_of(sc):
    return enc({k: sc[k] for k in sc if k not in ('origin',)})


def explore_runs(ctx, scenarios, label):
    t_start = time.time()
    hits, dis_all = [], []
    allterms, where = [], []
    results = []
    for sc in scenarios:
        segs = run_scenario(sc)
        results.append(segs)
        terms, idx = model_terms_run(sc, segs)
        for t, si in zip(terms, idx):
            allterms.append(t)
            where.append((len(results) - 1, si))
    t_impl = time.time()
    mods = ctx.coq_eval('run_' + label, HEADER, allterms, shard=(2 if label == 'stub' else None)) if allterms else []
    ctx.notes.setdefault('timing_s', {})['run_' + label] = {'impl': round(t_impl - t_start, 1), 'coq': round(time.time() - t_impl, 1)}
    for (ri, si), mod in zip(where, mods):
        for d in compare_run(scenarios[ri], results[ri][si], mod):
            dis_all.append((scenarios[ri], 'segment %d: %s' % (si, d)))
    for sc, segs in zip(scenarios, results):
        ctx.count(key_of(sc), nontrivial_run(sc, segs))
        ctx.cov['traces_validated_against_impl'] += sum(1 for s in segs if 'res' in s)
        ctx.hist('kind', sc['base'] + ':' + sc.get('flavour', sc.get('solver', '')))
        ctx.hist('conditions', len(sc['conds']))
        ctx.hist('then', (sc.get('then') or {}).get('op', 'none'))
        for c in sc['conds']:
            ctx.hist('quantity', c['q'])
            ctx.hist('inequality', c['ineq'])
            ctx.hist('mode', c['mode'])
            ctx.hist('api', 'mode %s / %s, selection %s' % ('omitted' if c['mode'] == 'default' else 'given', c.get('call', 'pos'), c.get('ctor', 'kw')))
        if 'res' in segs[0] and (label != 'scripted' or nontrivial_run(sc, segs)):
            r0 = segs[0]['res']
            ctx.sample({'kind': sc['base'] + ' run', 'phases': sc['phases'], 'conditions': sc['conds'], 'simTime': sc['simTime'], 'then': sc.get('then'),
                        'reference_steps': len(segs[0]['ref']) - 1,
                        'monitored_first_condition': [value_of(sc['conds'][0], r_, sc['phases'], sc['elements']) for r_ in segs[0]['ref'][:8]]
                        if sc['conds'] and sel_ok(sc['conds'][0], sc['phases'], sc['elements']) else None,
                        'times': [r_['t'] for r_ in segs[0]['ref'][:8]],
                        'implementation': {'steps_recorded': len(r0['rows']) - 1, 'stopped': r0['stopped'], 'latches': r0['latches'], 'error': r0['err']}}, limit=(6 if label == 'stub' else 4))
        for seg in segs:
            if 'ref_err' in seg:
                hits.append((sc, 'oracle', 'reference failed', 'run without conditions raised ' + seg['ref_err']))
                continue
            r = seg['res']
            ctx.hist('outcome', 'raised' if r['err'] else 'stopped' if r['stopped'] else 'end time')
            for (clause, cls, msg) in oracle_segment(sc, seg):
                hits.append((sc, clause, cls, msg))
    return dis_all, hits


def explore_pairs(ctx, groups, label=''):
    """models and condition objects of two scenarios alive together, solves interleaved: each must behave exactly
    as it does alone (bitwise: recorded rows, stop flags, latch history, errors)"""
    hits = []
    for scs in groups:
        alone = [run_scenario(sc) for sc in scs]
        both = run_interleaved(scs)
        for sc, sa, sb in zip(scs, alone, both):
            if ctx is not None:
                ctx.count(['pair', key_of(sc)], nontrivial_run(sc, sb))
                ctx.hist('kind', 'interleaved:' + sc['base'])
            same = len(sa) == len(sb) and all(('res' in x) == ('res' in y) and ('res' not in x or
                    (x['res']['rows'] == y['res']['rows'] and x['res']['log'] == y['res']['log'] and x['res']['latches'] == y['res']['latches']
                     and (x['res']['err'] is None) == (y['res']['err'] is None))) for x, y in zip(sa, sb))
            if not same:
                k = next((i for i, (x, y) in enumerate(zip(sa, sb)) if 'res' in x and 'res' in y and
                          (x['res']['latches'] != y['res']['latches'] or x['res']['rows'] != y['res']['rows'] or x['res']['log'] != y['res']['log'])), 0)
                hits.append((dict(sc, partner=[s_ for s_ in scs if s_ is not sc][0]), 'run_unperturbed', 'interleaved models',
                             'a model run interleaved with another model differs from the same model run alone (segment %d: latches %r vs %r, steps %d vs %d)'
                             % (k, sb[k]['res']['latches'] if 'res' in sb[k] else None, sa[k]['res']['latches'] if 'res' in sa[k] else None,
                                len(sb[k]['res']['rows']) - 1 if 'res' in sb[k] else -1, len(sa[k]['res']['rows']) - 1 if 'res' in sa[k] else -1)))
            for seg in sb:
                if 'res' in seg:
                    for (clause, cls, msg) in oracle_segment(sc, seg):
                        hits.append((sc, clause, cls, msg))
    return [], hits


def explore_seq(ctx, scenarios, label):
    dis_all, hits = [], []
    recs = [run_seq(sc) for sc in scenarios]
    terms = []
    for sc, rec in zip(scenarios, recs):
        ks = list(range(1, len(rec['rows']) + 1))
        terms.append('seq_case %s %s [%s] %s' % (names_lit(sc['phases'], sc['elements']), rows_lit(rec['rows']),
                                                '; '.join(natlit(k) for k in ks), entries_lit([dict(c, mode='or') for c in sc['conds']], rec['init'])))
    mods = ctx.coq_eval('seq_' + label, HEADER, terms) if terms else []
    for sc, rec, mod in zip(scenarios, recs, mods):
        ctx.count(key_of(sc), any(o and any(l[0] for l in o) for o in rec['out']))
        ctx.hist('kind', 'seq')
        if rec['seen'][:len(rec['out'])] != rec['rows'][:len(rec['out'])] and rec['err'] is None:
            dis_all.append((sc, 'scripted history was not recorded as pushed'))
            continue
        for k, (io_, mo) in enumerate(zip(rec['out'], mod)):
            if (io_ is None) != (mo is None):
                dis_all.append((sc, 'call %d: implementation %s, model %s' % (k, 'raised ' + str(rec['err']) if io_ is None else 'returned', 'raised' if mo is None else 'returned')))
                break
            if io_ is None:
                break
            mlat = mo[1][0]
            for i, (il, ml) in enumerate(zip(io_, mlat)):
                mt = tofrac(ml[1])
                if bool(il[0]) != bool(ml[0]) or not np.isfinite(il[1]) or not time_close(il[1], mt, abs(rec['rows'][k]['t'])):
                    dis_all.append((sc, 'call %d condition %d: implementation %r, model (%r, %r)' % (k, i, il, ml[0], float(mt))))
        for (clause, cls, msg) in oracle_seq(sc, rec):
            hits.append((sc, clause, cls, msg))
    return dis_all, hits


def ttp_keep(sc, rec):
    """how many reference rows per temperature are shipped: up to the step at which a fresh run stops
    (all conditions met, or end time) plus two"""
    out = []
    conds = sc['conds']
    for ref in rec['refs']:
        tf = ref[0]['t'] + sc['maxTime']
        if all(sel_ok(c, sc['phases'], sc['elements']) for c in conds):
            first = [next((n for n in range(1, len(ref)) if pred(c, value_of(c, ref[n], sc['phases'], sc['elements']))), None) for c in conds]
        else:
            first = [None] * len(conds)
        n = 0
        while ref[n]['t'] < tf and n + 1 < len(ref):
            n += 1
            if len(conds) > 0 and all(f is not None and f <= n for f in first):
                break
        out.append(n + 3)
    return out


def explore_ttp(ctx, scenarios, label):
    dis_all, hits = [], []
    recs = [run_ttp(sc) for sc in scenarios]
    terms, where = [], []
    for si, (sc, rec) in enumerate(zip(scenarios, recs)):
        if rec.get('ref_err') or rec['err'] or not all(rows_finite(r) for r in rec['refs']):
            continue
        keeps = ttp_keep(sc, rec)
        tb = '[' + '; '.join('(%s, %s)' % (qx(T), rows_lit(r[:k])) for T, r, k in zip(rec['temps'], rec['refs'], keeps)) + ']'
        for ci, call in enumerate(rec['calls']):
            if not all(np.isfinite(l[1]) for l in call['init']):
                continue
            cs = '[' + '; '.join('(%s, %s)' % (cond_lit(c), latch_lit(l)) for c, l in zip(sc['conds'], call['init'])) + ']'
            pre = entries_lit([sc['pre_or']], [(False, -1.0)]) if sc.get('pre_or') is not None else '[]'
            terms.append('ttp_case %s %s %s %s %s %s' % (names_lit(sc['phases'], sc['elements']), tb, qx(sc['maxTime']), pre, cs, qxlist(call['temps'])))
            where.append((si, ci))
    t_impl = time.time()
    mods = ctx.coq_eval('ttp_' + label, HEADER, terms, shard=(1 if label == 'stub' else None)) if terms else []
    ctx.notes.setdefault('timing_s', {})['ttp_' + label] = {'coq': round(time.time() - t_impl, 1)}
    for (si, ci), mod in zip(where, mods):
        sc, rec = scenarios[si], recs[si]
        call = rec['calls'][ci]
        if mod is None:
            dis_all.append((sc, 'call %d: model raised / ran out of rows, implementation returned a table' % ci))
            continue
        table = mod[1]
        for ti, (mrow, irow) in enumerate(zip(table, call['table'])):
            for i, (ma, iv) in enumerate(zip(mrow, irow)):
                mt = tofrac(ma)
                if not np.isfinite(iv) or not time_close(iv, mt, abs(sc['maxTime'])):
                    dis_all.append((sc, 'call %d T=%r condition %d: implementation %r, model %r' % (ci, rec['temps'][ti], i, iv, float(mt))))
    for sc, rec in zip(scenarios, recs):
        nt = (not rec['err']) and any(x != -1.0 for call in rec['calls'] for row in call['table'] for x in row)
        ctx.count(key_of(sc), nt)
        ctx.cov['traces_validated_against_impl'] += len(rec.get('refs', []))
        ctx.hist('kind', 'ttp:' + sc['base'])
        if nt:
            ctx.sample({'kind': 'ttp ' + sc['base'], 'conditions': sc['conds'], 'temperatures': rec.get('temps'), 'maxTime': sc['maxTime'],
                        'tables': [c_['table'] for c_ in rec['calls']]}, limit=8)
        for (clause, cls, msg) in oracle_ttp(sc, rec):
            hits.append((sc, clause, cls, msg))
    return dis_all, hits


# ------------------------------------------------------------------------------------------
def check_one(sc):
    """oracle only, for shrinking and replay"""
    if sc['kind'] == 'run' and sc.get('partner') is not None:
        me = {k: v for k, v in sc.items() if k != 'partner'}
        return [h[1:] for h in explore_pairs(None, [[me, sc['partner']]])[1]]
    if sc['kind'] == 'run':
        out = []
        for seg in run_scenario(sc):
            if 'ref_err' in seg:
                out.append(('oracle', 'reference failed', seg['ref_err']))
            else:
                out += oracle_segment(sc, seg)
        return out
    if sc['kind'] == 'ttp':
        return oracle_ttp(sc, run_ttp(sc))

    return oracle_seq(sc, run_seq(sc))


def shrink(sc, clause, cls):
    """drop conditions / trailing script rows / the second segment while the same violation remains"""
    def bad(s):
        try:
            return any(h[0] == clause and h[1] == cls for h in check_one(s))
        except Exception:
            return False
    cur = sc
    if sc['kind'] != 'run' or sc['base'] != 'scripted':
        return cur
    changed = True
    while changed:
        changed = False
        if cur.get('then') and bad({k: v for k, v in cur.items() if k != 'then'}):
            cur = {k: v for k, v in cur.items() if k != 'then'}
            changed = True
        for i in range(len(cur['conds'])):
            d = dict(cur, conds=cur['conds'][:i] + cur['conds'][i + 1:])
            if bad(d):
                cur, changed = d, True
                break
        n = len(cur['script']['rows'])
        if n > 2:
            d = dict(cur, script={'rows': cur['script']['rows'][:-1], 'dt': cur['script']['dt'][:max(1, n - 1)]})
            if bad(d):
                cur, changed = d, True
        if len(cur['phases']) > 1 and all(c['sel'] in (None, cur['phases'][0]) or c['q'] == 'Composition' for c in cur['conds']):
            d = dict(cur, phases=cur['phases'][:1],
                     script={'dt': cur['script']['dt'], 'rows': [{q: (r[q] if q == 'Composition' else r[q][:1]) for q in QUANT} for r in cur['script']['rows']]})
            if bad(d):
                cur, changed = d, True
    return cur


def site_of(clause):
    return {'fires_at_first': 'KWNBase.postProcess/DESolver.solve', 'ttp_reports_after_reset': 'TTPCalculator/KWNBase.reset',
            'run_unperturbed': 'KWNBase.postProcess'}.get(clause, 'StoppingConditions.testCondition')


def report_hits(ctx, hits):
    seen = set()
    for (sc, clause, cls, msg) in hits:
        if (clause, cls) in seen:
            continue
        seen.add((clause, cls))
        small = sc if str(sc.get('origin', '')).startswith('corpus:') else shrink(sc, clause, cls)
        msgs = [h[2] for h in check_one(small) if h[0] == clause and h[1] == cls] if small is not sc else [msg]
        ctx.violation(clause, {'site': site_of(clause), 'cls': cls},
                      {'kind': 'history', 'input': enc({k: v for k, v in small.items()}), 'observed': msgs[0] if msgs else msg,
                       'oracle': 'independent recomputation from the property text on the run without stopping conditions (harness/c19.py: oracle_segment / oracle_ttp)'},
                      msgs[0] if msgs else msg)


def run(ctx):
    quick = ctx.quick
    rng = ctx.rng
    ctx.cov['rule'] = ('scenarios: scripted histories (1-3 phases, 1-2 elements, 3-21 recorded steps, dyadic or float values, random walks; 0-4 conditions of the six '
                       'classes, both inequalities, thresholds between two recorded values / exactly on one / never met / met by the initial state, or-and mixes, '
                       'unknown names, Euler or RK4, optionally a continued solve or reset + solve), direct testCondition call sequences (incl. the call at n = 0), '
                       'stub-backend PrecipitateModel runs (1-2 phases, Euler/RK4) with thresholds taken from the reference run, TTPCalculator (scripted per-temperature '
                       'histories, optionally called twice / with a stale or-condition on the model; stub backend on 3 temperatures). Non-trivial: a condition goes '
                       'from unmet to met at a step after the start (run), a latch is set (direct calls), a finite time is reported (TTP); distinct by hash of the exact scenario')
    axioms, failed = ctx.prove(['C19/Properties.v'])
    dis, hits = [], []
    # corpus first
    corp = corpus_cases()
    for kind, fn in (('run', explore_runs), ('seq', explore_seq), ('ttp', explore_ttp)):
        cs = [c for c in corp if c['kind'] == kind]
        if cs:
            d, h = fn(ctx, cs, 'corpus')
            dis += d
            hits += h
    n_run, n_seq, n_ttp, n_stubc = (160, 40, 24, 5) if quick else (3000, 600, 400, 40)
    d, h = explore_runs(ctx, [gen_scripted(rng, i) for i in range(n_run)], 'scripted')
    dis += d
    hits += h
    d, h = explore_pairs(ctx, [[gen_scripted(rng, i) for i in range(2)] for _ in range(16 if quick else 200)] +
                         [[gen_scripted(rng, i) for i in range(3)] for _ in range(4 if quick else 40)], 'scripted')
    hits += h
    d, h = explore_seq(ctx, [gen_seq(rng, i) for i in range(n_seq)], 'main')
    dis += d
    hits += h
    d, h = explore_ttp(ctx, [gen_ttp_scripted(rng, i) for i in range(n_ttp)], 'scripted')
    dis += d
    hits += h
    # real PrecipitateModel with the stub backend
    stub_sc = []
    for cfg in (STUB_CFGS if quick else STUB_CFGS + [dict(STUB_CFGS[0], T=660.0), dict(STUB_CFGS[1], T=710.0, x0=3e-2)]):
        base = {'kind': 'run', 'base': 'stub', 'stub': cfg, 'phases': cfg['phases'], 'elements': ['B'], 'simTime': cfg['simTime'], 'solver': cfg['solver']}
        refm = mk_stub_model(cfg)
        e = quiet_solve(refm, cfg['simTime'], solver_of(base))
        if e:
            hits.append((dict(base, conds=[]), 'oracle', 'reference failed', e))
            continue
        ref = rows_of(refm)
        for j in range(n_stubc if cfg['solver'] == 'euler' else max(2, n_stubc // 2)):
            sc = dict(base, conds=stub_conds(rng, ref, cfg['phases'], int(rng.integers(1, 4))))
            if j == 0:
                sc['then'] = {'op': 'continue', 'simTime': cfg['simTime'] * 0.25}
            if j == 1:
                sc['then'] = {'op': 'reset', 'simTime': cfg['simTime'] * 0.5}
            if j == 2:
                # reset(), clearStoppingConditions(), then a new set registered without a mode
                c2 = stub_conds(rng, ref, cfg['phases'], 2)
                for c in c2:
                    c['mode'] = 'default'
                sc['then'] = {'op': 'clear', 'reset': True, 'simTime': cfg['simTime'], 'conds': c2}
            if j == 3 or (j == 1 and cfg['solver'] != 'euler'):
                # the same condition objects on a second model with the phases in another order / one more phase first
                ph2 = list(reversed(cfg['phases'])) if len(cfg['phases']) > 1 else ['B3'] + cfg['phases']
                named = []
                for _ in range(40):
                    named += [c for c in stub_conds(rng, ref, cfg['phases'], 3) if c['q'] != 'Composition' and c['sel'] == cfg['phases'][-1]]
                    if len(named) >= 2:
                        break
                sc['conds'] = named[:2]
                sc['then'] = {'op': 'reuse', 'how': ('model_reset' if len(cfg['phases']) > 1 else 'cond_reset'), 'phases': ph2, 'elements': ['B'],
                              'stub': dict(cfg, phases=ph2), 'simTime': cfg['simTime']}
            stub_sc.append(sc)
    d, h = explore_runs(ctx, stub_sc, 'stub')
    dis += d
    hits += h
    two = [sc for sc in stub_sc if sc.get('then', {}).get('op') == 'continue'][:2]
    if len(two) == 2:
        d, h = explore_pairs(ctx, [two], 'stub')
        hits += h
    # TTPCalculator on the real model, three temperatures
    ttp_stub = [{'kind': 'ttp', 'base': 'stub', 'stub': STUB_CFGS[0], 'phases': ['B1'], 'elements': ['B'],
                 'conds': [{'q': 'VolFrac', 'ineq': 'GT', 'value': 1e-4, 'sel': None, 'mode': 'and'},
                           {'q': 'VolFrac', 'ineq': 'GT', 'value': 1e-2, 'sel': 'B1', 'mode': 'and'},
                           {'q': 'AvgRadius', 'ineq': 'GT', 'value': 3e-9, 'sel': 'B1', 'mode': 'and'},
                           {'q': 'Composition', 'ineq': 'LT', 'value': 0.0199, 'sel': 'B', 'mode': 'and'}],
                 'Tlow': 650.0, 'Thigh': 750.0, 'Tsteps': 3, 'maxTime': 1.0 if quick else 3.0, 'twice': not quick}]
    d, h = explore_ttp(ctx, ttp_stub, 'stub')
    dis += d
    hits += h

    report_hits(ctx, hits)
    if dis and not hits:
        # the implementation no longer behaves like the model the theorems are about: search harder
        more = [gen_scripted(rng, i) for i in range(1500)]
        hits2 = []
        for sc in more:
            for h_ in check_one(sc):
                hits2.append((sc, *h_))
        more_t = [gen_ttp_scripted(rng, i) for i in range(200)]
        for sc in more_t:
            for h_ in check_one(sc):
                hits2.append((sc, *h_))
        ctx.cov['evaluations'] += len(more) + len(more_t)
        if hits2:
            report_hits(ctx, hits2)
        else:
            sc, dtext = dis[0]
            ctx.violation('correspondence', {'site': SITE, 'cls': dtext.split(':')[0]},
                          {'broken': {'correspondence': 'coq/C19/Model.v vs kawin stopping machinery', 'first_disagreement': dtext},
                           'input': enc(sc), 'disagreements': len(dis)},
                          'model and implementation disagree (%d), e.g. %s' % (len(dis), dtext), no_input=True)
    for t in failed:
        ctx.violation(t, {'site': 'coq/C19/Properties.v', 'cls': 'proof'},
                      {'broken': {'theorem': t, 'file': 'coq/C19/Properties.v'}},
                      'theorem %s no longer checks' % t, no_input=True)
    ctx.notes['disagreements'] = len(dis)
    ctx.notes['disagreement_examples'] = [d_[1] for d_ in dis[:5]]
    ctx.notes['oracle_hits'] = len(hits)
    ctx.notes['indeterminate_near_tie'] = 0
    ctx.assumptions += [
        'the physics (dependent terms, size distribution, step size) is an uninterpreted function of the recorded history in the model; the theorems hold for every such function',
        'selections are resolvable (phase / element exists and every recorded row has that column): hypotheses hist_ok / next_ok; an unknown name raises in the implementation and is Raised in the model (compared, not part of the property)',
        'exact end time t = tf of an unstopped run is the solver clock (C05); here only tf <= t_end is proved',
        'reported times are compared with relative tolerance 2^-36 of |t_prev| + |t_cur| (binary64 rounding of the interpolation formula is not modelled); flags, stop step and stop flag are compared exactly (they depend on comparisons of recorded doubles only: no near-tie cases)',
        'the end time of a continued solve, finalTime = t + simTime, is one binary64 addition in the implementation and exact in the model: the model is handed the exact rational simTime that reproduces the correctly rounded end time',
        'multiprocessing pools in calculateTTP are not exercised (serial map only)']
    ctx.cov['trusted_base'] += ['Coq 8.16.1 kernel and vm_compute', 'hand-written model coq/C19/Model.v + correspondence harness harness/c19.py (scripted PrecipitateBase subclass, stub thermodynamics backend)',
                                'float -> Q transport (float.as_integer_ratio) and output parser in harness/common.py']
    # a few samples
    for sc in (corp[:2]):
        ctx.sample({'origin': sc.get('origin'), 'conds': sc['conds'], 'simTime': sc.get('simTime')})


def replay(ctx, obj):
    sc = dec(obj['input'])
    hits = check_one(sc)
    for h in hits:
        print('replay:', h)
    print('replay: %d oracle violations on this input' % len(hits))
    return 1 if hits else 0
