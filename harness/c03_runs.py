"""C03 - run machinery: closed-form backends (binary from stubs.py, ternary here), the fault wrapper
passed to setThermodynamics, the configuration -> run function and the independent well-formedness
oracle written from the property text.  Everything goes through kawin's public extension points
(setThermodynamics, addCouplingModel, solverType argument, public attributes)."""
import io, contextlib, traceback, math
import numpy as np
import stubs

R = 8.314


# ------------------------------------------------------------------------------------------
# ternary closed-form backend (ideal dilute A-B-C, stoichiometric precipitates).  The growth law and
# the interfacial compositions are computed by kawin's own _growthRateOutputFromCurvature from a
# closed-form CurvatureOutput, so that what the precipitation model receives has exactly the shapes
# and types the real MulticomponentThermodynamics returns.
class StubTernary:
    numElements = 3
    elements = ['A', 'B', 'C', 'VA']
    # phase -> (xB_beta, xC_beta, H, S):  solubility product  (xB/xeB)^b (xC/xeC)^c with xe = exp(-H/RT + S)
    P = {'T1': (0.20, 0.05, 60000., 2.0), 'T2': (0.10, 0.15, 56000., 1.5), 'T3': (0.25, 0.02, 65000., 2.6)}

    def __init__(self, phases=('T1',), D0=(1e-5, 2e-5), Q=150000.):
        self.phases = ['ALPHA'] + list(phases)
        self.D0, self.Q = np.array(D0), Q
        self._last_beta = {p: None for p in phases}

    def _xe(self, T, ph):
        xb, xc, H, S = self.P[ph]
        e = math.exp(-H / (R * T) + S)
        # equilibrium matrix composition on the tie line through the alloy is taken as (e*xb/(xb+xc), e*xc/(xb+xc))
        return np.array([e * xb / (xb + xc), e * xc / (xb + xc)])

    def getDrivingForce(self, x, T, precPhase=None, removeCache=False, **k):
        x = np.atleast_2d(x)
        T = float(np.atleast_1d(T)[0])
        xb = np.array(self.P[precPhase][:2])
        xe = self._xe(T, precPhase)
        xs = np.clip(x[0], 1e-300, 1)
        dg = R * T * float(np.sum(xb * np.log(xs / xe)))
        return np.squeeze(np.array([dg])), np.squeeze(np.array([xb]))

    def _curv(self, x, T, precPhase):
        from kawin.thermo.MultiTherm import CurvatureOutput
        T = float(np.atleast_1d(T)[0])
        x = np.atleast_1d(np.squeeze(x)).astype(float)
        xb = np.array(self.P[precPhase][:2])
        xe = self._xe(T, precPhase)
        D = self.D0 * math.exp(-self.Q / (R * T))
        dx = xb - xe
        M = D * np.clip(xe, 1e-300, 1) / (R * T)             # dilute mobility of each solute
        den = float(np.sum(dx ** 2 / M))
        mc = 1.0 / den
        dc = (dx / D) / den
        beta = 1.0 / float(np.sum(dx ** 2 / (D * np.clip(xe, 1e-300, 1))))
        return CurvatureOutput(dc=dc, mc=mc, gba=np.zeros((2, 2)), beta=beta, c_eq_alpha=xe, c_eq_beta=xb)

    def getGrowthAndInterfacialComposition(self, x, T, dG, R_, gExtra, precPhase=None, removeCache=False, searchDir=None):
        from kawin.thermo.MultiTherm import _growthRateOutputFromCurvature
        c = self._curv(x, T, precPhase)
        self._last_beta[precPhase] = c.beta
        return _growthRateOutputFromCurvature(np.atleast_1d(np.squeeze(x)), dG, R_, gExtra, c)

    def impingementFactor(self, x, T, precPhase=None, removeCache=False, searchDir=None):
        c = self._curv(x, T, precPhase)
        self._last_beta[precPhase] = c.beta
        return c.beta


class StubBinaryC(stubs.StubBinary):
    """the shared binary stub with the composition clipped into (0, 1) in the logarithms: kawin clamps a negative
    matrix composition to minComposition (default 0) and then queries the backend at exactly 0; an ideal-solution
    driving force is -inf there, which says nothing about kawin"""
    def getDrivingForce(self, x, T, precPhase=None, removeCache=False, **k):
        x = np.clip(np.atleast_2d(np.array(x, dtype=float)), 1e-300, 1 - 1e-16)
        return super().getDrivingForce(x, T, precPhase=precPhase, removeCache=removeCache, **k)


# ------------------------------------------------------------------------------------------
class FaultWrap:
    """Forwards to a backend; the calls listed in `faults` (pairs (kind, k): the k-th call of that kind,
    counted from 0) return 'no result' the way the real backends do:
        'df'  getDrivingForce -> what GeneralThermodynamics returns: np.squeeze((None,)) twice; 'dfn' -> (None, None)
        'gr'  getGrowthAndInterfacialComposition  -> None
        'ic'  getInterfacialComposition           -> arrays of the -1 sentinel (shape of gExtra)
        'icp' getInterfacialComposition           -> the real result with -1 at every third entry and at the last one
    every call is logged as (kind, k, dropped)."""

    def __init__(self, backend, faults=()):
        self._b = backend
        self._faults = set((str(k), int(i)) for k, i in faults)
        self._count = {'df': 0, 'gr': 0, 'ic': 0, 'imp': 0}
        self.log = []
        self.last = {'df': None, 'gr': None, 'ic': None}      # last result handed to kawin per kind (for the correspondence)
        self.ic_results = []

    def __getattr__(self, name):
        return getattr(self._b, name)

    def _tick(self, kind):
        k = self._count[kind]
        self._count[kind] = k + 1
        drop = (kind, k) in self._faults
        self.log.append((kind, k, drop))
        return drop

    def getDrivingForce(self, *a, **kw):
        k = self._count['df']
        if self._tick('df'):
            # GeneralThermodynamics.getDrivingForce squeezes the per-point results: a failed point gives array(None, dtype=object)
            return np.squeeze((None,)), np.squeeze((None,))
        if ('dfn', k) in self._faults:
            self.log[-1] = ('df', k, True)
            return None, None
        return self._b.getDrivingForce(*a, **kw)

    def getGrowthAndInterfacialComposition(self, *a, **kw):
        if self._tick('gr'):
            self.last['gr'] = None
            return None
        r = self._b.getGrowthAndInterfacialComposition(*a, **kw)
        self.last['gr'] = r
        return r

    def getInterfacialComposition(self, T, gExtra=0, precPhase=None):
        k = self._count['ic']
        if self._tick('ic'):
            g = np.atleast_1d(gExtra)
            r = (np.squeeze(-1 * np.ones(g.shape)), np.squeeze(-1 * np.ones(g.shape)))
        else:
            r = self._b.getInterfacialComposition(T, gExtra, precPhase=precPhase)
            if ('icp', k) in self._faults:
                # no result for SOME of the Gibbs-Thomson energies of the call (every third entry and the last one)
                self.log[-1] = ('ic', k, True)
                xa, xb = np.atleast_1d(np.array(r[0], dtype=float)).copy(), np.atleast_1d(np.array(r[1], dtype=float)).copy()
                idx = np.arange(len(xa))
                miss = (idx % 3 == k % 3) | (idx == len(xa) - 1)
                xa[miss] = -1
                xb[miss] = -1
                r = (np.squeeze(xa), np.squeeze(xb))
        if len(self.ic_results) < 4000:
            self.ic_results.append((np.array(r[0], dtype=float).copy(), np.array(r[1], dtype=float).copy()))
        return r

    def impingementFactor(self, *a, **kw):
        self._tick('imp')
        return self._b.impingementFactor(*a, **kw)


# ------------------------------------------------------------------------------------------
class StepCap(Exception):
    pass


def temperature_arg(spec):
    k = spec['kind']
    if k == 'iso':
        return (float(spec['T']),)
    if k == 'table':
        return (list(spec['times']), list(spec['temps']))
    if k == 'linear':
        T0, rate, Tmax, Tmin = float(spec['T0']), float(spec['rate']), float(spec.get('Tmax', 1e9)), float(spec.get('Tmin', 1.0))
        return ((lambda t: min(max(T0 + rate * t, Tmin), Tmax)),)
    raise ValueError(k)


_REAL = {}


def real_backend(kind, fresh=False):
    """the pycalphad-backed thermodynamics of kawin's own test data (one object per process; [fresh]: a new object, so
    that nothing a previous run left in the backend - caches, last valid curvature terms - can serve as a fall-back)"""
    if fresh:
        _REAL.pop(kind, None)
    if kind not in _REAL:
        from kawin.tests.datasets import ALZR_TDB, NICRAL_TDB
        from kawin.thermo import BinaryThermodynamics, MulticomponentThermodynamics
        if kind == 'alzr':
            th = BinaryThermodynamics(ALZR_TDB, ['AL', 'ZR'], ['FCC_A1', 'AL3ZR'], drivingForceMethod='tangent')
            th.setDiffusivity(lambda T: 0.0768 * np.exp(-242000 / (8.314 * T)), 'FCC_A1')
        else:
            th = MulticomponentThermodynamics(NICRAL_TDB, ['NI', 'AL', 'CR'], ['FCC_A1', 'FCC_L12'], drivingForceMethod='tangent')
        th.setDFSamplingDensity(2000)
        th.setEQSamplingDensity(500)
        _REAL[kind] = th
    _REAL[kind].clearCache()
    return _REAL[kind]


def _conv(value, how):
    """the same number(s) in another admissible Python / numpy representation (calling conventions of the public setters)"""
    if how in (None, 'plain'):
        return value
    if isinstance(value, (list, tuple, np.ndarray)):
        vals = [float(v) for v in value]
        return {'tuple': tuple(vals), 'array': np.array(vals), 'npscalar': [np.float64(v) for v in vals], 'int': vals, 'zerod': np.array(vals)}[how]
    v = float(value)
    if how == 'int':
        return int(v) if v == int(v) else v
    return {'tuple': v, 'array': v, 'npscalar': np.float64(v), 'zerod': np.array(v)}[how]


def build_model(cfg):
    from kawin.precipitation import PrecipitateModel, VolumeParameter
    sysk = cfg.get('sys', 'binary')
    phases = list(cfg['phases'])
    elements = {'binary': ['B'], 'ternary': ['B', 'C'], 'alzr': ['ZR'], 'nicral': ['Al', 'Cr']}.get(sysk)
    if elements is None:
        raise ValueError(sysk)
    if cfg.get('names'):
        # parameter-object constructor; the display (output) name of a precipitate differs from its database phase name
        from kawin.precipitation import PrecipitateParameters, MatrixParameters
        pps = [PrecipitateParameters(str(nm), phase=ph) for nm, ph in zip(cfg['names'], phases)]
        m = PrecipitateModel(matrixParameters=MatrixParameters(elements), precipitateParameters=pps)
    else:
        m = PrecipitateModel(phases=phases, elements=elements)
    if sysk == 'binary':
        backend = StubBinaryC(phases)
    elif sysk == 'ternary':
        backend = StubTernary(phases)
    else:
        backend = real_backend(sysk, fresh=bool(cfg.get('eqfaults') or cfg.get('fresh_backend')))
    conv = cfg.get('conv')
    cmin, cmax, nb, minb, maxb = cfg.get('bins', (1e-10, 1e-8, 75, 50, 100))
    m.setPBMParameters(cMin=cmin, cMax=cmax, bins=int(nb), minBins=int(minb), maxBins=int(maxb), adaptive=bool(cfg.get('adaptive', True)))
    m.setInitialComposition(_conv(cfg['x0'], conv) if sysk in ('binary', 'alzr') else _conv(list(cfg['x0']), conv))
    with contextlib.redirect_stdout(io.StringIO()):
        targ = temperature_arg(cfg['T'])
        if len(targ) == 1 and not callable(targ[0]):
            targ = (_conv(targ[0], conv),)
        elif len(targ) == 2:
            targ = (_conv(targ[0], conv if conv in ('tuple', 'array') else None), _conv(targ[1], conv if conv in ('tuple', 'array', 'int') else None))
        m.setTemperature(*targ)
    a = float(cfg.get('lattice', 0.4e-9))
    m.setVolumeAlpha(a ** 3, VolumeParameter.ATOMIC_VOLUME, 4)
    vr = cfg.get('vratio', 1.0)
    for i, p in enumerate(phases):
        m.setInterfacialEnergy(_conv(cfg['gammas'][i], conv if conv in ('npscalar', 'zerod') else None), phase=p)
        m.setVolumeBeta(a ** 3 / vr, VolumeParameter.ATOMIC_VOLUME, 4, phase=p)
        shape, ar = cfg.get('shapes', [('sphere', 1)] * len(phases))[i]
        if shape != 'sphere':
            m.setPrecipitateShape(shape, phase=p, ratio=ar)
        m.setNucleationSite(cfg.get('sites', ['dislocations'] * len(phases))[i], phase=p)
        if 'infinite' in cfg:
            m.setInfinitePrecipitateDiffusivity(bool(cfg['infinite']), phase=p)
    m.setNucleationDensity(grainSize=cfg.get('grainSize', 1), dislocationDensity=cfg.get('dislocationDensity', 1e15), bulkN0=cfg.get('bulkN0'))
    if cfg.get('constraints'):
        m.setConstraints(**cfg['constraints'])
    if 'betaFunc' in cfg:
        m.setBetaBinary(int(cfg['betaFunc']))
    if 'effDiff' in cfg:
        m.enableEffectiveDiffusionDistance(bool(cfg['effDiff']))
    if cfg.get('recordPSD'):
        m.setPSDrecording(True)
    fw = FaultWrap(backend, cfg.get('faults', ()))
    # failures INSIDE the pycalphad-backed backend: the equilibrium routine that documents "return None if the equilibrium did not
    # converge" gives no result at the listed calls (instance attribute on the harness's own backend object; skipped if the
    # backend has no such routine)
    fw.eq_calls, fw.eq_dropped = 0, 0
    if cfg.get('eqfaults') and hasattr(backend, '_getCompositionSetsEq'):
        drop = set(int(k) for k in cfg['eqfaults'])
        orig = type(backend)._getCompositionSetsEq

        def eqw(*a, **kw):
            k = fw.eq_calls
            fw.eq_calls += 1
            if k in drop:
                fw.eq_dropped += 1
                return None
            return orig(backend, *a, **kw)
        backend._getCompositionSetsEq = eqw
        fw._restore = lambda: backend.__dict__.pop('_getCompositionSetsEq', None)
    m.setThermodynamics(fw)
    return m, fw



class Keep:
    """keeps the first `first` records and then every `stride`-th one, at most `cap`"""
    def __init__(self, first=10, stride=37, cap=40):
        self.first, self.stride, self.cap, self.k, self.items = first, stride, cap, 0, []

    def want(self):
        k = self.k
        self.k += 1
        return len(self.items) < self.cap and (k < self.first or k % self.stride == 0)

    def add(self, rec):
        self.items.append(rec)


def _f(a):
    return np.array(a, dtype=float).copy()


def instrument_model(m, fw, cfg):
    """instance-level recorders around the methods whose decision logic the Coq model mirrors; nothing in the kawin
    source is touched.  Returns the dict the records are appended to."""
    import kawin.precipitation.KWNBase as KB
    rec = {'fill': Keep(10, 3, 30), 'lookup': Keep(8, 5, 30), 'gbin': Keep(6, 41, 24), 'gmulti': Keep(30, 7, 80), 'nuc': Keep(30, int(cfg.get('nuc_stride', 7)), 80), 'getdt': Keep(10, 29, 40)}
    P = len(m.phases)
    binary = m.numberOfElements == 1

    if binary:
        o_lookup = m._createLookupBinary

        def lookup(T):
            n0 = len(fw.ic_results)
            out = o_lookup(T)
            if rec['lookup'].want():
                calls = fw.ic_results[n0:]
                # two backend calls per phase: planar interface (scalar), then the table
                if len(calls) == 2 * P:
                    for p in range(P):
                        xa, xb = calls[2 * p + 1]
                        rec['lookup'].add({'p': p, 'xa': np.atleast_1d(_f(xa)), 'xb': np.atleast_1d(_f(xb)), 'rdfi': int(m.RdrivingForceIndex[p]),
                                           'ta': _f(m.PSDXalpha[p][:, 0]), 'tb': _f(m.PSDXbeta[p][:, 0])})
            return out
        m._createLookupBinary = lookup

        if hasattr(m, '_fillUnknownInterfacialComposition'):
            o_fill = m._fillUnknownInterfacialComposition

            def fill(p, start):
                want = rec['fill'].want()
                if want:
                    pre = (_f(m.PSDXalpha[p][:, 0]), _f(m.PSDXbeta[p][:, 0]))
                out = o_fill(p, start)
                if want:
                    rec['fill'].add({'p': p, 'start': int(start), 'xa': pre[0], 'xb': pre[1], 'ia': _f(m.PSDXalpha[p][:, 0]), 'ib': _f(m.PSDXbeta[p][:, 0])})
                return out
            m._fillUnknownInterfacialComposition = fill

        o_gb = m._singleGrowthBinary

        def gbin(p, Y):
            out = o_gb(p, Y)
            if rec['gbin'].want():
                ed = m.matrixParameters.effectiveDiffusion
                rec['gbin'].add({'p': p, 'x': float(Y.composition[0][0]), 'T': float(Y.temperature[0]), 'rdfi': int(m.RdrivingForceIndex[p]),
                                 'xa': _f(m.PSDXalpha[p][:, 0]), 'xb': _f(m.PSDXbeta[p][:, 0]), 'bounds': _f(m.PBM[p].PSDbounds),
                                 'kin': np.atleast_1d(_f(m.precipitateParameters[p].shapeFactor.kineticFactor(m.PBM[p].PSDbounds))) * np.ones(len(m.PBM[p].PSDbounds)),
                                 'D': float(fw._b.getInterdiffusivity(Y.composition[0][0], Y.temperature[0])),
                                 'VmA': float(m.matrixParameters.volume.Vm), 'VmB': float(m.precipitateParameters[p].volume.Vm),
                                 'enabled': bool(ed.isEnabled), 'ohm': _f(ed.ohmInterp), 'effd': _f(ed.effDiffInterp), 'out': _f(out)})
            return out
        m._singleGrowthBinary = gbin
    else:
        o_gm = m._singleGrowthMulti

        def gmulti(p, Y):
            want = rec['gmulti'].want()
            if want:
                pre = {'p': p, 'dG': float(Y.drivingForce[0][p]), 'dens': float(Y.precipitateDensity[0][p]), 'nb': int(m.PBM[p].bins + 1),
                       'ne': int(m.numberOfElements), 'kin': np.atleast_1d(_f(m.precipitateParameters[p].shapeFactor.kineticFactor(m.PBM[p].PSDbounds))) * np.ones(m.PBM[p].bins + 1),
                       'prevG': _f(m.growth[p]) if hasattr(m, 'growth') else None, 'yA': _f(Y.xEqAlpha[0, p]), 'yB': _f(Y.xEqBeta[0, p]),
                       'tabA_id': id(m.PSDXalpha[p]), 'ngr': fw._count['gr']}
            try:
                out = o_gm(p, Y)
            except Exception as e:
                if want:
                    pre.update(called=fw._count['gr'] > pre['ngr'], backend=None, raised=type(e).__name__)
                    rec['gmulti'].add(pre)
                raise
            if want:
                called = fw._count['gr'] > pre['ngr']
                r = fw.last['gr'] if called else None
                pre.update(called=called, raised=None, rate=_f(out[0]), eqA=np.atleast_1d(_f(out[1])), eqB=np.atleast_1d(_f(out[2])),
                           tabs=id(m.PSDXalpha[p]) != pre['tabA_id'],
                           backend=None if r is None else {'growth': np.atleast_1d(_f(r.growth_rate)), 'eqa': np.atleast_1d(_f(r.c_eq_alpha)), 'eqb': np.atleast_1d(_f(r.c_eq_beta))})
                rec['gmulti'].add(pre)
            return out
        m._singleGrowthMulti = gmulti

    # nucleation terms: capture what the nucleation formulas returned in this call (module functions are wrapped for the
    # duration of the call only)
    o_nuc = m._calcNucleationRate
    NAMES = ['volumetricDrivingForce', 'nucleationBarrier', 'betaBinary1', 'betaBinary2', 'betaMulti', 'nucleationRate', 'nucleationRadius']

    def nuc(t, x, Y):
        if not rec['nuc'].want():
            return o_nuc(t, x, Y)
        cap = []
        saved = {k: getattr(KB.nucfuncs, k) for k in NAMES}

        def mk(k):
            def w(*a, **kw):
                r = saved[k](*a, **kw)
                cap.append((k, r))
                return r
            return w
        prev = [[float(getattr(Y, k)[0][p]) for k in ('drivingForce', 'impingement', 'Gcrit', 'Rcrit', 'nucRate', 'Rnuc')] for p in range(P)]
        n = m.pData.n
        dtprev = float(t) if n == 0 else float(m.pData.time[n] - m.pData.time[n - 1])
        for k in NAMES:
            setattr(KB.nucfuncs, k, mk(k))
        raised = None
        try:
            out = o_nuc(t, x, Y)
        except Exception as e:
            raised = type(e).__name__
            raise
        finally:
            for k in NAMES:
                setattr(KB.nucfuncs, k, saved[k])
            # split the captured calls per phase: each phase starts with volumetricDrivingForce
            per, cur = [], None
            for k, r in cap:
                if k == 'volumetricDrivingForce':
                    cur = {}
                    per.append(cur)
                if cur is not None:
                    cur[k] = r
            for p, c in enumerate(per):
                vd = c.get('volumetricDrivingForce')
                df = None if (vd is None or vd[1] is None) else float(vd[1])
                if vd is not None and vd[1] is not None and getattr(np.asarray(vd[1]), 'dtype', None) == object:
                    df = None
                beta = None
                for bk in ('betaBinary1', 'betaBinary2', 'betaMulti'):
                    if bk in c:
                        beta = float(c[bk])
                nb_ = c.get('nucleationBarrier')
                after = None
                if raised is None:
                    after = [float(getattr(Y, k)[0][p]) for k in ('drivingForce', 'impingement', 'Gcrit', 'Rcrit', 'nucRate', 'Rnuc')]
                rate_sites = after[4] if (after is not None and 'nucleationRate' in c) else 0.0
                radd = 0.0
                if 'nucleationRadius' in c and nb_ is not None:
                    radd = float(c['nucleationRadius']) - float(nb_[0])
                rec['nuc'].add({'p': p, 'prev': prev[p], 'df': df, 'Rprop': float(nb_[0]) if nb_ is not None else 0.0,
                                'Gcrit': float(nb_[1]) if nb_ is not None else 0.0, 'beta': beta if beta is not None else 0.0,
                                'rate': rate_sites, 'radd': radd, 'radius_called': 'nucleationRadius' in c,
                                'Rnuc_impl': float(c['nucleationRadius']) if 'nucleationRadius' in c else 0.0,
                                'Rmin': float(m.precipitateParameters[p].Rmin), 'minDens': float(m.constraints.minNucleateDensity),
                                'dtprev': dtprev, 'after': after, 'raised': raised})
        return out
    m._calcNucleationRate = nuc

    # step size: candidates of the five constraint functions and the result
    cons = m.constraints
    cand = {}
    for k in ('computeDTfromPSD', 'computeDTfromNucleationRate', 'computeDTfromTemperature', 'computeDTfromRcrit', 'computeDTfromVolume'):
        def mkc(k, f):
            def w(*a, **kw):
                r = f(*a, **kw)
                cand[k] = float(r)
                return r
            return w
        setattr(cons, k, mkc(k, getattr(cons, k)))
    o_getdt = m.getDt

    def getdt(dXdt):
        cand.clear()
        out = o_getdt(dXdt)
        if rec['getdt'].want() and len(cand) == 5:
            i = m.pData.n
            dtPrev = 0.01 if i == 0 else float(m.pData.time[i] - m.pData.time[i - 1])
            rec['getdt'].add({'dtMax': float(m.finalTime - m.pData.time[i]), 'dtPropose': float((1 + m.constraints.dtScale) * dtPrev),
                              'cands': [cand[k] for k in ('computeDTfromPSD', 'computeDTfromNucleationRate', 'computeDTfromTemperature', 'computeDTfromRcrit', 'computeDTfromVolume')],
                              'out': float(out)})
        return out
    m.getDt = getdt
    return rec


NAMES16 = ['time', 'temperature', 'composition', 'xEqAlpha', 'xEqBeta', 'drivingForce', 'impingement', 'Gcrit', 'Rcrit',
           'nucRate', 'precipitateDensity', 'Rnuc', 'Ravg', 'ARavg', 'volFrac', 'fconc']       # from the property text / documentation

INTERNAL = (TypeError, UnboundLocalError, AttributeError, IndexError, KeyError, ZeroDivisionError, NameError, AssertionError,
            FloatingPointError, ValueError, RuntimeError, OverflowError)


def check_state(m, nsteps_expected=None):
    """the well-formedness predicate of the property on the current state of a model; returns list of
    (clause, cls, message)"""
    d = m.pData
    v = []
    arrs = {}
    for k in NAMES16:
        if not hasattr(d, k):
            v.append(('histories_aligned', 'missing array', 'recorded array %s does not exist' % k))
            continue
        arrs[k] = np.asarray(getattr(d, k))
    L = {k: a.shape[0] for k, a in arrs.items()}
    if len(set(L.values())) > 1:
        v.append(('histories_aligned', 'lengths differ', 'recorded histories have different lengths: %r' % L))
    elif nsteps_expected is not None and L and L['time'] != nsteps_expected + 1:
        v.append(('histories_aligned', 'length vs steps', 'histories have %d entries after %d accepted steps' % (L['time'], nsteps_expected)))
    if L and d.n != L['time'] - 1:
        v.append(('histories_aligned', 'counter', 'pData.n = %r but the time history has %d entries' % (d.n, L['time'])))
    for k, a in arrs.items():
        try:
            fin = np.isfinite(a.astype(float))
        except (TypeError, ValueError):
            v.append(('finite', 'non-numeric ' + k, 'history %s holds non-numeric entries (dtype %s)' % (k, a.dtype)))
            continue
        if not fin.all():
            row = int(np.argmax(~fin.reshape(fin.shape[0], -1).all(axis=1)))
            v.append(('finite', k, 'history %s is not finite from entry %d on (%r)' % (k, row, a[row].tolist())))
    t = arrs.get('time')
    if t is not None and len(t) > 1 and np.isfinite(t).all() and not np.all(np.diff(t) > 0):
        i = int(np.argmax(~(np.diff(t) > 0)))
        v.append(('times_increasing', 'time', 'time stamps not strictly increasing: t[%d]=%r, t[%d]=%r' % (i, t[i], i + 1, t[i + 1])))

    def rng_chk(name, clause, lo=None, hi=None):
        a = arrs.get(name)
        if a is None or a.dtype == object:
            return
        with np.errstate(invalid='ignore'):
            bad = np.zeros(a.shape, dtype=bool)
            if lo is not None:
                bad |= a < lo
            if hi is not None:
                bad |= a > hi
        if bad.any():
            row = int(np.argmax(bad.reshape(bad.shape[0], -1).any(axis=1)))
            v.append((clause, name, '%s[%d] = %r outside [%s, %s]' % (name, row, a[row].tolist(), lo, hi)))
    rng_chk('volFrac', 'fractions_bounded', 0, 1)
    rng_chk('composition', 'composition_bounded', 0, 1)
    rng_chk('xEqAlpha', 'composition_bounded', 0, 1)
    rng_chk('xEqBeta', 'composition_bounded', 0, 1)
    rng_chk('Ravg', 'radii_nonneg', 0, None)
    rng_chk('Rcrit', 'radii_nonneg', 0, None)
    rng_chk('precipitateDensity', 'psd_nonneg', 0, None)
    # a phase whose (calculated) driving force is negative does not nucleate: recorded rate and radius are 0 on every such step
    dgs, nr, rn = arrs.get('drivingForce'), arrs.get('nucRate'), arrs.get('Rnuc')
    if dgs is not None and nr is not None and rn is not None and dgs.dtype != object and dgs.shape == nr.shape == rn.shape:
        with np.errstate(invalid='ignore'):
            neg = dgs < 0
            for nm, a in (('nucRate', nr), ('Rnuc', rn)):
                bad = neg & (a != 0)
                if bad.any():
                    row = int(np.argmax(bad.reshape(bad.shape[0], -1).any(axis=1)))
                    v.append(('no_nucleation_without_driving_force', nm, '%s[%d] = %r although drivingForce[%d] = %r is negative' % (
                        nm, row, a[row].tolist(), row, dgs[row].tolist())))
    vf = arrs.get('volFrac')
    if vf is not None and vf.dtype != object and vf.ndim == 2:
        with np.errstate(invalid='ignore'):
            tot = vf.sum(axis=1)
            if (tot > 1 + 1e-12).any():
                row = int(np.argmax(tot > 1 + 1e-12))
                v.append(('total_fraction', 'sum over phases', 'total precipitate fraction %r > 1 at entry %d (%r)' % (float(tot[row]), row, vf[row].tolist())))
    for p in range(len(m.phases)):
        psd = np.asarray(m.PBM[p].PSD, dtype=float)
        if not np.isfinite(psd).all():
            v.append(('finite', 'PSD', 'size distribution of phase %d holds non-finite entries' % p))
        elif (psd < 0).any():
            i = int(np.argmax(psd < 0))
            v.append(('psd_nonneg', 'PSD', 'size class %d of phase %d holds %r particles' % (i, p, float(psd[i]))))
        nb = len(m.PBM[p].PSDbounds)
        if len(psd) + 1 != nb or (hasattr(m, 'growth') and len(np.atleast_1d(m.growth[p])) != nb):
            v.append(('histories_aligned', 'grid arrays', 'phase %d: %d classes, %d boundaries, growth array of %d' % (
                p, len(psd), nb, len(np.atleast_1d(m.growth[p])) if hasattr(m, 'growth') else -1)))
    return v


def where_of(tb):
    """innermost kawin frame of a traceback: 'File.py:function'"""
    out = 'harness'
    for fs in traceback.extract_tb(tb):
        if '/kawin/' in fs.filename:
            out = '%s:%s' % (fs.filename.split('/kawin/')[-1], fs.name)
    return out


def run_cfg(cfg, snapshots=False, keep_model=True):
    """run one configuration; returns dict(err, where, issues, steps, end_ok, log, snaps, model)"""
    from kawin.solver.Iterators import ExplicitEulerIterator, RK4Iterator
    res = {'err': None, 'where': None, 'issues': [], 'steps': 0, 'capped': False, 'log': [], 'snaps': [], 'first_bad_step': None}
    old = np.seterr(all='ignore')
    try:
        try:
            m, fw = build_model(cfg)
        except Exception as e:
            import sys
            res['err'] = 'configuring the model: %s: %s' % (type(e).__name__, e)
            res['errtype'] = type(e).__name__
            res['where'] = where_of(sys.exc_info()[2])
            return res
        real = ExplicitEulerIterator if cfg.get('iterator', 'euler') == 'euler' else RK4Iterator
        recs = instrument_model(m, fw, cfg) if snapshots else None
        state = {'steps': 0, 'calls_at_step': [], 'g_in_force': None}
        snapk = Keep(first=6, stride=int(cfg.get('snap_stride', 53)), cap=int(cfg.get('snap_cap', 30)))
        if snapshots:
            o_mb = m._calcMassBalance

            def mb(t, x, Y):
                # table / threshold index / previous composition in force at the (last) mass balance of the step
                state['table_mb'] = [None if m.PSDXbeta[p] is None else np.array(m.PSDXbeta[p], dtype=float).copy() for p in range(len(m.phases))]
                state['rdfi_mb'] = np.array(m.RdrivingForceIndex).copy()
                state['comp_mb'] = np.atleast_1d(np.array(Y.composition[0], dtype=float)).copy()
                return o_mb(t, x, Y)
            m._calcMassBalance = mb
        maxsteps = int(cfg.get('maxsteps', 4000))

        def it(f, t, X, updateX):
            # growth / nucleation in force at the LAST derivative evaluation of the step
            def f2(tt, xx, *a):
                out = f(tt, xx, *a)
                state['g_in_force'] = ([np.array(g, dtype=float).copy() for g in m.growth],
                                       np.array(m._currY.nucRate[0], dtype=float).copy(), np.array(m._currY.Rnuc[0], dtype=float).copy(),
                                       [np.array(m.PBM[p]._netFlux, dtype=float).copy() for p in range(len(m.phases))])
                return out
            state['x_before'] = [m.PBM[p].PSD.copy() for p in range(len(m.phases))]
            state['grid_before'] = [m.PBM[p].PSDbounds.copy() for p in range(len(m.phases))]
            state['rdfi_before'] = np.array(m.RdrivingForceIndex).copy()
            state['table_before'] = [None if m.PSDXbeta[p] is None else np.array(m.PSDXbeta[p], dtype=float).copy() for p in range(len(m.phases))]
            state['slice_before'] = {k: np.array(getattr(m.pData, k)[m.pData.n], dtype=float).copy() for k in m.pData.ATTRIBUTES}
            state['log_pos'] = len(fw.log)
            Xn, dt = real(f2, t, X, updateX)
            state['Xn'] = np.array(Xn, dtype=float).copy()
            state['dt'] = float(dt)
            state['t'] = float(t)
            return Xn, dt

        def obs(model):
            state['steps'] += 1
            if res['first_bad_step'] is None:
                iss = check_state(model)
                # faults: when EVERY driving-force (growth) calculation of this step returned no result, the recorded terms that
                # depend on it must be the last valid ones (those of the previous entry)
                calls = fw.log[state.get('log_pos', len(fw.log)):]
                n = model.pData.n
                if n >= 1 and calls:
                    d = model.pData
                    for kind, names in (('df', ('drivingForce', 'Rcrit', 'Gcrit', 'impingement', 'nucRate', 'Rnuc')), ('gr', ('xEqAlpha', 'xEqBeta'))):
                        ks = [c for c in calls if c[0] == kind]
                        if ks and all(c[2] for c in ks):
                            for nm in names:
                                a = np.asarray(getattr(d, nm), dtype=float)
                                ok = np.array_equal(a[n], a[n - 1], equal_nan=True)
                                if kind == 'gr':
                                    # only phases with a non-negative driving force fall back; the others are documented to be reset to 0
                                    ok = all(np.array_equal(a[n, p], a[n - 1, p], equal_nan=True) or d.drivingForce[n, p] < 0 for p in range(a.shape[1]))
                                if not ok:
                                    iss.append(('fault_keeps_last_valid', '%s after %s fault' % (nm, kind),
                                                'every %s calculation of step %d returned no result but %s changed from %r to %r' % (
                                                    {'df': 'driving-force', 'gr': 'growth'}[kind], state['steps'], nm, a[n - 1].tolist(), a[n].tolist())))
                                    break
                if iss:
                    res['first_bad_step'] = state['steps']
                    res['first_bad_issues'] = iss
            if snapshots and state.get('Xn') is not None and snapk.want():
                P = len(model.phases)
                n = model.pData.n
                snapk.add({
                    'step': state['steps'], 't': state['t'], 'dt': state['dt'],
                    'x_before': state['x_before'], 'grid_before': state['grid_before'], 'rdfi': state.get('rdfi_mb', state['rdfi_before']),
                    'table': state.get('table_mb', state['table_before']), 'comp_prev': state.get('comp_mb'), 'slice_before': state['slice_before'],
                    'nf': state['g_in_force'][3], 'nucRate': state['g_in_force'][1], 'Rnuc': state['g_in_force'][2], 'Xn': state['Xn'],
                    'slice_after': {k: np.array(getattr(model.pData, k)[n], dtype=float).copy() for k in model.pData.ATTRIBUTES},
                    'psd_after': [model.PBM[p].PSD.copy() for p in range(P)],
                    'grid_after': [model.PBM[p].PSDbounds.copy() for p in range(P)],
                    'rdfi_after': np.array(model.RdrivingForceIndex).copy(),
                    'rdfi_start': state['rdfi_before'],
                    'reset_branch': [bool(model.pData.drivingForce[n, p] < 0 and np.all(model.pData.xEqAlpha[n, p, :] == 0)) for p in range(P)],
                    'origBins': [int(model.PBM[p].originalBins) for p in range(P)],
                    'calls': list(fw.log[state['log_pos']:]),
                    'lengths': {k: len(getattr(model.pData, k)) for k in model.pData.ATTRIBUTES},
                })
            if state['steps'] >= maxsteps:
                raise StepCap()
        m.addCouplingModel(stubs.StepObserver(obs))
        res['model'] = m
        try:
            with contextlib.redirect_stdout(io.StringIO()):
                for seg in cfg.get('segments', [100.0]):
                    t0 = float(m.pData.time[m.pData.n])
                    m.solve(float(seg), solverType=it, verbose=False, minDtFrac=float(cfg.get('minDtFrac', 1e-4)), maxDtFrac=float(cfg.get('maxDtFrac', 1.0)))
                    tend = float(m.pData.time[m.pData.n])
                    if tend != t0 + float(seg):
                        res['issues'].append(('end_exact', 'end time', 'solve(%r) from t=%r ended at %r, requested end %r' % (seg, t0, tend, t0 + float(seg))))
        except StepCap:
            res['capped'] = True
        except INTERNAL as e:
            import sys
            res['err'] = '%s: %s' % (type(e).__name__, str(e)[:200])
            res['errtype'] = type(e).__name__
            res['where'] = where_of(sys.exc_info()[2])
        res['steps'] = state['steps']
        res['log'] = list(fw.log)
        res['issues'] += check_state(m, nsteps_expected=state['steps'] if res['err'] is None else None)
        if cfg.get('recordPSD'):
            for p in range(len(m.phases)):
                rp = m.PBM[p]._recordedPSD
                if rp is not None and (not np.isfinite(rp).all() or (rp < 0).any()):
                    res['issues'].append(('psd_nonneg', 'recorded PSD', 'recorded size distribution of phase %d has negative / non-finite entries' % p))
        if hasattr(fw, '_restore'):
            fw._restore()
        res['eq_dropped'] = getattr(fw, 'eq_dropped', 0)
        import hashlib as _h
        hh = _h.sha1()
        for k in NAMES16:
            if hasattr(m.pData, k):
                hh.update(np.ascontiguousarray(np.asarray(getattr(m.pData, k), dtype=float)).tobytes())
        for p in range(len(m.phases)):
            hh.update(np.ascontiguousarray(np.asarray(m.PBM[p].PSD, dtype=float)).tobytes())
            hh.update(np.ascontiguousarray(np.asarray(m.PBM[p].PSDbounds, dtype=float)).tobytes())
        res['digest'] = hh.hexdigest()
        res['summary'] = {'n': int(m.pData.n), 't_end': float(m.pData.time[m.pData.n]),
                          'volFrac_end': np.asarray(m.pData.volFrac[m.pData.n], dtype=float).tolist(),
                          'density_end': np.asarray(m.pData.precipitateDensity[m.pData.n], dtype=float).tolist()}
        res['nontrivial'] = bool(np.any(np.nan_to_num(np.asarray(m.pData.precipitateDensity, dtype=float)) > 0))
        res['final'] = {'t': float(m.pData.time[m.pData.n]), 'n': int(m.pData.n),
                        'maxfv': float(np.nanmax(np.nan_to_num(np.asarray(m.pData.volFrac, dtype=float)))),
                        'attributes': list(m.pData.ATTRIBUTES)}
        if snapshots:
            res['snaps'] = snapk.items
            res['recs'] = {k: v.items for k, v in recs.items()}
            P = len(m.phases)
            res['meta'] = {'P': P, 'E': int(m.numberOfElements), 'minRadius': float(m.constraints.minRadius),
                           'minDens': float(m.constraints.minNucleateDensity), 'minComp': float(m.constraints.minComposition),
                           'x0': np.atleast_1d(np.array(m.pData.composition[0], dtype=float)),
                           'volRatio': [float(m.matrixParameters.volume.Vm / m.precipitateParameters[p].volume.Vm) for p in range(P)],
                           'volFactor': [float(m.precipitateParameters[p].nucleation.volumeFactor) for p in range(P)],
                           'infinite': [bool(m.precipitateParameters[p].infinitePrecipitateDiffusion) for p in range(P)]}
        if not keep_model:
            res.pop('model', None)
        return res
    finally:
        np.seterr(**old)


# ------------------------------------------------------------------------------------------
# histories on ONE object, and several objects alive in the same process
def model_digest(m):
    import hashlib
    hh = hashlib.sha1()
    for k in NAMES16:
        if hasattr(m.pData, k):
            hh.update(np.ascontiguousarray(np.asarray(getattr(m.pData, k), dtype=float)).tobytes())
    for p in range(len(m.phases)):
        hh.update(np.ascontiguousarray(np.asarray(m.PBM[p].PSD, dtype=float)).tobytes())
        hh.update(np.ascontiguousarray(np.asarray(m.PBM[p].PSDbounds, dtype=float)).tobytes())
    return hh.hexdigest(), {'n': int(m.pData.n), 't_end': float(m.pData.time[m.pData.n]),
                            'volFrac_end': np.asarray(m.pData.volFrac[m.pData.n], dtype=float).tolist()}


def _solve_segments(m, cfg, segs):
    from kawin.solver.Iterators import ExplicitEulerIterator, RK4Iterator
    it = ExplicitEulerIterator if cfg.get('iterator', 'euler') == 'euler' else RK4Iterator
    with contextlib.redirect_stdout(io.StringIO()):
        for seg in segs:
            m.solve(float(seg), solverType=it, verbose=False, minDtFrac=float(cfg.get('minDtFrac', 1e-3)), maxDtFrac=float(cfg.get('maxDtFrac', 1.0)))


def scenario(kind, cfgs):
    """kind 'rerun': run, reset(), run again on the SAME object - both runs must give what a fresh object gives;
       kind 'interleave': two objects advanced alternately, segment by segment - each must give what it gives alone.
       returns list of (clause, cls, message) plus well-formedness issues; internal errors are reported as such"""
    out = []
    old = np.seterr(all='ignore')
    try:
        def fresh(c):
            m, fw = build_model(c)
            _solve_segments(m, c, c.get('segments', [10.0]))
            return model_digest(m)
        try:
            if kind == 'rerun':
                c = cfgs[0]
                ref = fresh(c)
                m, fw = build_model(c)
                _solve_segments(m, c, c.get('segments', [10.0]))
                d1 = model_digest(m)
                m.reset()
                _solve_segments(m, c, c.get('segments', [10.0]))
                d2 = model_digest(m)
                out += [(cl, cls, 'second run after reset(): ' + msg) for cl, cls, msg in check_state(m)]
                if d1[0] != ref[0]:
                    out.append(('history_independent', 'same configuration twice', 'two fresh objects with the same configuration differ: %r vs %r' % (ref[1], d1[1])))
                # (the second run is NOT compared with the first: reset() re-creates the population balance models with their
                #  default parameters, which is outside this property; it must be well formed, which is checked above)
            else:
                ca, cb = cfgs
                ra, rb = fresh(ca), fresh(cb)
                ma, _ = build_model(ca)
                mb, _ = build_model(cb)
                sa, sb = list(ca.get('segments', [10.0])), list(cb.get('segments', [10.0]))
                for i in range(max(len(sa), len(sb))):
                    if i < len(sa):
                        _solve_segments(ma, ca, [sa[i]])
                    if i < len(sb):
                        _solve_segments(mb, cb, [sb[i]])
                da, db = model_digest(ma), model_digest(mb)
                out += [(cl, cls, 'interleaved object A: ' + msg) for cl, cls, msg in check_state(ma)]
                out += [(cl, cls, 'interleaved object B: ' + msg) for cl, cls, msg in check_state(mb)]
                if da[0] != ra[0]:
                    out.append(('history_independent', 'two objects interleaved', 'object A advanced alternately with another object gives %r, alone %r' % (da[1], ra[1])))
                if db[0] != rb[0]:
                    out.append(('history_independent', 'two objects interleaved', 'object B advanced alternately with another object gives %r, alone %r' % (db[1], rb[1])))
        except INTERNAL as e:
            import sys
            out.append(('no_internal_error', '%s in %s' % (type(e).__name__, where_of(sys.exc_info()[2])), 'scenario %s ended with %s: %s' % (kind, type(e).__name__, str(e)[:200])))
        return out
    finally:
        np.seterr(**old)
