"""C10 - diffusivities are physically valid and match the free-energy curvature.

proof:          coq/C10/Properties.v (theorems about the real instance of coq/C10/Model.v: volume-fixed frame
                zero sum, tracer = R*T*M, binary Darken, symmetry of the bordered matrix and of dMudX /
                partialdMudX for every right inverse, Gibbs-Duhem from the bordered system, L*H form of the
                interdiffusivity, real positive eigenvalues for the ternary, element re-ordering)
correspondence: kawin/thermo/Mobility.py and FreeEnergyHessian.py are run on duck-typed composition sets
                (objects exposing X, dof, phase_record.{nonvacant_elements, state_variables, variables,
                formula* callbacks}); the same data, shipped exactly, are evaluated by the model on exact
                rationals inside Coq (numpy's inverse = oracle, instantiated by an exact elimination whose
                result is checked to be a right inverse in every case); outputs compared inside Coq.
search:         an independent oracle written from the property text: chemical potentials of a closed-form
                sublattice solution differentiated numerically in 70-digit arithmetic (no bordered matrix),
                Darken's formula, flux sums, eigenvalues; functions attached through the public setters
                (setMobility / setDiffusivity: one function, dict of different functions, element= form) and the
                phase= argument of getTracerDiffusivity / getInterdiffusivity on a scripted two-phase thermodynamics
                object (the value for phase P must come from the functions attached to P); and - labelled SAMPLING,
                not proof - the same predicates on the shipped databases through pycalphad, Fe-Cr-Ni also through
                phase='BCC_A2'.
"""
import copy, json, types, itertools
from decimal import Decimal as Dm, getcontext
from fractions import Fraction
import numpy as np
from common import *

LEVEL = 'proof'
SITE_M = 'Mobility'
SITE_H = 'FreeEnergyHessian'
SITE_T = 'Thermodynamics'
RGAS = 8.314

HEADER = '''From Coq Require Import QArith List ZArith Floats.
Require Import Kawin.Common.Ops Kawin.Common.Vec Kawin.Common.Out Kawin.C10.Model Kawin.C10.Corr.
Import ListNotations.
Open Scope Q_scope.
'''

INTERSTITIALS = ['C', 'N', 'O', 'H', 'B']          # kawin.thermo.Mobility.interstitials
SUBS_POOL = ['AL', 'CR', 'CU', 'FE', 'MG', 'NI', 'SI', 'TI', 'ZR']
SV_CODE = {'GE': 0, 'N': 1, 'P': 2, 'T': 3}


# ------------------------------------------------------------------------------------------
# Coq literals (hexadecimal floats, converted exactly inside Coq by Corr.f2q)
def flit(x):
    x = float(x)
    if not math.isfinite(x):
        raise ValueError('non-finite value cannot be shipped to the model: %r' % x)
    h = x.hex()
    return '(%s)' % h if h[0] == '-' else h


def fq(x):
    return '(f2q %s%%float)' % flit(x)


def fvec(xs):
    return '(fv [%s]%%float)' % '; '.join(flit(v) for v in np.ravel(xs))


def fmat(a):
    a = np.asarray(a, float)
    if a.ndim != 2:
        raise ValueError('matrix expected, got shape %r' % (a.shape,))
    return '(fm [%s]%%float)' % '; '.join('[' + '; '.join(flit(v) for v in row) + ']' for row in a)


def natlist(xs):
    return '[' + '; '.join('%d%%nat' % int(x) for x in xs) + ']'


def boollist(xs):
    return '[' + '; '.join(boollit(x) for x in xs) + ']'


# ------------------------------------------------------------------------------------------
# duck-typed composition sets: everything Mobility.py / FreeEnergyHessian.py read from one
class _Species:
    def __init__(self, name):
        self.name = name


class _Var:
    def __init__(self, name, sub):
        self.species = _Species(name)
        self.sublattice_index = sub


class FakeCS:
    def __init__(self, c):
        from pycalphad import variables as v
        pr = types.SimpleNamespace()
        pr.nonvacant_elements = list(c['elements'])
        pr.state_variables = [getattr(v, s) for s in c['svs']]
        pr.variables = [_Var(n, k) for (n, k) in c['variables']]
        pr.phase_dof = len(c['variables'])
        pr.num_statevars = len(c['svs'])
        self.calls = []
        self._d = {}
        self.update(c)
        if 'd2g' in c:
            pr.num_internal_cons = len(c['cons'])
            D = self._d

            def formulamole_grad(out, dof, idx): out[:] = D['dxdy'][idx]
            def formulamole_obj(out, dof, idx): out[:] = D['moleA'][idx]
            def formulagrad(out, dof): out[:] = D['dg']
            def formulahess(out, dof): out[:] = D['d2g']
            def internal_cons_jac(out, dof): out[:] = D['cons'].reshape(np.shape(out))
            pr.formulamole_grad, pr.formulamole_obj = formulamole_grad, formulamole_obj
            pr.formulagrad, pr.formulahess, pr.internal_cons_jac = formulagrad, formulahess, internal_cons_jac
        self.phase_record = pr

    def update(self, c):
        """a new state in the SAME object (pycalphad re-solves composition sets in place)"""
        self.dof = np.array(c['dof'], float)
        self.X = np.array(c['X'], float)
        for k in ('d2g', 'dg', 'dxdy', 'moleA', 'cons'):
            if k in c:
                self._d[k] = np.array(c[k], float)


def callables_of(c):
    return {e: (lambda arr, m=m: m) for e, m in zip(c['elements'], c['raw'])}


def corr_of(c):
    """mobility_correction argument: None, or a dict that may omit elements (default 1)"""
    if c['corr'] is None:
        return None
    return {e: f for e, f in zip(c['elements'], c['corr']) if f is not None}


def corr_vec(c):
    if c['corr'] is None:
        return [1.0] * len(c['elements'])
    return [1.0 if f is None else f for f in c['corr']]


# ------------------------------------------------------------------------------------------
# closed-form sublattice solution (subst)_a1 (interstitials, VA)_a2 : the search oracle's thermodynamics
class StubPhase:
    """Gibbs energy per formula unit
         G = a1 sum y1_i (G1_i + RT ln y1_i) + sum_{i<j} L_ij y1_i y1_j
           + a2 sum y2_k (G2_k + RT ln y2_k) + sum_{i,k} W_ik y1_i y2_k
       (second sublattice: the interstitial elements, then the vacancy)."""
    def __init__(self, subs, ints, a1, a2, G1, G2, L, W, T, sub2):
        self.subs, self.ints, self.a1, self.a2, self.G1, self.G2, self.L, self.W, self.T, self.sub2 = \
            subs, ints, a1, a2, G1, G2, L, W, T, sub2

    def Gf(self, y1, y2):
        D = Dm
        RT = D(RGAS) * D(self.T)
        g = D(0)
        for i, yi in enumerate(y1):
            g += D(self.a1) * (yi * D(self.G1[i]) + RT * yi * yi.ln())
            for j in range(i + 1, len(y1)):
                g += D(self.L[i][j]) * yi * y1[j]
        for k, yk in enumerate(y2):
            g += D(self.a2) * (yk * D(self.G2[k]) + RT * yk * yk.ln())
            for i, yi in enumerate(y1):
                g += D(self.W[i][k]) * yi * yk
        return g

    def Gtot(self, N):
        """Gibbs energy of N[e] moles of each element (70-digit decimals)"""
        Nf = sum((N[e] for e in self.subs), Dm(0)) / Dm(self.a1)
        y1 = [N[e] / (Dm(self.a1) * Nf) for e in self.subs]
        y2 = [N[e] / (Dm(self.a2) * Nf) for e in self.ints]
        if self.sub2:
            y2 = y2 + [1 - sum(y2, Dm(0))]
        return Nf * self.Gf(y1, y2)

    def grad_hess(self, y1, y2):
        """binary64 gradient / hessian of G with respect to the site fractions (what a phase record supplies)"""
        n1, n2 = len(y1), len(y2)
        RT = RGAS * self.T
        Ls = np.array(self.L, float)
        Ls = Ls + Ls.T
        W = np.array(self.W, float).reshape(n1, n2) if n2 else np.zeros((n1, 0))
        y1, y2 = np.array(y1, float), np.array(y2, float)
        g = np.zeros(n1 + n2)
        H = np.zeros((n1 + n2, n1 + n2))
        for i in range(n1):
            g[i] = self.a1 * (self.G1[i] + RT * (np.log(y1[i]) + 1)) + Ls[i] @ y1 + (W[i] @ y2 if n2 else 0)
            H[i, i] = self.a1 * RT / y1[i]
            for j in range(n1):
                if j != i:
                    H[i, j] = Ls[i, j]
            for k in range(n2):
                H[i, n1 + k] = H[n1 + k, i] = W[i, k]
        for k in range(n2):
            g[n1 + k] = self.a2 * (self.G2[k] + RT * (np.log(y2[k]) + 1)) + W[:, k] @ y1
            H[n1 + k, n1 + k] = self.a2 * RT / y2[k]
        return g, H


def stub_mu(ph, N, els, h=Dm('1e-25')):
    """chemical potentials = dG/dN_e by central differences in 70-digit arithmetic"""
    out = []
    for e in els:
        Np = dict(N); Np[e] = N[e] + h
        Nm = dict(N); Nm[e] = N[e] - h
        out.append((ph.Gtot(Np) - ph.Gtot(Nm)) / (2 * h))
    return out


def stub_dmu(ph, X, els, h2=Dm('1e-12')):
    """P[a][b] = d mu_a / d N_b at N = X (one mole of atoms), by central differences"""
    getcontext().prec = 70
    N = {e: Dm(float(x)) for e, x in zip(els, X)}
    n = len(els)
    P = np.zeros((n, n))
    for jb, eb in enumerate(els):
        Np = dict(N); Np[eb] += h2
        Nm = dict(N); Nm[eb] -= h2
        mp_, mm_ = stub_mu(ph, Np, els), stub_mu(ph, Nm, els)
        for ia in range(n):
            P[ia, jb] = float((mp_[ia] - mm_[ia]) / (2 * h2))
    mu = np.array([float(m) for m in stub_mu(ph, N, els)])
    return mu, P


def total_from_partial(P, r):
    """dmu_a/dx_b at constant total (reference r compensates), relative to the reference potential"""
    n = len(P)
    nr = [i for i in range(n) if i != r]
    return np.array([[(P[a, b] - P[a, r]) - (P[r, b] - P[r, r]) for b in nr] for a in nr])


# ------------------------------------------------------------------------------------------
# generators
def _simplex(rng, n, lo):
    w = rng.dirichlet(np.ones(n) * float(rng.choice([0.5, 1.0, 3.0])))
    w = lo + (1 - n * lo) * w
    return w


def gen_layout(rng, kind, quick=False):
    # (the exact inverse of the bordered matrix dominates the run time: fewer 5-6 element systems in the quick tier)
    nsub = int(rng.choice([1, 2, 3, 4], p=[0.08, 0.44, 0.42, 0.06] if quick else [0.08, 0.37, 0.4, 0.15]))
    nint = 0 if kind == 'exact' else int(rng.choice([0, 1, 2], p=[0.55, 0.33, 0.12]))
    if nsub + nint < 2:
        nsub = 2
    subs = sorted(rng.choice(SUBS_POOL, nsub, replace=False).tolist())
    ints = sorted(rng.choice(INTERSTITIALS, nint, replace=False).tolist())
    return subs, ints


def gen_case(rng, idx, quick, kind=None):
    """one duck-typed composition set + mobilities; kinds:
       exact   substitutional, dyadic numbers (binary64 arithmetic of the mobility matrix is exact)
       random  arbitrary numbers in every slot (index arithmetic, dictionaries, shapes)
       stub    data of a closed-form sublattice solution at one of its states (search oracle applies)
       singular  two elements with identical formula-unit data: the bordered matrix has no inverse"""
    if kind is None:
        kind = str(rng.choice(['exact', 'random', 'stub', 'singular'], p=[0.2, 0.4, 0.36, 0.04]))
    subs, ints = gen_layout(rng, kind, quick)
    if kind == 'singular' and len(subs) < 2:
        subs = sorted(set(subs) | {'NI', 'FE'})[:2]
    els = sorted(subs + ints)
    n = len(els)
    c = {'kind': kind, 'elements': els, 'n': n}
    inter = [e in INTERSTITIALS for e in els]
    # ---- sublattices
    stub = kind == 'stub'
    vasub = (not stub) and kind != 'exact' and rng.random() < 0.15            # a vacancy on the substitutional sublattice
    int_sl = {e: (1 if stub else int(rng.choice([1, 2]))) for e in ints}
    sls = sorted(set(int_sl.values()))
    sl_va = {s: (True if stub else rng.random() < 0.9) for s in sls}   # without a vacancy the bordered matrix is structurally singular
    if not ints and rng.random() < (0.6 if stub else 0.5):
        sls, sl_va = [1], {1: True}                       # (subst)(VA), as FCC_A1 in the shipped databases
    variables = [(e, 0) for e in subs] + ([('VA', 0)] if vasub else [])
    for s in sls:
        variables += [(e, s) for e in ints if int_sl[e] == s] + ([('VA', s)] if sl_va[s] else [])
    if not stub and rng.random() < 0.3:
        variables = [variables[i] for i in rng.permutation(len(variables))]
    svs = [str(s) for s in (rng.permutation(['N', 'P', 'T']) if rng.random() < 0.3 else ['N', 'P', 'T'])]
    if rng.random() < 0.5:
        svs = ['GE'] + svs
    Tk = float(rng.choice([512.0, 1024.0])) if kind == 'exact' else float(rng.uniform(300, 1800))
    svval = {'GE': 0.0, 'N': 1.0, 'P': 101325.0, 'T': Tk}
    c.update(variables=variables, svs=svs, T=Tk)
    nsv, p = len(svs), len(variables)
    if quick and p + len(set(s_ for _, s_ in variables)) + n + 1 > 13:
        # the exact inverse costs ~N^4.5: bordered matrices larger than 13 x 13 (0.5 s) are left to the thorough tier (16 x 16: 15 s)
        return gen_case(rng, idx, quick, kind)
    # ---- site fractions and mole fractions
    y = np.zeros(p)
    groups = {}
    for i, (nm, s) in enumerate(variables):
        groups.setdefault(s, []).append(i)
    a_ratio = {0: 1.0}
    for s in sls:
        a_ratio[s] = float(rng.choice([1.0, 3.0, 0.5])) if not stub else float(rng.choice([1.0, 3.0, 0.5, 0.25]))
    if kind == 'exact':
        k = len(groups[0])
        parts = rng.multinomial(16 - k, np.ones(k) / k) + 1
        y[groups[0]] = parts / 16.0
        for s in sls:
            y[groups[s]] = 1.0
    else:
        for s, ids in groups.items():
            if s == 0:
                lo = float(rng.choice([1e-6, 1e-3, 0.02]))
                w = _simplex(rng, len(ids), lo)
                if vasub:
                    # vacancy on the substitutional sublattice: a small fraction
                    iva = [i for i in ids if variables[i][0] == 'VA'][0]
                    w = _simplex(rng, len(ids) - 1, lo) * (1 - 1e-4)
                    y[[i for i in ids if i != iva]] = w
                    y[iva] = 1e-4
                else:
                    y[ids] = w
            else:
                iva = [i for i in ids if variables[i][0] == 'VA']
                others = [i for i in ids if variables[i][0] != 'VA']
                if others:
                    tot = float(rng.choice([10 ** rng.uniform(-5, -1), rng.uniform(0.1, 0.9)]))
                    if not iva:
                        tot = 1.0
                    y[others] = tot * rng.dirichlet(np.ones(len(others)))
                if iva:
                    y[iva[0]] = 1.0 - y[others].sum() if others else 1.0
    moles = np.zeros(n)
    dxdy_y = np.zeros((n, p))
    for a, e in enumerate(els):
        for i, (nm, s) in enumerate(variables):
            if nm == e:
                moles[a] += a_ratio[s] * y[i]
                dxdy_y[a, i] = a_ratio[s]
    X = moles / moles.sum()
    c['dof'] = [svval[s] for s in svs] + [float(v) for v in y]
    c['X'] = [float(v) for v in X]
    # ---- mobilities
    if kind == 'exact':
        raw = [float(rng.integers(1, 16)) * 2.0 ** int(rng.integers(-70, -50)) for _ in els]
        corr = None if rng.random() < 0.5 else [float(rng.choice([0.5, 1.0, 2.0, 4.0])) if rng.random() < 0.7 else None for _ in els]
    else:
        raw = [float(10 ** rng.uniform(-26, -12)) for _ in els]
        corr = None if rng.random() < 0.5 else [float(10 ** rng.uniform(-1, 1)) if rng.random() < 0.7 else None for _ in els]
    c.update(raw=raw, corr=corr, vp=bool(rng.random() < 0.3), inter=inter)
    subs_idx = [a for a in range(n) if not inter[a]]
    c['ref'] = int(rng.choice(subs_idx)) if (rng.random() < 0.92 or stub) else int(rng.integers(0, n))
    # ---- phase record data for the bordered matrix
    nd = nsv + p
    ncons = len(groups)
    cons = np.zeros((ncons, nd))
    for q, s in enumerate(sorted(groups)):
        cons[q, [nsv + i for i in groups[s]]] = 1.0
    if stub:
        n1 = len(subs)
        ph = StubPhase(subs, ints, 1.0, a_ratio.get(1, 1.0),
                       [float(rng.uniform(-2e4, 2e4)) for _ in subs], [float(rng.uniform(-2e4, 2e4)) for _ in ints] + [0.0] * (1 if sls else 0),
                       [[float(rng.uniform(-1, 1) * rng.choice([3e3, 1.5e4, 4e4])) if j > i else 0.0 for j in range(n1)] for i in range(n1)],
                       [[float(rng.uniform(-2e4, 2e4)) for _ in ints] + [0.0] * (1 if sls else 0) for _ in subs],
                       Tk, bool(sls))
        y1 = [y[i] for i in groups[0]]
        y2 = [y[i] for i in groups.get(1, [])]
        g, H = ph.grad_hess(y1, y2)
        d2g = rng.normal(size=(nd, nd)) * 1e4         # state-variable rows/columns: junk that must be ignored
        d2g[nsv:, nsv:] = H
        dg = rng.normal(size=nd) * 1e3
        dg[nsv:] = g
        dxdy = rng.normal(size=(n, nd)) * 10
        dxdy[:, nsv:] = dxdy_y
        mu, Pfd = stub_dmu(ph, X, els)
        c['stub'] = {'P_fd': Pfd.tolist()}
        moleA = moles
    else:
        for attempt in range(40):
            if kind == 'exact':
                A = rng.integers(-4, 5, (nd, nd)).astype(float)
                d2g = A + A.T + np.diag(rng.integers(8, 20, nd).astype(float)) * 4
                dg = rng.integers(-8, 9, nd).astype(float)
                dxdy = rng.integers(-2, 3, (n, nd)).astype(float)
                dxdy[:, nsv:] += dxdy_y
                moleA = rng.integers(1, 8, n).astype(float)
                mu = rng.integers(-8, 9, n).astype(float)
            else:
                sc = float(10 ** rng.uniform(0, 5))
                A = rng.normal(size=(nd, nd))
                d2g = (A + A.T) * sc * 0.3 + np.diag(rng.uniform(1, 3, nd)) * sc
                if rng.random() < 0.15:
                    d2g = d2g + rng.normal(size=(nd, nd)) * sc * 0.05     # not symmetric: the code does not require it
                dg = rng.normal(size=nd) * sc
                lone = any(len(ids) == 1 and variables[ids[0]][0] != 'VA' for ids in groups.values())
                dxdy = dxdy_y_full(rng, dxdy_y, nsv) if (rng.random() < 0.6 and not lone) else rng.normal(size=(n, nd))
                moleA = moles.copy() if rng.random() < 0.6 else rng.uniform(0.05, 2, n)
                mu = rng.normal(size=n) * sc
            if kind == 'singular':
                a, b = subs_idx[0], subs_idx[1]
                dxdy[b] = dxdy[a]
                moleA[b] = moleA[a]
                break
            cc = dict(c, d2g=d2g.tolist(), dg=dg.tolist(), dxdy=dxdy.tolist(), moleA=list(moleA), cons=cons.tolist())
            from kawin.thermo.FreeEnergyHessian import hessian
            K = hessian(mu, FakeCS(cc))
            if np.all(np.isfinite(K)) and np.linalg.cond(K) < 1e5:
                break
    c.update(d2g=np.asarray(d2g).tolist(), dg=[float(v) for v in dg], dxdy=np.asarray(dxdy).tolist(),
             moleA=[float(v) for v in moleA], cons=cons.tolist(), mu=[float(v) for v in mu])
    # user element order for the Thermodynamics wrappers: reference first, solutes in any order
    sol = [e for i, e in enumerate(els) if i != c['ref']]
    c['user_solutes'] = [sol[i] for i in rng.permutation(len(sol))]
    # functions of temperature the user attaches through setMobility / setDiffusivity: A_e * exp(-Q_e / (R T)), different
    # for every element and for each of the two phases of the scripted thermodynamics object
    c['user_fn'] = {ph: {'A': [float(10 ** rng.uniform(-12, -4)) for _ in els], 'Q': [float(rng.uniform(5e4, 3e5)) for _ in els]} for ph in PHASES}
    c['user_fn']['order'] = [int(i) for i in rng.permutation(n)]
    c['arrays'] = gen_arrays(rng, c)
    return c


def gen_arrays(rng, c):
    """array calls of getInterdiffusivity / getTracerDiffusivity on a thermodynamics object whose single-point answer is a
    known function of (x, T): a regular solution of the substitutional elements of the case, user functions as mobilities.
    Scenarios: separated points; fine temperature ramps; slowly drifting compositions; repeated points; one composition
    with many temperatures and the reverse; incompatible lengths"""
    els = c['elements']
    subs = [e for e, it in zip(els, c['inter']) if not it]
    if len(subs) < 2 or c['inter'][c['ref']]:
        return None
    user = [els[c['ref']]] + [e for e in c['user_solutes'] if e in subs]
    ns = len(user) - 1
    reg = {'G': [float(rng.uniform(-2e4, 2e4)) for _ in subs],
           'L': [[float(rng.uniform(-1, 1) * rng.choice([2e3, 8e3])) if j > i else 0.0 for j in range(len(subs))] for i in range(len(subs))]}

    def base():
        w = rng.dirichlet(np.ones(ns + 1) * 2.0) * 0.9 + 0.1 / (ns + 1)
        return [float(v) for v in w[1:]], float(rng.uniform(600, 1500))
    scen = []
    x0, T0 = base()
    pts = [base() for _ in range(3)]
    scen.append({'kind': 'separated', 'x': [p[0] for p in pts], 'T': [p[1] for p in pts]})
    m = int(rng.integers(3, 7))
    dT = float(10 ** rng.uniform(-3.5, -1.7)) * float(rng.choice([-1, 1]))
    scen.append({'kind': 'T_ramp', 'x': [list(x0)] * m, 'T': [T0 + k * dT for k in range(m)]})
    scen.append({'kind': 'T_ramp_one_x', 'x': [list(x0)], 'T': [T0 + k * dT for k in range(m)]})
    x1, T1 = base()
    dx = float(10 ** rng.uniform(-9, -6.3))
    j = int(rng.integers(0, ns))
    drift = [[v + (k * dx if i == j else 0.0) for i, v in enumerate(x1)] for k in range(m)]
    scen.append({'kind': 'x_drift', 'x': drift, 'T': [T1] * m})
    scen.append({'kind': 'x_drift_one_T', 'x': drift, 'T': [T1]})
    scen.append({'kind': 'repeats', 'x': [x0, x0, x1, x1, x0], 'T': [T0, T0, T1, T1 * (1 + 2e-6), T0]})
    scen.append({'kind': 'single', 'x': [x0], 'T': [T0]})
    scen.append({'kind': 'mismatch', 'x': [x0, x1, x0], 'T': [T0, T1]})
    for sc in scen:
        sc['removeCache'] = bool(rng.random() < 0.5)
    return {'subs': subs, 'user': user, 'reg': reg, 'scenarios': scen}


def dxdy_y_full(rng, dxdy_y, nsv):
    n = dxdy_y.shape[0]
    out = rng.normal(size=(n, nsv + dxdy_y.shape[1]))
    out[:, nsv:] = dxdy_y
    return out


def corpus_cases():
    out = []
    p = os.path.join(VERIF, 'corpus', 'C10')
    if os.path.isdir(p):
        for f in sorted(os.listdir(p)):
            if f.endswith('.json'):
                obj = json.load(open(os.path.join(p, f)))
                if 'input' not in obj:
                    continue                    # a database scenario (see shared_database_check)
                c = unhexcase(obj['input'])
                c['kind'] = 'corpus:' + f + ':' + c.get('kind', '')
                out.append(c)
    return out


def corpus_scenarios():
    out = []
    p = os.path.join(VERIF, 'corpus', 'C10')
    if os.path.isdir(p):
        for f in sorted(os.listdir(p)):
            if f.endswith('.json'):
                obj = json.load(open(os.path.join(p, f)))
                if 'scenario' in obj:
                    out.append(dict(obj['scenario'], origin='corpus:' + f))
    return out


FLOAT_KEYS = ('dof', 'X', 'raw', 'dg', 'moleA', 'mu')
MAT_KEYS = ('d2g', 'dxdy', 'cons')


def hexcase(c):
    d = {k: v for k, v in c.items() if k not in ('stub',)}
    for k in FLOAT_KEYS:
        d[k] = [hexf(x) for x in c[k]]
    for k in MAT_KEYS:
        d[k] = [[hexf(x) for x in row] for row in c[k]]
    d['corr'] = None if c['corr'] is None else [None if f is None else hexf(f) for f in c['corr']]
    d['T'] = hexf(c['T'])
    d['decimal'] = {'X': c['X'], 'raw': c['raw'], 'T': c['T'], 'dof': c['dof']}
    if 'stub' in c:
        d['stub'] = c['stub']
    return d


def unhexcase(d):
    fx = lambda x: float.fromhex(x) if isinstance(x, str) else float(x)
    c = {k: v for k, v in d.items() if k != 'decimal'}
    for k in FLOAT_KEYS:
        c[k] = [fx(x) for x in d[k]]
    for k in MAT_KEYS:
        c[k] = [[fx(x) for x in row] for row in d[k]]
    c['corr'] = None if d['corr'] is None else [None if f is None else fx(f) for f in d['corr']]
    c['T'] = fx(d['T'])
    c['variables'] = [tuple(v) for v in d['variables']]
    return c


# ------------------------------------------------------------------------------------------
# implementation
def err_enum(e):
    return type(e).__name__ if type(e).__name__ in ('ValueError', 'IndexError', 'KeyError', 'TypeError', 'AttributeError', 'ZeroDivisionError', 'LinAlgError') else 'other:' + type(e).__name__


class FakeTherm:
    """GeneralThermodynamics with the pycalphad parts replaced: getLocalEq returns the prepared composition set"""
    def __new__(cls, c):
        from kawin.thermo.Thermodynamics import GeneralThermodynamics

        class _T(GeneralThermodynamics):
            def __init__(self, c):
                self.elements = [c['elements'][c['ref']]] + list(c['user_solutes']) + ['VA']
                self.numElements = len(self.elements) - 1
                self.phases = ['MATRIX']
                self._diffusivity_cache = {}
                self.mobCallables = {'MATRIX': callables_of(c)}
                self.diffCallables = {'MATRIX': None}
                self.mobility_correction = {e: f for e, f in zip(c['elements'], corr_vec(c))}
                self.mobility_correction['VA'] = 1
                self.vacancyPoorInterstitialSublattice = {'MATRIX': c['vp']}
                self._parameters = {}
                self._c = c

            def getLocalEq(self, x, T, gExtra=0, precPhase=None, composition_sets=None):
                return types.SimpleNamespace(chemical_potentials=np.array(self._c['mu'])), [FakeCS(self._c)]
        return _T(c)


PHASES = ['MATRIX', 'SECOND']


def std_case(c):
    """the same composition set with the state variables in kawin's own order (GE, N, P, T): the public setters wrap the
    user's f(T) as  lambda dof: f(dof[stateVariables.index(T)])"""
    n0, p = len(c['svs']), len(c['variables'])
    d = {k: v for k, v in c.items() if k != 'stub'}
    d['svs'] = ['GE', 'N', 'P', 'T']
    d['dof'] = [0.0, 1.0, 101325.0, c['T']] + list(c['dof'][n0:])

    def cols(A):
        A = np.atleast_2d(np.asarray(A, float))
        out = np.full((A.shape[0], 4 + p), 7.0)        # state-variable columns: must be ignored
        out[:, 4:] = A[:, n0:]
        return out
    d2 = np.full((4 + p, 4 + p), -3.0)
    d2[4:, 4:] = np.asarray(c['d2g'], float)[n0:, n0:]
    d['d2g'] = d2.tolist()
    d['dg'] = cols([c['dg']])[0].tolist()
    d['dxdy'] = cols(c['dxdy']).tolist()
    cons = cols(c['cons'])
    cons[:, :4] = 0.0
    d['cons'] = cons.tolist()
    return d


def user_value(c, ph, a, T):
    """value at temperature T of the function attached to element a (alphabetical position) in phase ph"""
    return c['user_fn'][ph]['A'][a] * np.exp(-c['user_fn'][ph]['Q'][a] / (RGAS * T))


def user_function(c, ph, a):
    A, Q = c['user_fn'][ph]['A'][a], c['user_fn'][ph]['Q'][a]
    return lambda T: A * np.exp(-Q / (RGAS * T))


def run_setters(c):
    """public setters and the phase= argument: a scripted two-phase GeneralThermodynamics (each phase with its own
    functions, vacancy convention and database callables); returns one record per (path, mode, phase argument)"""
    from kawin.thermo.Thermodynamics import GeneralThermodynamics
    from kawin.thermo import Mobility as MB
    cstd = std_case(c)
    els = c['elements']
    user_all = [els[c['ref']]] + list(c['user_solutes'])
    vps = {'MATRIX': c['vp'], 'SECOND': not c['vp']}

    class _T(GeneralThermodynamics):
        def __init__(self):
            self.elements = user_all + ['VA']
            self.numElements = len(self.elements) - 1
            self.phases = list(PHASES)
            self._diffusivity_cache = {}
            self.mobCallables = {ph: None for ph in PHASES}
            self.diffCallables = {ph: None for ph in PHASES}
            self.mobility_correction = {e: f for e, f in zip(els, corr_vec(c))}
            self.mobility_correction['VA'] = 1
            self.vacancyPoorInterstitialSublattice = dict(vps)
            self._parameters = {}
            self.requested = []

        def getLocalEq(self, x, T, gExtra=0, precPhase=None, composition_sets=None):
            self.requested.append(list(precPhase) if isinstance(precPhase, (list, tuple)) else precPhase)
            return types.SimpleNamespace(chemical_potentials=np.array(c['mu'])), [FakeCS(cstd)]

    recs = []
    x = [0.1] * (len(els) - 1)
    xq = x if len(x) > 1 else x[0]
    T = c['T']
    for path in ('mob', 'diff'):
        for mode in ('single', 'dict', 'element'):
            th = _T()
            setter = th.setMobility if path == 'mob' else th.setDiffusivity
            store = th.mobCallables if path == 'mob' else th.diffCallables
            for ph in PHASES:
                if mode == 'single':
                    setter(user_function(c, ph, 0), ph)
                elif mode == 'dict':
                    setter({e: user_function(c, ph, els.index(e)) for e in user_all}, ph)
                else:
                    # callables as read from a database (functions of the dof array), then every element replaced in turn
                    store[ph] = {e: (lambda dof, m=m: m) for e, m in zip(els, c['raw'])}
                    for a in c['user_fn']['order']:
                        setter({e: user_function(c, ph, els.index(e)) for e in user_all}, ph, element=els[a])
            for arg in (None, 'MATRIX', 'SECOND'):
                P = arg or 'MATRIX'
                rec = {'path': path, 'mode': mode, 'phase_arg': arg, 'err': None}
                try:
                    th.requested = []
                    rec['tr'] = np.atleast_1d(np.array(th.getTracerDiffusivity(xq, T, phase=arg), float)).tolist()
                    rec['D'] = np.atleast_2d(np.array(th.getInterdiffusivity(xq, T, phase=arg), float)).tolist()
                    rec['requested'] = th.requested
                    if path == 'mob':
                        # Mobility.interdiffusivity (tied to the Coq model by the correspondence) with the user's own values
                        for Q in PHASES:
                            vals = [user_value(c, Q, 0 if mode == 'single' else a, T) for a in range(len(els))]
                            D, _ = MB.interdiffusivity(np.array(c['mu']), FakeCS(cstd), els[c['ref']], {e: (lambda dof, m=m: m) for e, m in zip(els, vals)},
                                                       corr_of(c), vacancy_poor_interstitial_sublattice=vps[Q])
                            rec['D_direct_' + Q] = np.array(D).tolist()
                except Exception as e:
                    rec['err'] = err_enum(e) + ': ' + str(e)[:200]
                recs.append(rec)
    return recs


def reg_point(ar, user, xsol, T):
    """regular solution  G = sum y G_i + RT sum y ln y + sum_{i<j} L_ij y_i y_j  of the substitutional elements at the
    composition xsol (solutes, user order) and temperature T -> the composition-set data a phase record would supply"""
    subs = ar['subs']
    yu = [1.0 - float(np.sum(xsol))] + [float(v) for v in np.ravel(xsol)]
    y = np.array([yu[user.index(e)] for e in subs])
    ph = StubPhase(subs, [], 1.0, 1.0, ar['reg']['G'], [], ar['reg']['L'], [[] for _ in subs], T, False)
    g, H = ph.grad_hess(list(y), [])
    mu = g - float(y @ g) + (float(np.dot(y, ar['reg']['G'])) + RGAS * T * float(np.sum(y * np.log(y))) + float(y @ np.array(ar['reg']['L']) @ y))
    p = len(subs)
    d2g = np.full((4 + p, 4 + p), 11.0)
    d2g[4:, 4:] = H
    dxdy = np.full((p, 4 + p), -5.0)
    dxdy[:, 4:] = np.eye(p)
    cons = np.zeros((1, 4 + p))
    cons[0, 4:] = 1.0
    return {'elements': subs, 'svs': ['GE', 'N', 'P', 'T'], 'variables': [(e, 0) for e in subs], 'dof': [0.0, 1.0, 101325.0, float(T)] + [float(v) for v in y],
            'X': [float(v) for v in y], 'd2g': d2g.tolist(), 'dg': [0.0] * 4 + [float(v) for v in g], 'dxdy': dxdy.tolist(),
            'moleA': [float(v) for v in y], 'cons': cons.tolist(), 'mu': [float(v) for v in mu]}


def reg_expected(c, xsol, T, corr=None, fn_phase='MATRIX'):
    """closed form, no kawin code: tracer = R T M_e(T); interdiffusivity = (volume-fixed Onsager matrix) * (second
    derivative of G with respect to the solute fractions, reference compensating) - Darken's relation for a binary"""
    ar = c['arrays']
    user, subs, els = ar['user'], ar['subs'], c['elements']
    corr = dict(zip(els, corr_vec(c))) if corr is None else corr
    Xu = np.array([1.0 - float(np.sum(xsol))] + [float(v) for v in np.ravel(xsol)])
    Mu = np.array([corr[e] * user_value(c, fn_phase, els.index(e), T) for e in user])
    Lr = np.array(ar['reg']['L'])
    Lr = Lr + Lr.T
    iu = [subs.index(e) for e in user]
    ns = len(user) - 1
    H = np.zeros((ns, ns))
    for a in range(1, ns + 1):
        for b in range(1, ns + 1):
            H[a - 1, b - 1] = RGAS * T * ((1.0 / Xu[a] if a == b else 0.0) + 1.0 / Xu[0]) + (Lr[iu[a], iu[b]] if a != b else 0.0) - Lr[iu[a], iu[0]] - Lr[iu[b], iu[0]]
    Lo = np.array([[sum(((1.0 if a == i else 0.0) - Xu[a]) * ((1.0 if b == i else 0.0) - Xu[b]) * Xu[i] * Mu[i] for i in range(ns + 1))
                    for b in range(1, ns + 1)] for a in range(1, ns + 1)])
    return RGAS * T * Mu, Lo @ H


def point_therm(c, corr=None, fn_phase='MATRIX'):
    """scripted GeneralThermodynamics whose local equilibrium is a function of (x, T) (regular solution of the case's
    substitutional elements); like pycalphad it re-solves a composition set it is handed IN PLACE and returns the same
    object; mobilities = the user functions of fn_phase attached through setMobility"""
    from kawin.thermo.Thermodynamics import GeneralThermodynamics
    ar = c['arrays']
    user, els = ar['user'], c['elements']
    corr = dict(zip(els, corr_vec(c))) if corr is None else dict(corr)

    class _T(GeneralThermodynamics):
        def __init__(self):
            self.elements = user + ['VA']
            self.numElements = len(user)
            self.phases = ['MATRIX']
            self._diffusivity_cache = {}
            self.mobCallables = {'MATRIX': None}
            self.diffCallables = {'MATRIX': None}
            self.mobility_correction = dict(corr)
            self.mobility_correction['VA'] = 1
            self.vacancyPoorInterstitialSublattice = {}
            self._parameters = {}
            self.points = []
            self.reused = 0

        def getLocalEq(self, x, T, gExtra=0, precPhase=None, composition_sets=None):
            self.points.append(([float(v) for v in np.ravel(x)], float(T)))
            d = reg_point(ar, user, np.ravel(x), float(T))
            if composition_sets:
                composition_sets[0].update(d)
                self.reused += 1
                return types.SimpleNamespace(chemical_potentials=np.array(d['mu'])), composition_sets
            return types.SimpleNamespace(chemical_potentials=np.array(d['mu'])), [FakeCS(d)]

    th = _T()
    th.setMobility({e: user_function(c, fn_phase, els.index(e)) for e in user}, 'MATRIX')
    return th


def run_arrays(c):
    """array calls through the public getters; the local equilibrium is scripted as a function of (x, T)"""
    from kawin.thermo.Thermodynamics import GeneralThermodynamics
    ar = c.get('arrays')
    if not ar:
        return None
    user, els = ar['user'], c['elements']

    th = point_therm(c)
    ns = len(user) - 1
    recs = []
    for sc in ar['scenarios']:
        xs = [list(v) for v in sc['x']]
        xarg = [v[0] for v in xs] if ns == 1 else xs          # binary: an array of numbers; multicomponent: rows
        if ns == 1 and len(xs) == 1:
            xarg = xs[0][0]
        Targ = sc['T'] if len(sc['T']) > 1 else sc['T'][0]
        rec = {'kind': sc['kind'], 'lx': len(xs), 'lT': len(sc['T']), 'err': None}
        for name, fn in (('D', th.getInterdiffusivity), ('tr', th.getTracerDiffusivity)):
            try:
                th.points = []
                out = np.array(fn(xarg, Targ, removeCache=sc['removeCache']), float)
                rec[name] = out.tolist()
                rec[name + '_points'] = th.points
            except Exception as e:
                rec[name] = None
                rec[name + '_err'] = err_enum(e)
        recs.append(rec)
    return recs


def history_hits(c):
    """calling conventions, histories on one object, objects used interleaved, module functions on a composition set that is
    re-solved in place: every value is compared with the closed form of ITS point and ITS object's final configuration
    (and the conventions with each other).  -> (clause, site, cls, message)"""
    from kawin.thermo import Mobility as MB, FreeEnergyHessian as FH
    ar = c.get('arrays')
    if not ar:
        return []
    v, seen = [], set()
    user, els = ar['user'], c['elements']
    ns = len(user) - 1
    sep = [s_ for s_ in ar['scenarios'] if s_['kind'] == 'separated'][0]
    pts = [(list(x), float(T)) for x, T in zip(sep['x'], sep['T'])]
    corr0 = dict(zip(els, corr_vec(c)))

    def hit(clause, cls, msg):
        if (clause, cls) not in seen:
            seen.add((clause, cls))
            v.append((clause, SITE_T, cls, msg))

    def xarg_of(x):
        return x[0] if ns == 1 else list(x)

    def check(tag, cls, got_D, got_tr, x, T, corr, fnp):
        tr, D = reg_expected(c, x, T, corr, fnp)
        for nm, got, want in (('getInterdiffusivity', got_D, D), ('getTracerDiffusivity', got_tr, tr)):
            if got is None:
                continue
            got = np.array(got, float)
            if got.size != np.size(want):
                hit('calling_convention' if cls.startswith('convention') else 'object_history', cls + ' shape', '%s: %s returned an array of size %d for one point (x=%r, T=%r)' % (tag, nm, got.size, x, T))
                continue
            err = float(np.max(np.abs(got.reshape(np.shape(want)) - want)) / np.max(np.abs(want)))
            if err > 1e-11:
                hit('calling_convention' if cls.startswith('convention') else 'object_history', cls + ' ' + nm,
                    '%s: %s at x=%r, T=%r (elements %r) returned %r; closed form for this point and this object (corrections %r) = %r, relative difference %.3g'
                    % (tag, nm, x, T, user, got.tolist(), {e: corr[e] for e in user}, np.array(want).tolist(), err))

    try:
        # ---- (a) calling conventions on one point; argument objects unchanged and re-used
        th = point_therm(c)
        x0, T0 = pts[0]
        Ti = float(int(T0))
        forms_x = [('list', list(x0)), ('tuple', tuple(x0)), ('1-d array', np.array(x0, float)), ('2-d array', np.array([x0], float)), ('list of lists', [list(x0)])]
        if ns == 1:
            forms_x += [('float', float(x0[0])), ('numpy scalar', np.float64(x0[0])), ('0-d array', np.array(x0[0]))]
        forms_T = [('float', Ti), ('int', int(Ti)), ('numpy float', np.float64(Ti)), ('numpy int', np.int64(Ti)), ('0-d array', np.array(Ti)), ('list', [Ti]), ('1-d array', np.array([Ti]))]
        for (nx, xa) in forms_x:
            for (nT, Ta) in forms_T[:3] if nx not in ('list', 'float') else forms_T:
                keep_x = copy.deepcopy(xa); keep_T = copy.deepcopy(Ta)
                for how, call in (('positional', lambda f: f(xa, Ta)), ('keyword', lambda f: f(x=xa, T=Ta, removeCache=True, phase=None)),
                                  ('positional optional', lambda f: f(xa, Ta, True, 'MATRIX')), ('keep cache', lambda f: f(xa, Ta, removeCache=False))):
                    try:
                        gD, gt = call(th.getInterdiffusivity), call(th.getTracerDiffusivity)
                    except Exception as e:
                        if err_enum(e) != 'LinAlgError':
                            hit('calling_convention', 'convention raises', 'getInterdiffusivity/getTracerDiffusivity with x as %s, T as %s (%s): %s: %s' % (nx, nT, how, err_enum(e), str(e)[:150]))
                        continue
                    check('x as %s, T as %s, %s arguments' % (nx, nT, how), 'convention', gD, gt, x0, Ti, corr0, 'MATRIX')
                if not (np.array_equal(np.asarray(keep_x), np.asarray(xa)) and np.array_equal(np.asarray(keep_T), np.asarray(Ta))):
                    hit('calling_convention', 'argument modified', 'the %s passed as x or the %s passed as T was modified by the call (x now %r, T now %r)' % (nx, nT, xa, Ta))
        # ---- (b) history on ONE object: query, setter, query again; kept composition sets (removeCache=False) along a path
        th = point_therm(c)
        corr = dict(corr0)

        def q(th_, x, T, rc, corr_, fnp, tag, cls='history'):
            try:
                gD = th_.getInterdiffusivity(xarg_of(x), T, removeCache=rc)
                gt = th_.getTracerDiffusivity(xarg_of(x), T, removeCache=rc)
            except Exception as e:
                if err_enum(e) != 'LinAlgError':
                    hit('object_history', cls + ' raises', '%s: %s: %s' % (tag, err_enum(e), str(e)[:150]))
                return
            check(tag, cls, gD, gt, x, T, corr_, fnp)
        for k, (x, T) in enumerate(pts + pts[:1]):
            q(th, x, T, False, corr, 'MATRIX', 'point %d of a path followed with removeCache=False (composition set re-solved in place, re-used %d times so far)' % (k, th.reused), 'history kept composition set')
        e1 = user[min(1, ns)]
        th.setMobilityCorrection(e1, 3.0); corr[e1] = 3.0
        q(th, pts[0][0], pts[0][1], True, corr, 'MATRIX', "after setMobilityCorrection(%r, 3.0)" % e1, 'history setMobilityCorrection')
        q(th, pts[1][0], pts[1][1], False, corr, 'MATRIX', "after setMobilityCorrection(%r, 3.0), removeCache=False" % e1, 'history setMobilityCorrection')
        th.setMobilityCorrection('all', 0.25); corr = {e: 0.25 for e in corr}
        q(th, pts[1][0], pts[1][1], False, corr, 'MATRIX', "after setMobilityCorrection('all', 0.25)", 'history setMobilityCorrection')
        th.setMobility({e: user_function(c, 'SECOND', els.index(e)) for e in user}, 'MATRIX')
        q(th, pts[2][0], pts[2][1], False, corr, 'SECOND', 'after setMobility(other functions)', 'history setMobility')
        th.clearCache()
        q(th, pts[0][0], pts[0][1], True, corr, 'SECOND', 'after clearCache()', 'history clearCache')
        # ---- (c) two objects alive together, configured differently, used interleaved
        cA, cB = dict(corr0), {e: 1.0 for e in corr0}
        A, B = point_therm(c, cA, 'MATRIX'), point_therm(c, cB, 'SECOND')
        q(A, pts[0][0], pts[0][1], False, cA, 'MATRIX', 'object A, first query', 'interleaved objects')
        q(B, pts[0][0], pts[0][1], False, cB, 'SECOND', 'object B, first query', 'interleaved objects')
        A.setMobilityCorrection(user[0], 7.0); cA[user[0]] = 7.0
        q(B, pts[1][0], pts[1][1], False, cB, 'SECOND', 'object B after A.setMobilityCorrection(%r, 7.0)' % user[0], 'interleaved objects')
        q(A, pts[1][0], pts[1][1], False, cA, 'MATRIX', 'object A after its setMobilityCorrection(%r, 7.0)' % user[0], 'interleaved objects')
        B.setMobilityCorrection('all', 0.5); cB = {e: 0.5 for e in cB}
        Cc = dict(corr0)
        C = point_therm(c, Cc, 'MATRIX')
        q(C, pts[2][0], pts[2][1], True, Cc, 'MATRIX', "object C built after B.setMobilityCorrection('all', 0.5)", 'interleaved objects')
        q(A, pts[2][0], pts[2][1], False, cA, 'MATRIX', "object A after B.setMobilityCorrection('all', 0.5)", 'interleaved objects')
        q(B, pts[2][0], pts[2][1], False, cB, 'SECOND', "object B after its setMobilityCorrection('all', 0.5)", 'interleaved objects')
        # ---- (d) module functions on a composition set that is re-solved in place between the calls
        d0, d1 = reg_point(ar, user, pts[0][0], pts[0][1]), reg_point(ar, user, pts[1][0], pts[1][1])
        mob = {e: (lambda dof, m=m: m) for e, m in zip(ar['subs'], [1e-16 * (k + 1) for k in range(len(ar['subs']))])}
        cs = FakeCS(d0)
        ref = user[0]
        fns = [('dMudX', lambda cs_, d: FH.dMudX(np.array(d['mu']), cs_, ref)), ('partialdMudX', lambda cs_, d: FH.partialdMudX(np.array(d['mu']), cs_)),
               ('hessian', lambda cs_, d: FH.hessian(np.array(d['mu']), cs_)), ('mobility_matrix', lambda cs_, d: MB.mobility_matrix(cs_, mob)),
               ('interdiffusivity', lambda cs_, d: MB.interdiffusivity(np.array(d['mu']), cs_, ref, mob)[0]), ('tracer_diffusivity', lambda cs_, d: MB.tracer_diffusivity(cs_, mob))]
        for nm, f in fns:
            cs.update(d0)
            f(cs, d0)
            cs.update(d1)
            got = np.array(f(cs, d1), float)
            want = np.array(f(FakeCS(d1), d1), float)
            if not np.allclose(got, want, rtol=1e-12, atol=0):
                hit('object_history', 'composition set re-solved in place ' + nm,
                    '%s called on a composition set at state 0 (x=%r, T=%r) and again after the SAME object was re-solved to state 1 (x=%r, T=%r) returns %r; on a new object holding state 1: %r'
                    % (nm, pts[0][0], pts[0][1], pts[1][0], pts[1][1], got.tolist(), want.tolist()))
    except AttributeError as e:
        # private access of the harness itself (scripted subclass): never a violation with an input
        raise RuntimeError('harness: scripted thermodynamics object no longer fits GeneralThermodynamics: %s' % e)
    return v


def array_terms(c, im):
    return ['(array_shape %d%%nat %d%%nat, array_points %d%%nat %d%%nat)' % (r['lx'], r['lT'], r['lx'], r['lT']) for r in (im.get('arr') or [])]


def array_oracle(c, im, model=None):
    """every entry of an array call is the closed-form value AT ITS OWN POINT; the number of entries and the points they belong
    to are those of the model (Coq: array_query); -> (clause, site, cls, message)"""
    v = []
    ar = c.get('arrays')
    recs = im.get('arr')
    if not ar or not recs:
        return v
    ns = len(ar['user']) - 1
    seen = set()
    for k, (sc, rec) in enumerate(zip(ar['scenarios'], recs)):
        lx, lT = rec['lx'], rec['lT']
        if lx == lT:
            pts = [(i, i) for i in range(lx)]
        elif lx == 1:
            pts = [(0, j) for j in range(lT)]
        elif lT == 1:
            pts = [(i, 0) for i in range(lx)]
        else:
            pts = None
        if model is not None:
            mshape, mpts = model[k]
            mp = None if mpts is None else [tuple(int(q) for q in pq) for pq in mpts[1]]
            if mp != pts or (mshape is None) != (pts is None):
                v.append(('correspondence', 'harness', 'array_points', 'harness and Coq model disagree on the points of an array call (%d, %d): %r vs %r' % (lx, lT, pts, mp)))
        for name, what in (('D', 'getInterdiffusivity'), ('tr', 'getTracerDiffusivity')):
            got = rec[name]
            if pts is None:
                if got is not None or rec.get(name + '_err') != 'ValueError':
                    v.append(('array_pointwise', SITE_T, what + ' incompatible lengths', '%s with %d compositions and %d temperatures: expected ValueError, got %r' % (what, lx, lT, rec.get(name + '_err') or got)))
                continue
            if got is None:
                if rec.get(name + '_err') != 'LinAlgError':
                    v.append(('no_internal_error', SITE_T, what + ' array', '%s (%s) raised %s' % (what, sc['kind'], rec.get(name + '_err'))))
                continue
            N = len(pts)
            got = np.array(got, float).reshape((N, ns, ns) if name == 'D' else (N, ns + 1)) if np.size(got) == (N * ns * ns if name == 'D' else N * (ns + 1)) else None
            if got is None:
                v.append(('array_pointwise', SITE_T, what + ' shape', '%s (%s): %d points asked, output of size %d' % (what, sc['kind'], N, int(np.size(rec[name])))))
                continue
            for n_, (i, j) in enumerate(pts):
                x, T = sc['x'][i], sc['T'][j]
                tr, D = reg_expected(c, x, T)
                want = D if name == 'D' else tr
                err = float(np.max(np.abs(got[n_] - want)) / np.max(np.abs(want)))
                if err > 1e-11 and (what, sc['kind']) not in seen:
                    seen.add((what, sc['kind']))
                    prev = ''
                    for m_ in range(n_):
                        if np.array_equal(got[n_], got[m_]):
                            prev = ' (it is the value returned for point %d: x=%r, T=%r)' % (m_, sc['x'][pts[m_][0]], sc['T'][pts[m_][1]])
                            break
                    v.append(('array_pointwise', SITE_T, what + ' ' + sc['kind'],
                              '%s array call (%s, removeCache=%r), point %d of %d (x=%r, T=%r, elements %r): returned %r, %s at this point = %r, relative difference %.3g%s'
                              % (what, sc['kind'], sc['removeCache'], n_, N, x, T, ar['user'], got[n_].tolist(),
                                 'Onsager matrix * curvature (Darken)' if name == 'D' else 'R*T*M', np.array(want).tolist(), err, prev)))
    return v


def setter_oracle(c, im):
    """tracer diffusivity of element e = R*T*M_e (or D_e) computed from the function the user attached to e in the phase
    that was asked for; interdiffusivity from those same functions; Darken for a binary; -> (clause, site, cls, message)"""
    v = []
    els, n, r, T = c['elements'], c['n'], c['ref'], c['T']
    user_all = [els[r]] + list(c['user_solutes'])
    corr = corr_vec(c)
    nr = [i for i in range(n) if i != r]
    names = {('mob', 'single'): 'setMobility(function)', ('mob', 'dict'): 'setMobility(dict of functions)', ('mob', 'element'): 'setMobility(dict, element=)',
             ('diff', 'single'): 'setDiffusivity(function)', ('diff', 'dict'): 'setDiffusivity(dict of functions)', ('diff', 'element'): 'setDiffusivity(dict, element=)'}
    seen = set()
    for rec in im.get('sp') or []:
        path, mode, arg = rec['path'], rec['mode'], rec['phase_arg']
        P = arg or 'MATRIX'
        other = [q for q in PHASES if q != P][0]
        how = names[(path, mode)]
        if rec['err']:
            if not rec['err'].startswith('LinAlgError'):
                v.append(('no_internal_error', SITE_T, how, '%s then getTracerDiffusivity/getInterdiffusivity(phase=%r) raised %s' % (how, arg, rec['err'])))
            continue
        if any(q != [P] for q in rec['requested']):
            v.append(('phase_callables', SITE_T, 'local equilibrium', 'phase=%r: the local equilibrium was requested for %r' % (arg, rec['requested'])))

        def val(Q, a):
            return corr[a] * user_value(c, Q, 0 if mode == 'single' else a, T) * (RGAS * T if path == 'mob' else 1.0)
        want = np.array([val(P, els.index(e)) for e in user_all])
        wrong = np.array([val(other, els.index(e)) for e in user_all])
        got = np.array(rec['tr'])
        if got.shape != want.shape or not np.allclose(got, want, rtol=1e-12, atol=0):
            k = int(np.argmax(np.abs(got - want) / want)) if got.shape == want.shape else 0
            if got.shape == wrong.shape and np.allclose(got, wrong, rtol=1e-12, atol=0):
                key = ('phase_callables', 'getTracerDiffusivity')
                msg = 'getTracerDiffusivity(phase=%r) returns %r: these are the values of phase %s; the functions attached to phase %s give %r (elements %r, T=%r)' % (arg, got.tolist(), other, P, want.tolist(), user_all, T)
            else:
                key = ('tracer_is_RTM', how)
                msg = '%s on phase %s: tracer diffusivity of %s is %r, the function attached to %s gives %s = %r (all: got %r, expected %r, T=%r)' % (
                    how, P, user_all[k], float(got[k]) if got.shape == want.shape else None, user_all[k], 'R*T*M' if path == 'mob' else 'D', float(want[k]), got.tolist(), want.tolist(), T)
            if key not in seen:
                seen.add(key)
                v.append((key[0], SITE_T, key[1], msg))
        # interdiffusivity, entries labelled by the user's solutes
        D = np.array(rec['D'])
        idx = [nr.index(els.index(e)) for e in c['user_solutes']]

        def expectD(Q):
            if path == 'mob':
                return np.array(rec['D_direct_' + Q])[np.ix_(idx, idx)]
            return np.diag([val(Q, els.index(e)) for e in c['user_solutes']])
        wantD, wrongD = expectD(P), expectD(other)
        if D.shape != wantD.shape or not np.allclose(D, wantD, rtol=1e-9, atol=1e-12 * np.max(np.abs(wantD))):
            if D.shape == wrongD.shape and np.allclose(D, wrongD, rtol=1e-9, atol=1e-12 * np.max(np.abs(wrongD))):
                key = ('phase_callables', 'getInterdiffusivity')
                msg = 'getInterdiffusivity(phase=%r) returns %r: computed with the functions of phase %s; those of phase %s give %r' % (arg, D.tolist(), other, P, wantD.tolist())
            else:
                key = ('interdiffusivity_from_user_functions', how)
                msg = '%s on phase %s: getInterdiffusivity returns %r, the functions attached to the elements give %r (solutes %r)' % (how, P, D.tolist(), wantD.tolist(), c['user_solutes'])
            if key not in seen:
                seen.add(key)
                v.append((key[0], SITE_T, key[1], msg))
        # binary, mobilities: Darken with the numerically differentiated thermodynamic factor of the closed-form solution
        st = c.get('stub')
        if st and n == 2 and not any(c['inter']) and path == 'mob':
            Pfd = np.array(st['P_fd'])
            X = np.array(c['X'])
            a = 1 - r
            phi = X[a] / (RGAS * T) * (Pfd[a, a] - Pfd[a, r])
            wantDk = (X[r] * val(P, a) + X[a] * val(P, r)) * phi
            if abs(D[0, 0] - wantDk) > 1e-6 * abs(wantDk) and ('binary_darken', how) not in seen:
                seen.add(('binary_darken', how))
                v.append(('binary_darken', SITE_T, how, '%s on phase %s: binary interdiffusivity %r, Darken combination of the tracer diffusivities of the attached functions and the thermodynamic factor %r' % (how, P, float(D[0, 0]), float(wantDk))))
    return v


def run_impl(c):
    from kawin.thermo import Mobility as MB, FreeEnergyHessian as FH
    out = {'err': None}
    try:
        cs = FakeCS(c)
        mob = callables_of(c)
        els = c['elements']
        mu = np.array(c['mu'])
        ref = els[c['ref']]
        out['mm'] = np.array(MB.mobility_matrix(cs, mob, corr_of(c), vacancy_poor_interstitial_sublattice=c['vp']))
        out['tr'] = np.array(MB.tracer_diffusivity(cs, mob, corr_of(c)))
        out['K'] = np.array(FH.hessian(mu, cs))
        out['H'] = np.array(FH.dMudX(mu, cs, ref))
        out['P'] = np.array(FH.partialdMudX(mu, cs))
        Dk, P2 = MB.chemical_diffusivity(mu, cs, mob, corr_of(c), returnHessian=True, vacancy_poor_interstitial_sublattice=c['vp'])
        out['Dk'] = np.array(Dk)
        D, _ = MB.interdiffusivity(mu, cs, ref, mob, corr_of(c), vacancy_poor_interstitial_sublattice=c['vp'])
        out['D'] = np.array(D)
        out['P_same'] = bool(np.array_equal(P2, out['P']))
        # databases with diffusivity instead of mobility parameters (same callables reused as diffusivities)
        out['Dd'] = np.array(MB.interdiffusivity_from_diff(cs, ref, mob, corr_of(c) if c['corr'] is not None else {}))
        out['trd'] = np.array(MB.tracer_diffusivity_from_diff(cs, mob, corr_of(c)))
    except Exception as e:
        out['err'] = err_enum(e) + ': ' + str(e)[:200]
        return out
    # documented default: diffusivity_correction = None means a factor of 1 for every element
    out['default_err'] = None
    if c['corr'] is None:
        try:
            Dd0 = np.array(MB.interdiffusivity_from_diff(cs, ref, mob))
            if not np.array_equal(Dd0, out['Dd']):
                out['default_err'] = 'value: default correction gives %r, explicit factor 1 gives %r' % (Dd0.tolist(), out['Dd'].tolist())
        except Exception as e:
            out['default_err'] = err_enum(e) + ': ' + str(e)[:200]
    # Thermodynamics wrappers (element re-ordering); inverseMobility inverts the interdiffusivity, which is the zero
    # matrix when the curvature is undefined (LinAlgError handled in totalddx): that case is outside the property
    out['wrap_err'] = None
    if c['inter'][c['ref']]:
        # an interstitial reference element: the substitutional rows of the interdiffusivity sum to zero
        # (C10_chemdiff_zero_sum), inverseMobility inverts a singular matrix; kawin's reference is the solvent
        out['D_user'] = None
        return out
    try:
        th = FakeTherm(c)
        x = [0.1] * (len(els) - 1)
        out['D_user'] = np.atleast_2d(np.array(th.getInterdiffusivity(x if len(x) > 1 else x[0], c['T'])))
        out['tr_user'] = np.atleast_1d(np.array(th.getTracerDiffusivity(x if len(x) > 1 else x[0], c['T'])))
        th.diffCallables['MATRIX'], th.mobCallables['MATRIX'] = th.mobCallables['MATRIX'], None
        out['Dd_user'] = np.atleast_2d(np.array(th.getInterdiffusivity(x if len(x) > 1 else x[0], c['T'])))
        out['trd_user'] = np.atleast_1d(np.array(th.getTracerDiffusivity(x if len(x) > 1 else x[0], c['T'])))
        if 'user_fn' in c:
            out['sp'] = run_setters(c)
        if c.get('arrays'):
            out['arr'] = run_arrays(c)
    except Exception as e:
        out['wrap_err'] = err_enum(e) + ': ' + str(e)[:200]
        # inverseMobility inverts the interdiffusivity: LinAlgError means that matrix is singular (undefined curvature,
        # duplicated elements of the 'singular' kind): not a state the property speaks about, counted in the evidence
        if err_enum(e) != 'LinAlgError':
            out['err'] = out['wrap_err']
        out['D_user'] = None
    return out


def finite(im):
    return all(np.all(np.isfinite(im[k])) for k in ('mm', 'tr', 'K', 'H', 'P', 'Dk', 'D', 'Dd', 'trd') + (('D_user', 'tr_user', 'Dd_user', 'trd_user') if im['D_user'] is not None else ()))


def elem_code(e):
    """order-preserving small integer code of an element name (1-2 capital letters)"""
    b = e.encode('ascii')
    if not (1 <= len(b) <= 2 and all(65 <= ch <= 90 for ch in b)):
        raise ValueError('element name outside the coded range: %r' % e)
    return (b[0] - 64) * 27 + ((b[1] - 64) if len(b) > 1 else 0)


def model_terms(c, im):
    els = c['elements']
    exact = c['kind'].startswith('exact')
    rt = '(1 # 1125899906842624)' if exact else '(1 # 68719476736)'      # 2^-50 / 2^-36
    rt2 = '(1 # 1073741824)'                                               # 2^-30 (results of a linear solve)
    vars_ = '[' + '; '.join('(%s, %d%%nat)' % ('None' if nm == 'VA' else 'Some %d%%nat' % els.index(nm), s) for nm, s in c['variables']) + ']'
    svs = natlist(SV_CODE[s] for s in c['svs'])
    nsv = len(c['svs'])
    t_mob = 'check_mob %s %s %s %s %s %s %s %s %s %s %s' % (
        rt, boollit(c['vp']), fvec(c['X']), boollist(c['inter']), fvec(corr_vec(c)), fvec(c['raw']), vars_, svs,
        fvec(c['dof']), fmat(im['mm']), fvec(im['tr']))
    pd = '(@mkPD Qops %d%%nat %d%%nat %d%%nat %d%%nat %s %s %s %s %s %s)' % (
        nsv, len(c['variables']), len(c['cons']), len(els), fmat(c['d2g']), fvec(c['dg']), fmat(c['dxdy']),
        fvec(c['moleA']), fmat(c['cons']), fvec(c['mu']))
    impl = '{| i_K := %s; i_H := %s; i_P := %s; i_D := %s; i_Dk := %s |}' % (
        fmat(im['K']), fmat(im['H']), fmat(im['P']), fmat(im['D']), fmat(im['Dk']))
    t_fh = 'check_fh %s %s %s %d%%nat %s %s %s %s %s %s %s %s' % (
        rt, rt2, boollit(c['vp']), c['ref'], fvec(c['X']), boollist(c['inter']), fvec(corr_vec(c)), fvec(c['raw']),
        vars_, pd, fvec(c['dof'][nsv:]), impl)
    user_all = [els[c['ref']]] + list(c['user_solutes'])
    t_df = 'check_diff %s %d%%nat %s %s %s %s' % (rt, c['ref'], fvec(corr_vec(c)), fvec(c['raw']), fmat(im['Dd']), fvec(im['trd']))
    if im['D_user'] is None:      # curvature undefined, wrappers raised: nothing to re-order
        t_ro = '(true, true, @nil nat, @nil nat)'
        t_ro2 = t_ro
    else:
        t_ro2 = 'check_reorder %s %s %s %s %s %s' % (
            natlist(elem_code(e) for e in c['user_solutes']), natlist(elem_code(e) for e in user_all),
            fmat(im['Dd']), fvec(im['trd']), fmat(im['Dd_user']), fvec(im['trd_user']))
        t_ro = 'check_reorder %s %s %s %s %s %s' % (
            natlist(elem_code(e) for e in c['user_solutes']), natlist(elem_code(e) for e in user_all),
            fmat(im['D']), fvec(im['tr']), fmat(im['D_user']), fvec(im['tr_user']))
    at = array_terms(c, im)
    t_arr = '[' + '; '.join(at) + ']' if at else '(@nil (option nat * option (list (nat * nat))))'
    return [t_mob, t_fh, t_ro, t_df, t_ro2, t_arr]


def compare(c, im, vals):
    """-> list of (site, what) disagreements between model and implementation"""
    (v_mm, v_tr, zs), (v_K, inv_ok, v_H, v_P, v_Dk, v_D, symH, symP), (ro_D, ro_tr, us, ua), (v_Dd, v_trd), (ro_Dd, ro_trd, _, _) = vals
    dis = []

    def rep(site, name, r, arr):
        if r is not None:
            i, (j, ap) = r[1]
            a = np.atleast_2d(arr)
            iv = float(a[i, j]) if i < a.shape[0] and j < a.shape[1] else None
            dis.append((site, '%s[%d,%d]: implementation %r, model %r' % (name, i, j, iv, float(tofrac(ap)))))
    rep(SITE_M, 'mobility_matrix', v_mm, im['mm'])
    if v_tr is not None:
        k, ap = v_tr[1]
        dis.append((SITE_M, 'tracer_diffusivity[%d]: implementation %r, model %r' % (k, float(im['tr'][k]) if k < len(im['tr']) else None, float(tofrac(ap)))))
    rep(SITE_H, 'hessian', v_K, im['K'])
    singular = inv_ok is None
    if not singular and inv_ok[1] is not True:
        dis.append(('harness', 'exact elimination did not return a right inverse (harness error)'))
    # an exactly singular bordered matrix: the model takes the LinAlgError branch (zeros).  LAPACK only raises when
    # a pivot is exactly zero in binary64; otherwise it returns huge numbers: indeterminate, counted, not compared
    garbage = singular and not (np.all(im['H'] == 0) and np.all(im['P'] == 0))
    if not garbage:
        rep(SITE_H, 'dMudX', v_H, im['H'])
        rep(SITE_H, 'partialdMudX', v_P, im['P'])
        rep(SITE_M, 'chemical_diffusivity', v_Dk, im['Dk'])
        rep(SITE_M, 'interdiffusivity', v_D, im['D'])
    rep(SITE_M, 'interdiffusivity_from_diff', v_Dd, im['Dd'])
    if v_trd is not None:
        dis.append((SITE_M, 'tracer_diffusivity_from_diff[%d]: model %r' % (v_trd[1][0], float(tofrac(v_trd[1][1])))))
    if im['D_user'] is not None and not (ro_Dd and ro_trd):
        dis.append((SITE_T, 'diffusivity-parameter path: re-ordered outputs differ from the model (unsort %r / %r)' % (us, ua)))
    if not ro_D and im['D_user'] is not None:
        dis.append((SITE_T, 'getInterdiffusivity: re-ordered matrix differs from the model (unsort %r)' % (us,)))
    if not ro_tr:
        dis.append((SITE_T, 'getTracerDiffusivity: re-ordered vector differs from the model (unsort %r)' % (ua,)))
    return dis, {'singular': singular, 'garbage': garbage, 'zero_sum_model': zs, 'symH_model': symH, 'symP_model': symP}


# ------------------------------------------------------------------------------------------
# independent oracle (property text -> direct recomputation), applied to the implementation's outputs
def oracle(c, im):
    """-> list of (clause, site, cls, message)"""
    v = []
    if im['err']:
        return [('no_internal_error', SITE_M, 'exception', 'implementation raised ' + im['err'])]
    els, n, inter, r = c['elements'], c['n'], c['inter'], c['ref']
    X = np.array(c['X'])
    M = np.array(corr_vec(c)) * np.array(c['raw'])
    subs = [a for a in range(n) if not inter[a]]
    exact = c['kind'].startswith('exact') and all(float(x * 16).is_integer() for x in X) and float(sum(X)) == 1.0
    mm = im['mm']
    # (1) tracer diffusivities positive and equal to R*T*M, labelled by element
    for a in range(n):
        want = RGAS * c['T'] * M[a]
        if not (abs(im['tr'][a] - want) <= 1e-12 * abs(want)):
            v.append(('tracer_is_RTM', SITE_M, 'value', 'tracer diffusivity of %s is %r, R*T*M = %r' % (els[a], float(im['tr'][a]), float(want))))
            break
        if not im['tr'][a] > 0:
            v.append(('tracer_is_RTM', SITE_M, 'sign', 'tracer diffusivity of %s is %r with mobility %r' % (els[a], float(im['tr'][a]), M[a])))
            break
    # (2) volume-fixed frame: for ANY chemical potential gradient the substitutional fluxes sum to zero
    #     J_a = - sum_b M_ab grad(mu_b); checked on unit gradients (columns) and one mixed gradient
    grads = [np.eye(n)[b] for b in range(n)] + [np.arange(1, n + 1) * np.array([(-1) ** k for k in range(n)], float)]
    for g in grads:
        J = -(mm @ g)
        mag = np.abs(mm) @ np.abs(g)
        tot = sum(J[a] for a in subs)
        if abs(tot) > (0 if exact else 1e-9) * sum(mag[a] for a in subs):
            v.append(('vff_zero_sum', SITE_M, 'substitutional fluxes', 'substitutional fluxes %r for potential gradient %r sum to %r, not 0'
                      % ([float(J[a]) for a in subs], [float(x) for x in g], float(tot))))
            break
    # interstitial rows: diagonal only, positive with positive mobility
    for a in range(n):
        if inter[a]:
            off = [b for b in range(n) if b != a and mm[a, b] != 0]
            if off or not mm[a, a] > 0:
                v.append(('vff_zero_sum', SITE_M, 'interstitial row', 'interstitial %s: row %r' % (els[a], [float(x) for x in mm[a]])))
                break
    # (3) chemical-potential derivatives: symmetric whenever the phase's own curvature is symmetric
    #     (an interstitial sublattice without vacancies makes the bordered matrix structurally singular - more elements than
    #      independent site fractions + phase amount; LAPACK then returns numbers of size 1/eps: no inverse, nothing to judge)
    d2 = np.array(c['d2g'])[len(c['svs']):, len(c['svs']):]
    wellposed = bool(np.linalg.cond(im['K']) < 1e10)
    if np.array_equal(d2, d2.T) and wellposed:
        for name, A in (('dMudX', im['H']), ('partialdMudX', im['P'])):
            if np.max(np.abs(A - A.T)) > 1e-7 * max(np.max(np.abs(A)), 1e-300):
                v.append(('dMudX_symmetric', SITE_H, name, '%s is not symmetric: %r' % (name, A.tolist())))
    st = c.get('stub')
    if st and wellposed:
        Pfd = np.array(st['P_fd'])
        Hfd = total_from_partial(Pfd, r)
        sc = np.max(np.abs(Pfd))
        if np.max(np.abs(im['P'] - Pfd)) > 1e-6 * sc:
            v.append(('matches_finite_difference', SITE_H, 'partialdMudX', 'partialdMudX %r differs from the numerical derivative of the chemical potentials %r' % (im['P'].tolist(), Pfd.tolist())))
        if np.max(np.abs(im['H'] - Hfd)) > 1e-6 * np.max(np.abs(Hfd)):
            v.append(('matches_finite_difference', SITE_H, 'dMudX', 'dMudX %r differs from the numerical derivative of the chemical potentials %r' % (im['H'].tolist(), Hfd.tolist())))
        stable = bool(np.all(np.linalg.eigvalsh(0.5 * (Hfd + Hfd.T)) > 1e-9 * np.max(np.abs(Hfd))))
        if stable:
            ev = np.linalg.eigvalsh(0.5 * (im['H'] + im['H'].T))
            if not np.all(ev > 0):
                v.append(('positive_definite', SITE_H, 'dMudX', 'stable state (numerical curvature positive definite) but dMudX has eigenvalues %r' % ev.tolist()))
            if not any(inter):
                ev = np.linalg.eigvals(im['D'])
                if not (np.all(np.abs(ev.imag) <= 1e-9 * np.abs(ev.real)) and np.all(ev.real > 0)):
                    v.append(('eigenvalues_positive', SITE_M, 'interdiffusivity', 'stable state, positive mobilities, but the interdiffusivity %r has eigenvalues %r' % (im['D'].tolist(), ev.tolist())))
        if n == 2 and not any(inter):
            # Darken: D = (x_r D*_a + x_a D*_r) * Phi, Phi = x_a/(R T) dmu_a/dx_a along x_a + x_r = 1
            a = 1 - r
            RT = RGAS * c['T']
            phi = X[a] / RT * (Pfd[a, a] - Pfd[a, r])
            want = (X[r] * RT * M[a] + X[a] * RT * M[r]) * phi
            got = float(im['D'][0, 0])
            if abs(got - want) > 1e-6 * abs(want):
                v.append(('binary_darken', SITE_M, 'value', 'binary interdiffusivity %r, Darken combination of tracer diffusivities and thermodynamic factor %r' % (got, float(want))))
            if stable and not got > 0:
                v.append(('eigenvalues_positive', SITE_M, 'binary', 'binary interdiffusivity %r is not positive in a stable state' % got))
    # (3b) diffusivity-parameter databases: diagonal matrix of the solutes' own (corrected) diffusivities
    nr = [i for i in range(n) if i != r]
    want = np.diag([M[a] for a in nr])
    if not np.allclose(im['Dd'], want, rtol=1e-14, atol=0) or not np.allclose(im['trd'], M, rtol=1e-14, atol=0):
        v.append(('diffusivity_path', SITE_M, 'value', 'interdiffusivity_from_diff %r / tracer %r, diffusivities of the elements %r (reference %s)' % (im['Dd'].tolist(), im['trd'].tolist(), M.tolist(), els[r])))
    if im.get('default_err'):
        v.append(('no_internal_error', SITE_M, 'interdiffusivity_from_diff default correction', 'interdiffusivity_from_diff with the documented default diffusivity_correction=None: ' + im['default_err']))
    # (4) outputs of the Thermodynamics wrappers are labelled by the user's element order
    if im['D_user'] is None:
        return v
    # (5) functions attached through the public setters, and the phase= argument
    v += setter_oracle(c, im)
    # (7) calling conventions, histories on one object, interleaved objects, composition sets re-solved in place
    v += history_hits(c)
    # (6) array calls: every entry belongs to its own point
    v += array_oracle(c, im, im.get('arr_model'))
    user_all = [els[r]] + list(c['user_solutes'])
    for k, e in enumerate(user_all):
        want = RGAS * c['T'] * M[els.index(e)]
        if abs(im['tr_user'][k] - want) > 1e-12 * abs(want):
            v.append(('reorder_labels', SITE_T, 'tracer', 'getTracerDiffusivity entry %d (element %s) is %r, R*T*M of that element is %r' % (k, e, float(im['tr_user'][k]), float(want))))
            break
    nr = [i for i in range(n) if i != r]
    for i, ei in enumerate(c['user_solutes']):
        for j, ej in enumerate(c['user_solutes']):
            want = im['D'][nr.index(els.index(ei)), nr.index(els.index(ej))]
            if im['D_user'][i, j] != want:
                v.append(('reorder_labels', SITE_T, 'interdiffusivity', 'getInterdiffusivity entry (%s,%s) is %r, D_%s%s = %r' % (ei, ej, float(im['D_user'][i, j]), ei, ej, float(want))))
                return v
            wantd = M[els.index(ei)] if i == j else 0.0
            if abs(im['Dd_user'][i, j] - wantd) > 1e-14 * abs(wantd):
                v.append(('reorder_labels', SITE_T, 'interdiffusivity (diffusivity parameters)', 'getInterdiffusivity entry (%s,%s) is %r, diffusivity of %s is %r' % (ei, ej, float(im['Dd_user'][i, j]), ei, float(M[els.index(ei)]))))
                return v
    return v


def nontrivial(c):
    return c['n'] >= 2 and sum(1 for b in c['inter'] if not b) >= 2


# ------------------------------------------------------------------------------------------
def explore(ctx, cases, label):
    impls = [run_impl(c) for c in cases]
    ok_idx = [i for i, im in enumerate(impls) if im['err'] is None and finite(im)]
    terms = []
    for i in ok_idx:
        terms += model_terms(cases[i], impls[i])
    vals = ctx.coq_eval('cases_' + label, HEADER, terms, shard=max(12, 6 * (-(-len(ok_idx) // 32))))
    dis_all, hits = [], []
    stats = ctx.notes.setdefault('model_side', {'singular': 0, 'zero_sum_exact': 0, 'dMudX_symmetric_exact': 0, 'right_inverse_checked': 0})
    for k, i in enumerate(ok_idx):
        dis, info = compare(cases[i], impls[i], vals[6 * k:6 * k + 5])
        impls[i]['arr_model'] = vals[6 * k + 5]
        for (site, d) in dis:
            dis_all.append((cases[i], site, d))
        stats['singular'] += int(info['singular'])
        if info['garbage']:
            ctx.notes['indeterminate_singular_in_binary64'] = ctx.notes.get('indeterminate_singular_in_binary64', 0) + 1
        stats['right_inverse_checked'] += int(not info['singular'])
        stats['zero_sum_exact'] += int(bool(info['zero_sum_model']))
        d2 = np.array(cases[i]['d2g'])[len(cases[i]['svs']):, len(cases[i]['svs']):]
        if np.array_equal(d2, d2.T):
            stats['dMudX_symmetric_exact'] += int(bool(info['symH_model'] and info['symP_model']))
            if not (info['symH_model'] and info['symP_model']):
                dis_all.append((cases[i], 'model', 'exact model dMudX not symmetric although the theorem applies (model/theorem mismatch)'))
        if not info['zero_sum_model']:
            dis_all.append((cases[i], 'model', 'exact model column sums not zero although the theorem applies (model/theorem mismatch)'))
    for i, (c, im) in enumerate(zip(cases, impls)):
        ctx.count(hexcase(c), nontrivial(c))
        ctx.hist('kind', c['kind'].split(':')[0])
        ctx.hist('elements', c['n'])
        ctx.hist('interstitials', sum(c['inter']))
        ctx.hist('vacancy_poor', c['vp'])
        if i not in ok_idx:
            dis_all.append((c, SITE_M, 'implementation raised ' + im['err'] if im['err'] else 'implementation returned a non-finite value'))
        if im.get('wrap_err') and not im['err']:
            ctx.notes['wrapper_singular_interdiffusivity'] = ctx.notes.get('wrapper_singular_interdiffusivity', 0) + 1
        for (clause, site, cls, msg) in oracle(c, im):
            hits.append((c, im, clause, site, cls, msg))
        if i < 3:
            ctx.sample({'input': {k: c[k] for k in ('kind', 'elements', 'variables', 'svs', 'X', 'raw', 'corr', 'vp', 'ref', 'T')},
                        'impl_interdiffusivity': np.asarray(im.get('D', [])).tolist(), 'impl_dMudX': np.asarray(im.get('H', [])).tolist()})
    return dis_all, hits


def report_hits(ctx, hits):
    seen = set()
    for (c, im, clause, site, cls, msg) in hits:
        if (clause, site, cls) in seen:
            continue
        seen.add((clause, site, cls))
        ctx.violation(clause, {'site': site, 'cls': cls},
                      {'kind': 'input', 'input': hexcase(c), 'observed': msg,
                       'oracle': 'independent recomputation from the property text (harness/c10.py: oracle)'}, msg)


# ------------------------------------------------------------------------------------------
# SAMPLING on the shipped databases (pycalphad): not proof, labelled as such in the evidence
def database_sampling(ctx, quick):
    import warnings
    warnings.filterwarnings('ignore')
    from kawin.thermo import GeneralThermodynamics
    from kawin.thermo.FreeEnergyHessian import dMudX, partialdMudX
    from kawin.thermo import Mobility as MB
    import kawin.tests.datasets as ds
    rng = ctx.rng
    cutipath = os.path.join(REPO, 'examples', 'CuTi.tdb')
    systems = [
        ('Al-Zr', ds.ALZR_TDB, ['AL', 'ZR'], ['FCC_A1', 'AL3ZR'], [(1e-4, 6e-3)], (600, 900)),
        ('Ni-Cr-Al', ds.NICRAL_TDB, ['NI', 'CR', 'AL'], ['FCC_A1', 'FCC_L12'], [(0.01, 0.15), (0.01, 0.12)], (1000, 1500)),
        ('Ni-Al-Cr', ds.NICRAL_TDB, ['NI', 'AL', 'CR'], ['FCC_A1', 'FCC_L12'], [(0.01, 0.12), (0.01, 0.15)], (1000, 1500)),
        ('Fe-Cr-Ni', ds.FECRNI_DB, ['FE', 'CR', 'NI'], ['FCC_A1', 'BCC_A2'], [(0.05, 0.3), (0.05, 0.3)], (1200, 1500)),
        ('Al-Mg-Si', ds.ALMGSI_DB, ['AL', 'MG', 'SI'], ['FCC_A1', 'MGSI_B_P'], [(1e-4, 0.01), (1e-4, 0.01)], (450, 800)),
        ('Cu-Ti', cutipath, ['CU', 'TI'], ['FCC_A1', 'CU4TI'], [(1e-3, 0.03)], (700, 1100)),
        # the second phase of a system in which two phases carry mobility models, addressed through phase=
        ('Fe-Cr-Ni phase=BCC_A2', ds.FECRNI_DB, ['FE', 'CR', 'NI'], ['FCC_A1', 'BCC_A2'], [(0.15, 0.35), (0.005, 0.03)], (1100, 1400), 1),
        ('Fe-Cr-Ni phase=FCC_A1', ds.FECRNI_DB, ['FE', 'CR', 'NI'], ['FCC_A1', 'BCC_A2'], [(0.05, 0.3), (0.05, 0.3)], (1200, 1500), 0),
    ]
    npts = 5 if quick else 60
    stats = ctx.notes.setdefault('database_sampling', {})
    for entry in systems:
        (name, db, els, phases, ranges, (T0, T1)) = entry[:6]
        phase_index = entry[6] if len(entry) > 6 else None
        st = stats.setdefault(name, {'points': 0, 'stable': 0, 'skipped_not_converged': 0, 'max_rel_fd_error': 0.0,
                                     'max_rel_asymmetry': 0.0, 'min_eig_dMudX': None, 'min_eig_D': None})
        try:
            th = GeneralThermodynamics(db, els, phases)
        except Exception as e:
            ctx.violation('database_sampling', {'site': SITE_T, 'cls': 'load ' + name}, {'error': str(e)}, 'cannot load %s: %s' % (name, e), no_input=True)
            continue
        ph = th.phases[phase_index or 0]
        phase_arg = None if phase_index is None else ph         # None: the documented default (first phase)
        nsol = len(els) - 1
        alpha = sorted(els)
        r = alpha.index(els[0])
        nr = [e for e in alpha if e != els[0]]
        for k in range(npts):
            x = [float(rng.uniform(a, b)) for (a, b) in ranges]
            T = float(rng.uniform(T0, T1))
            pt = {'system': name, 'x': x, 'T': T}

            def mu_at(xx):
                res, cs = th.getLocalEq(xx if nsol > 1 else xx[0], T, 0, [ph])
                return np.array(res.chemical_potentials, float), cs[0]
            try:
                mu, cs = mu_at(x)
                H = dMudX(mu, cs, els[0])
                P = partialdMudX(mu, cs)
                has_mob = th.mobCallables[ph] is not None
                if has_mob:
                    mm = MB.mobility_matrix(cs, th.mobCallables[ph], dict(th.mobility_correction))
                    Malpha = MB.mobility_from_composition_set(cs, th.mobCallables[ph], dict(th.mobility_correction))
                else:       # the database carries diffusivity parameters (Al-Zr): D = diag of the solutes' diffusivities
                    mm = None
                    Dalpha = MB.tracer_diffusivity_from_diff(cs, th.diffCallables[ph], dict(th.mobility_correction))
                Xa = np.array(cs.X, float)
                D = np.atleast_2d(th.getInterdiffusivity(x if nsol > 1 else x[0], T, phase=phase_arg))
                tr = np.atleast_1d(th.getTracerDiffusivity(x if nsol > 1 else x[0], T, phase=phase_arg))
                # numerical derivative of the equilibrium chemical potentials (user order of x)
                Hfd = np.zeros((nsol, nsol))
                for j in range(nsol):
                    h = 1e-3 * x[j]
                    xp = list(x); xp[j] += h
                    xm = list(x); xm[j] -= h
                    d = (mu_at(xp)[0] - mu_at(xm)[0]) / (2 * h)
                    for i in range(nsol):
                        Hfd[i, j] = d[alpha.index(els[1 + i])] - d[r]
            except Exception as e:
                st['skipped_not_converged'] += 1
                if len(st.setdefault('skip_reasons', [])) < 3:
                    st['skip_reasons'].append(err_enum(e) + ': ' + str(e)[:160])
                continue
            st['points'] += 1
            ctx.count({'db': name, 'x': x, 'T': T}, True)
            ctx.hist('database', name)
            # kawin's dMudX is alphabetical; bring to user order with an independent label lookup
            idx = [nr.index(e) for e in els[1:]]
            Hu = H[np.ix_(idx, idx)]
            sc = np.max(np.abs(Hfd))
            err = float(np.max(np.abs(Hu - Hfd)) / sc)
            st['max_rel_fd_error'] = max(st['max_rel_fd_error'], err)
            if err > 5e-4:
                ctx.violation('matches_finite_difference', {'site': SITE_H, 'cls': 'database ' + name},
                              {'kind': 'input', 'database_point': pt, 'observed': {'dMudX_user_order': Hu.tolist(), 'finite_difference': Hfd.tolist()}},
                              '%s at x=%r T=%r: dMudX %r differs from the numerical derivative of the equilibrium chemical potentials %r' % (name, x, T, Hu.tolist(), Hfd.tolist()))
            asym = float(np.max(np.abs(H - H.T)) / np.max(np.abs(H)))
            st['max_rel_asymmetry'] = max(st['max_rel_asymmetry'], asym)
            if asym > 1e-8:
                ctx.violation('dMudX_symmetric', {'site': SITE_H, 'cls': 'database ' + name}, {'kind': 'input', 'database_point': pt, 'observed': H.tolist()},
                              '%s at x=%r T=%r: dMudX not symmetric %r' % (name, x, T, H.tolist()))
            stable = bool(np.all(np.linalg.eigvalsh(0.5 * (Hfd + Hfd.T)) > 0))
            evH = np.linalg.eigvalsh(0.5 * (H + H.T))
            evD = np.linalg.eigvals(D)
            if stable:
                st['stable'] += 1
                st['min_eig_dMudX'] = float(min(evH)) if st['min_eig_dMudX'] is None else min(st['min_eig_dMudX'], float(min(evH)))
                st['min_eig_D'] = float(min(evD.real)) if st['min_eig_D'] is None else min(st['min_eig_D'], float(min(evD.real)))
                if not np.all(evH > 0):
                    ctx.violation('positive_definite', {'site': SITE_H, 'cls': 'database ' + name}, {'kind': 'input', 'database_point': pt, 'observed': evH.tolist()},
                                  '%s at x=%r T=%r: dMudX eigenvalues %r' % (name, x, T, evH.tolist()))
                if not (np.all(np.abs(evD.imag) <= 1e-9 * np.abs(evD.real)) and np.all(evD.real > 0)):
                    ctx.violation('eigenvalues_positive', {'site': SITE_M, 'cls': 'database ' + name}, {'kind': 'input', 'database_point': pt, 'observed': [str(z) for z in evD]},
                                  '%s at x=%r T=%r: interdiffusivity eigenvalues %r' % (name, x, T, evD.tolist()))
            st['parameters'] = 'mobility' if has_mob else 'diffusivity'
            if has_mob:
                # interdiffusivity = (volume-fixed Onsager matrix of THIS phase's mobilities) * (numerically differentiated
                # curvature), C10_ternary_LH / Darken written for any number of substitutional elements
                Xu = np.array([Xa[alpha.index(e)] for e in els])
                Mu = np.array([Malpha[alpha.index(e)] for e in els])
                L = np.array([[sum(((1.0 if c_ == i else 0.0) - Xu[c_]) * ((1.0 if k_ == i else 0.0) - Xu[k_]) * Xu[i] * Mu[i] for i in range(len(els)))
                               for k_ in range(1, len(els))] for c_ in range(1, len(els))])
                DLH = L @ Hfd
                if np.max(np.abs(D - DLH)) > 2e-3 * np.max(np.abs(DLH)):
                    others = [q for q in th.phases if q != ph and th.mobCallables.get(q) is not None]
                    ctx.violation('interdiffusivity_is_LH', {'site': SITE_T, 'cls': 'database ' + name},
                                  {'kind': 'input', 'database_point': pt, 'observed': D.tolist(), 'expected': DLH.tolist(), 'phase': ph, 'other_phases_with_mobility': others},
                                  '%s at x=%r T=%r: getInterdiffusivity(phase=%r) = %r, Onsager matrix of the mobilities of %s times the numerical curvature = %r'
                                  % (name, x, T, phase_arg, D.tolist(), ph, DLH.tolist()))
                # tracer = R T M > 0, labelled by the user's element order
                for i, e in enumerate(els):
                    want = RGAS * T * Malpha[alpha.index(e)]
                    if not (tr[i] > 0 and abs(tr[i] - want) <= 1e-10 * want):
                        ctx.violation('tracer_is_RTM', {'site': SITE_T, 'cls': 'database ' + name}, {'kind': 'input', 'database_point': pt, 'observed': tr.tolist()},
                                      '%s at x=%r T=%r: getTracerDiffusivity(phase=%r): tracer diffusivity of %s is %r, R*T*M of that phase = %r' % (name, x, T, phase_arg, e, float(tr[i]), float(want)))
                        break
                # zero flux sum in the volume-fixed frame
                col = np.sum(mm, axis=0)
                if np.max(np.abs(col)) > 1e-9 * np.max(np.abs(mm)):
                    ctx.violation('vff_zero_sum', {'site': SITE_M, 'cls': 'database ' + name}, {'kind': 'input', 'database_point': pt, 'observed': mm.tolist()},
                                  '%s at x=%r T=%r: columns of the mobility matrix sum to %r' % (name, x, T, col.tolist()))
                # binary: Darken combination with the numerically differentiated thermodynamic factor
                if nsol == 1:
                    a = alpha.index(els[1])
                    xa, xr = Xa[a], Xa[r]
                    # d mu_a / d x_a along the line = Hfd * x_r (Gibbs-Duhem), so Phi = x_a x_r / (R T) * Hfd
                    phi = xa * xr / (RGAS * T) * Hfd[0, 0]
                    want = (xr * tr[1] + xa * tr[0]) * phi
                    if abs(D[0, 0] - want) > 1e-3 * abs(want):
                        ctx.violation('binary_darken', {'site': SITE_M, 'cls': 'database ' + name}, {'kind': 'input', 'database_point': pt, 'observed': float(D[0, 0]), 'expected': float(want)},
                                      '%s at x=%r T=%r: interdiffusivity %r, Darken %r' % (name, x, T, float(D[0, 0]), float(want)))
            else:
                want = np.diag([Dalpha[alpha.index(e)] for e in els[1:]])
                wtr = np.array([Dalpha[alpha.index(e)] for e in els])
                if not (np.allclose(D, want, rtol=1e-12, atol=0) and np.allclose(tr, wtr, rtol=1e-12, atol=0) and np.all(np.diag(D) > 0)):
                    ctx.violation('diffusivity_path', {'site': SITE_T, 'cls': 'database ' + name}, {'kind': 'input', 'database_point': pt, 'observed': D.tolist()},
                                  '%s at x=%r T=%r: interdiffusivity %r, diffusivities of the solutes %r' % (name, x, T, D.tolist(), want.tolist()))
            if k == 0:
                # array calls with closely spaced points (fine temperature ramp, slowly drifting composition, a repeated
                # point): every entry must be what the scalar call returns for that point
                xa = [list(x), list(x), list(x), [x[0] * (1 + 5e-7)] + list(x[1:]), list(x)]
                Ta = [T, T + 0.004, T + 0.008, T + 0.008, T]
                try:
                    Darr = np.array(th.getInterdiffusivity([v[0] for v in xa] if nsol == 1 else xa, Ta, phase=phase_arg), float).reshape(len(Ta), nsol, nsol)
                    tarr = np.array(th.getTracerDiffusivity([v[0] for v in xa] if nsol == 1 else xa, Ta, phase=phase_arg), float).reshape(len(Ta), nsol + 1)
                    for q in range(len(Ta)):
                        Dq = np.atleast_2d(th.getInterdiffusivity(xa[q] if nsol > 1 else xa[q][0], Ta[q], phase=phase_arg))
                        tq = np.atleast_1d(th.getTracerDiffusivity(xa[q] if nsol > 1 else xa[q][0], Ta[q], phase=phase_arg))
                        for nm, A_, B_ in (('getInterdiffusivity', Darr[q], Dq), ('getTracerDiffusivity', tarr[q], tq)):
                            e_ = float(np.max(np.abs(A_ - B_)) / np.max(np.abs(B_)))
                            st['max_rel_array_vs_scalar'] = max(st.get('max_rel_array_vs_scalar', 0.0), e_)
                            if e_ > 1e-8:
                                ctx.violation('array_pointwise', {'site': SITE_T, 'cls': 'database ' + name + ' ' + nm},
                                              {'kind': 'input', 'database_point': {'system': name, 'x': xa, 'T': Ta, 'phase': phase_arg, 'entry': q},
                                               'observed': np.array(A_).tolist(), 'expected': np.array(B_).tolist()},
                                              '%s: %s(x=%r, T=%r)[%d] = %r but the scalar call at x=%r, T=%r gives %r (relative difference %.3g)'
                                              % (name, nm, xa, Ta, q, np.array(A_).tolist(), xa[q], Ta[q], np.array(B_).tolist(), e_))
                except Exception as e:
                    ctx.violation('no_internal_error', {'site': SITE_T, 'cls': 'database array call ' + name}, {'kind': 'input', 'database_point': pt, 'error': str(e)[:300]},
                                  '%s: array call of the diffusivity getters raised %s: %s' % (name, err_enum(e), str(e)[:200]))
                ctx.sample({'database': name, 'x': x, 'T': T, 'dMudX_user_order': Hu.tolist(), 'finite_difference': Hfd.tolist(),
                            'interdiffusivity': D.tolist(), 'eigenvalues': [float(z.real) for z in evD]}, limit=12)


def database_sources():
    import kawin.tests.datasets as ds
    return {'Al-Zr': ds.ALZR_TDB, 'Ni-Cr-Al': ds.NICRAL_TDB, 'Fe-Cr-Ni': ds.FECRNI_DB, 'Al-Mg-Si': ds.ALMGSI_DB,
            'Cu-Ti': open(os.path.join(REPO, 'examples', 'CuTi.tdb')).read()}


def shared_database_check(ctx, quick, only=None):
    """SAMPLING (pycalphad): the diffusivities of a thermodynamics object are those of the database it was given, whether or
    not other objects were built from the same pycalphad Database object before (any order of construction, other element
    orders, other phase lists).  Every object of a construction sequence is compared, at one point, with an object built
    from a freshly loaded database: tracer diffusivity (= R*T*mobility of the database), interdiffusivity, dMudX"""
    import warnings
    warnings.filterwarnings('ignore')
    from pycalphad import Database
    from kawin.thermo import GeneralThermodynamics
    from kawin.thermo.FreeEnergyHessian import dMudX
    src = database_sources()
    scen = corpus_scenarios()
    scen += [] if only is not None else [
        # an ordered precipitate: the matrix phase gets a disordered copy DIS_<phase> inserted into the database
        {'system': 'Ni-Cr-Al', 'x': [0.08, 0.1], 'T': 1073.15,
         'builds': [[['NI', 'CR', 'AL'], ['FCC_A1', 'FCC_L12']], [['NI', 'CR', 'AL'], ['FCC_A1', 'FCC_L12']], [['NI', 'AL', 'CR'], ['FCC_A1', 'FCC_L12']], [['NI', 'CR', 'AL'], ['FCC_A1']]]},
        {'system': 'Ni-Cr-Al', 'x': [0.05, 0.12], 'T': 1273.15,
         'builds': [[['NI', 'CR', 'AL'], ['FCC_A1']], [['NI', 'CR', 'AL'], ['FCC_A1', 'FCC_L12']], [['NI', 'CR', 'AL'], ['FCC_A1']], [['NI', 'CR', 'AL'], ['FCC_A1', 'FCC_L12']]]},
        {'system': 'Al-Zr', 'x': [0.003], 'T': 700.0, 'builds': [[['AL', 'ZR'], ['FCC_A1', 'AL3ZR']], [['AL', 'ZR'], ['FCC_A1', 'AL3ZR']], [['AL', 'ZR'], ['FCC_A1']]]},
    ]
    if only is not None:
        scen = list(only)
    elif not quick:
        scen += [
            {'system': 'Fe-Cr-Ni', 'x': [0.2, 0.1], 'T': 1300.0, 'builds': [[['FE', 'CR', 'NI'], ['FCC_A1', 'BCC_A2']], [['FE', 'NI', 'CR'], ['FCC_A1', 'BCC_A2']], [['FE', 'CR', 'NI'], ['BCC_A2', 'FCC_A1']], [['FE', 'CR', 'NI'], ['FCC_A1', 'BCC_A2']]]},
            {'system': 'Al-Mg-Si', 'x': [0.004, 0.005], 'T': 600.0, 'builds': [[['AL', 'MG', 'SI'], ['FCC_A1', 'MGSI_B_P']], [['AL', 'SI', 'MG'], ['FCC_A1', 'MGSI_B_P', 'MG5SI6_B_DP']], [['AL', 'MG', 'SI'], ['FCC_A1', 'MGSI_B_P']]]},
            {'system': 'Cu-Ti', 'x': [0.015], 'T': 900.0, 'builds': [[['CU', 'TI'], ['FCC_A1', 'CU4TI']], [['CU', 'TI'], ['FCC_A1', 'CU4TI']]]},
        ]
    stats = ctx.notes.setdefault('shared_database', {'objects_compared': 0, 'max_rel_difference': 0.0})

    def query(th, els, x, T):
        xs = list(x)
        ph = th.phases[0]
        res, cs = th.getLocalEq(xs if len(xs) > 1 else xs[0], T, 0, [ph])
        return {'tracer': np.atleast_1d(th.getTracerDiffusivity(xs if len(xs) > 1 else xs[0], T)),
                'interdiffusivity': np.atleast_2d(th.getInterdiffusivity(xs if len(xs) > 1 else xs[0], T)),
                'dMudX': np.atleast_2d(dMudX(np.array(res.chemical_potentials), cs[0], els[0]))}
    seen = set()
    for sc in scen:
        name = sc['system']
        try:
            db = Database(src[name])
            fresh = {}
            for k, (els, phases) in enumerate(sc['builds']):
                # composition is given for the solutes of the first build; re-label for other element orders
                els0 = sc['builds'][0][0]
                x = [sc['x'][els0[1:].index(e)] for e in els[1:]]
                key = json.dumps([els, phases])
                if key not in fresh:
                    fresh[key] = query(GeneralThermodynamics(src[name], list(els), list(phases)), els, x, sc['T'])
                th = GeneralThermodynamics(db, list(els), list(phases))
                got = query(th, els, x, sc['T'])
                stats['objects_compared'] += 1
                ctx.count({'shared_database': name, 'build': k, 'seq': sc['builds'], 'x': sc['x'], 'T': sc['T']}, True)
                ctx.hist('database', name + ' (shared Database object)')
                for q in ('tracer', 'interdiffusivity', 'dMudX'):
                    e_ = float(np.max(np.abs(got[q] - fresh[key][q])) / np.max(np.abs(fresh[key][q])))
                    stats['max_rel_difference'] = max(stats['max_rel_difference'], e_)
                    if e_ > 1e-8 and (name, q) not in seen:
                        seen.add((name, q))
                        what = ('tracer diffusivity (R*T*mobility of the database)' if q == 'tracer' else q)
                        ctx.violation('shared_database', {'site': SITE_T, 'cls': q},
                                      {'kind': 'input', 'database_point': {'system': name, 'x': x, 'T': sc['T']},
                                       'scenario': {k_: sc[k_] for k_ in ('system', 'x', 'T', 'builds')}, 'object': k,
                                       'observed': got[q].tolist(), 'expected': fresh[key][q].tolist(),
                                       'oracle': 'the same query on an object built from a freshly loaded copy of the same database'},
                                      '%s, x=%r T=%r: object %d of the sequence %r built from ONE pycalphad Database object gives %s = %r; built from a freshly loaded database: %r'
                                      % (name, x, sc['T'], k, sc['builds'], what, got[q].tolist(), fresh[key][q].tolist()))
        except Exception as e:
            ctx.violation('no_internal_error', {'site': SITE_T, 'cls': 'shared database ' + name}, {'kind': 'input', 'scenario': sc, 'error': str(e)[:300]},
                          '%s: objects built from one Database object: %s: %s' % (name, err_enum(e), str(e)[:200]))


def object_history_check(ctx, quick):
    """SAMPLING (pycalphad, real objects): two or three thermodynamics objects alive together and configured differently
    (setMobilityCorrection on one must not change another, nor one built afterwards); histories on one object (setter between
    two queries; a path followed with removeCache=False / composition sets handed back to getLocalEq) compared with a fresh
    object given the final configuration"""
    import warnings
    warnings.filterwarnings('ignore')
    from kawin.thermo import GeneralThermodynamics
    from kawin.thermo.FreeEnergyHessian import dMudX
    src = database_sources()
    systems = [('Ni-Cr-Al', ['NI', 'CR', 'AL'], ['FCC_A1', 'FCC_L12'], [[0.08, 0.10], [0.12, 0.05], [0.04, 0.14]], [1073.15, 1173.15, 1273.15]),
               ('Cu-Ti', ['CU', 'TI'], ['FCC_A1', 'CU4TI'], [[0.01], [0.02], [0.004]], [800.0, 900.0, 1000.0])]
    if not quick:
        systems += [('Al-Zr', ['AL', 'ZR'], ['FCC_A1', 'AL3ZR'], [[0.002], [0.004], [0.001]], [650.0, 750.0, 850.0]),
                    ('Fe-Cr-Ni', ['FE', 'CR', 'NI'], ['FCC_A1', 'BCC_A2'], [[0.2, 0.1], [0.1, 0.25], [0.25, 0.05]], [1250.0, 1350.0, 1450.0]),
                    ('Al-Mg-Si', ['AL', 'MG', 'SI'], ['FCC_A1', 'MGSI_B_P'], [[0.004, 0.005], [0.008, 0.002], [0.002, 0.008]], [550.0, 650.0, 750.0])]
    stats = ctx.notes.setdefault('object_histories', {'comparisons': 0, 'max_rel_difference_independence': 0.0, 'max_rel_difference_kept_composition_sets': 0.0})
    for (name, els, phases, xs, Ts) in systems:
        seen = set()

        def xa(x):
            return list(x) if len(x) > 1 else x[0]

        def query(th, x, T, rc=True):
            return {'tracer': np.atleast_1d(th.getTracerDiffusivity(xa(x), T, removeCache=rc)), 'interdiffusivity': np.atleast_2d(th.getInterdiffusivity(xa(x), T, removeCache=rc))}

        def same(tag, cls, got, want, tol, key, scale=None):
            for q_ in ('tracer', 'interdiffusivity'):
                w = want[q_] if scale is None else want[q_] * scale[q_]
                e_ = float(np.max(np.abs(got[q_] - w)) / np.max(np.abs(w)))
                stats[key] = max(stats[key], e_)
                stats['comparisons'] += 1
                if e_ > tol and (cls, q_) not in seen:
                    seen.add((cls, q_))
                    ctx.violation('object_history', {'site': SITE_T, 'cls': cls + ' ' + q_},
                                  {'kind': 'input', 'database_point': {'system': name, 'elements': els, 'phases': phases, 'x': xs, 'T': Ts}, 'history': tag,
                                   'observed': got[q_].tolist(), 'expected': np.array(w).tolist()},
                                  '%s (%r): %s: %s = %r, expected %r (relative difference %.3g)' % (name, els, tag, q_, got[q_].tolist(), np.array(w).tolist(), e_))
        try:
            mk = lambda: GeneralThermodynamics(src[name], list(els), list(phases))
            A, B = mk(), mk()
            p0 = (xs[0], Ts[0])
            base = query(B, *p0)
            ctx.count({'object_history': name}, True)
            ctx.hist('database', name + ' (object histories)')
            same('object A and object B built alike, no setter called', 'independent objects', query(A, *p0), base, 1e-9, 'max_rel_difference_independence')
            e1 = els[1]
            A.setMobilityCorrection(e1, 3.0)
            same('object B after A.setMobilityCorrection(%r, 3.0)' % e1, 'setter on another object', query(B, *p0), base, 1e-9, 'max_rel_difference_independence')
            C = mk()
            same('object C built after A.setMobilityCorrection(%r, 3.0)' % e1, 'object built afterwards', query(C, *p0), base, 1e-9, 'max_rel_difference_independence')
            gA = query(A, *p0)
            sc_tr = np.array([3.0 if e == e1 else 1.0 for e in els])
            eA = float(np.max(np.abs(gA['tracer'] - base['tracer'] * sc_tr)) / np.max(np.abs(base['tracer'] * sc_tr)))
            stats['comparisons'] += 1
            if eA > 1e-9:
                ctx.violation('object_history', {'site': SITE_T, 'cls': 'own setter tracer'}, {'kind': 'input', 'database_point': {'system': name, 'x': xs[0], 'T': Ts[0]}, 'observed': gA['tracer'].tolist()},
                              '%s: after A.setMobilityCorrection(%r, 3.0) the tracer diffusivities of A are %r, expected %r' % (name, e1, gA['tracer'].tolist(), (base['tracer'] * sc_tr).tolist()))
            A.setMobilityCorrection('all', 0.5)
            same("object B after A.setMobilityCorrection('all', 0.5)", 'setter on another object', query(B, *p0), base, 1e-9, 'max_rel_difference_independence')
            same("object A after its setMobilityCorrection('all', 0.5)", 'own setter', query(A, *p0), base, 1e-9, 'max_rel_difference_independence', scale={'tracer': 0.5, 'interdiffusivity': 0.5})
            # ---- a path on ONE object with kept composition sets, against fresh evaluations
            Dfresh = mk()
            path = list(zip(xs, Ts)) + [p0]
            want = [query(Dfresh, x, T, True) for (x, T) in path]
            for k, (x, T) in enumerate(path):
                same('point %d of the path %r followed on one object with removeCache=False' % (k, path), 'kept composition sets', query(B, x, T, False), want[k], 1e-5, 'max_rel_difference_kept_composition_sets')
            Darr = np.array(C.getInterdiffusivity([xa(x) for x in xs], Ts, removeCache=False), float).reshape(len(Ts), len(els) - 1, len(els) - 1)
            for k in range(len(Ts)):
                same('entry %d of the array call getInterdiffusivity(%r, %r, removeCache=False)' % (k, xs, Ts), 'kept composition sets array', {'tracer': want[k]['tracer'], 'interdiffusivity': Darr[k]}, want[k], 1e-5, 'max_rel_difference_kept_composition_sets')
            # composition sets handed back to getLocalEq, curvature at every point
            ph = Dfresh.phases[0]
            cs = None
            for k, (x, T) in enumerate(path):
                res, cs = Dfresh.getLocalEq(xa(x), T, 0, [ph], composition_sets=cs)
                H = np.atleast_2d(dMudX(np.array(res.chemical_potentials), cs[0], els[0]))
                res2, cs2 = C.getLocalEq(xa(x), T, 0, [ph])
                H2 = np.atleast_2d(dMudX(np.array(res2.chemical_potentials), cs2[0], els[0]))
                e_ = float(np.max(np.abs(H - H2)) / np.max(np.abs(H2)))
                stats['max_rel_difference_kept_composition_sets'] = max(stats['max_rel_difference_kept_composition_sets'], e_)
                stats['comparisons'] += 1
                if e_ > 1e-5 and 'dMudX' not in seen:
                    seen.add('dMudX')
                    ctx.violation('object_history', {'site': SITE_H, 'cls': 'composition sets handed back dMudX'},
                                  {'kind': 'input', 'database_point': {'system': name, 'path': path, 'point': k}, 'observed': H.tolist(), 'expected': H2.tolist()},
                                  '%s: dMudX at point %d of the path %r with the composition sets handed back to getLocalEq = %r; with a new composition set at that point: %r' % (name, k, path, H.tolist(), H2.tolist()))
        except Exception as e:
            ctx.violation('no_internal_error', {'site': SITE_T, 'cls': 'object histories ' + name}, {'kind': 'input', 'database_point': {'system': name}, 'error': str(e)[:300]},
                          '%s: object histories: %s: %s' % (name, err_enum(e), str(e)[:200]))


# ------------------------------------------------------------------------------------------
def run(ctx):
    quick = ctx.quick
    ctx.cov['rule'] = ('duck-typed composition sets generated per kind (exact dyadic substitutional / random numbers in every slot / '
                       'states of a closed-form sublattice solution / singular bordered matrix), 2-6 elements, 0-2 interstitials on 1-2 '
                       'sublattices with or without vacancies, shuffled variable and state-variable order, both vacancy conventions, partial '
                       'mobility_correction dictionaries; plus sampled points of the shipped databases; a case is non-trivial when it has at '
                       'least two substitutional elements (database points always); distinct by hash of the exact input')
    axioms, failed = ctx.prove(['C10/Properties.v'])
    ncases = 130 if quick else 2500
    cases = corpus_cases() + [gen_case(ctx.rng, i, quick) for i in range(ncases)]
    dis, hits = explore(ctx, cases, 'main')
    report_hits(ctx, hits)
    hit_sites = set(h[3] for h in hits)
    unexplained = [d for d in dis if d[1] not in hit_sites]
    if unexplained:
        # the implementation no longer behaves like the model the theorems are about: search harder with the
        # independent oracle; what it cannot explain is reported as a broken correspondence with its input
        more = [gen_case(ctx.rng, i, quick) for i in range(400)]
        impls = [run_impl(c) for c in more]
        hits2 = [(c, im, *h) for c, im in zip(more, impls) for h in oracle(c, im)]
        ctx.cov['evaluations'] += len(more)
        report_hits(ctx, hits2)
        hit_sites |= set(h[3] for h in hits2)
    if dis:
        seen = set()
        unexplained = dis
        for (c, site, d) in dis:
            cls = d.split('[')[0].split(':')[0]
            if (site, cls) in seen:
                continue
            seen.add((site, cls))
            n_same = sum(1 for x in unexplained if x[1] == site and x[2].split('[')[0].split(':')[0] == cls)
            ctx.violation('correspondence', {'site': site, 'cls': cls},
                          {'kind': 'input', 'broken': {'correspondence': 'coq/C10/Model.v vs kawin/thermo/{Mobility,FreeEnergyHessian,Thermodynamics}.py', 'first_disagreement': d},
                           'input': hexcase(c), 'disagreements': n_same,
                           'oracle': 'the exact-rational model of coq/C10/Model.v (the object of the theorems), evaluated inside Coq on this input'},
                          'model and implementation disagree (%d cases), e.g. %s' % (n_same, d))
    ctx.notes['disagreements'] = len(dis)
    ctx.notes['oracle_hits'] = len(hits)
    shared_database_check(ctx, quick)
    object_history_check(ctx, quick)
    database_sampling(ctx, quick)
    for t in failed:
        ctx.violation(t, {'site': 'coq/C10/Properties.v', 'cls': 'proof'},
                      {'broken': {'theorem': t, 'file': 'coq/C10/Properties.v'}},
                      'theorem %s no longer checks' % t, no_input=True)
    ctx.assumptions += [
        'numpy.linalg.inv is an oracle of the model: the theorems hold for every function that returns a right inverse whenever it returns a matrix; '
        'the correspondence instantiates it with an exact elimination on rationals and checks K * Kinv = I exactly in every case',
        'symmetry of dMudX needs the phase record\'s formulahess block to be symmetric (a Hessian); Gibbs-Duhem needs the stationarity of the '
        'composition set (dG/dy - sum mu dM/dy in the row space of the constraint Jacobian) and X proportional to formulamole; both are hypotheses '
        'of the theorems and hold by construction for the closed-form solution used by the search',
        'binary64 rounding, numpy summation order and LAPACK are not modelled: outputs compared with relative tolerance 2^-36 of the summed '
        'magnitudes (2^-30 of the inverse\'s largest entry for results of the linear solve; generated matrices have condition number < 1e5); '
        'exact dyadic cases of the mobility matrix compared with 2^-50',
        'SAMPLED ONLY (pycalphad, no Coq model exists): agreement of dMudX with numerical derivatives of equilibrium chemical potentials, '
        'positive definiteness, real positive eigenvalues, Darken on the shipped databases (Al-Zr, Ni-Cr-Al in two element orders, Fe-Cr-Ni, '
        'Al-Mg-Si, Cu-Ti); "stable" there means the numerically differentiated curvature is positive definite',
        'ORACLE ONLY (not modelled in Coq): functions attached through setMobility/setDiffusivity and the phase= argument select the right callables '
        '(scripted two-phase GeneralThermodynamics with getLocalEq overridden; Fe-Cr-Ni FCC_A1/BCC_A2 in the sampled part)',
        'the hand-written model coq/C10/Model.v is tied to the code only through this correspondence']
    ctx.cov['trusted_base'] += ['Coq 8.16.1 kernel and vm_compute', 'hand-written model coq/C10/Model.v + correspondence harness harness/c10.py + coq/C10/Corr.v',
                                'float -> Q transport (hexadecimal float literals, Prim2SF) and output parser in harness/common.py',
                                'duck-typed composition sets stand in for pycalphad CompositionSet/PhaseRecord (attribute names checked against a real one by the database sampling)']


def replay(ctx, obj):
    if 'scenario' in obj:
        n0 = len(ctx.violations)
        shared_database_check(ctx, True, only=[obj['scenario']])
        for v_ in ctx.violations[n0:]:
            print('replay:', v_['clause'], v_['text'][:400])
        print('replay: %d violations on this scenario' % (len(ctx.violations) - n0))
        return 1 if len(ctx.violations) > n0 else 0
    if 'database_point' in obj:
        print('replay: database point %r - re-run ./check C10 (sampling is seeded)' % (obj['database_point'],))
        return 1
    c = unhexcase(obj['input'])
    im = run_impl(c)
    dis = []
    if im['err'] is None and finite(im):
        vals = ctx.coq_eval('replay', HEADER, model_terms(c, im))
        dis, info = compare(c, im, vals[:5])
        im['arr_model'] = vals[5]
    hits = oracle(c, im)
    for h in hits:
        print('replay:', h)
    for d in dis:
        print('replay: correspondence:', d)
    hits = hits + dis
    print('replay: %d violations on this input' % len(hits))
    return 1 if hits else 0
