"""C05 - the solver honours its time and state contract for any model.

proof:          coq/C05/Properties.v - theorems about the clock of DESolver.solve (real instance: all
                proposals / stop schedules / fractions; binary64 instance: end time, monotonicity) and
                about flattenX / unflattenX / the Coupler's _sizeRef register (coq/C05/Model.v).
correspondence: scripted GenericModel subclasses (dt proposals 0, negative, +-inf, NaN, jumps; stop
                schedules; scalar / vector / mixed states; couplings of 2-3 models, one re-shaping its
                state) are run through GenericModel.solve / Coupler under both built-in iterators; the
                accepted times and step sizes are compared BIT FOR BIT with the binary64 instance of
                the model evaluated inside Coq; flatten / unflatten results and the order and register
                values of every Coupler.flattenX / unflattenX call are compared with the D3 model.
search:         an oracle written from the property text (exact rational arithmetic on the recorded
                times, shape signatures of every callback argument) is applied to every recorded run.
"""
import json, math, os, copy
from fractions import Fraction
import numpy as np
from common import *

LEVEL = 'proof'
SITE = 'Solver'
CAP = 2500          # step cap of one scripted run (the run is aborted from postProcess beyond it)

HEADER = '''From Coq Require Import List ZArith PrimFloat.
Require Import Kawin.Common.Ops Kawin.C05.Model Kawin.C05.Corr.
Import ListNotations.
Open Scope float_scope.
'''

NAN, INF = float('nan'), float('inf')


# ------------------------------------------------------------------------------------------
# exact float transport (binary64 <-> Coq primitive float literal)
def flit(x):
    x = float(x)
    if math.isnan(x):
        return 'nan'
    if math.isinf(x):
        return 'infinity' if x > 0 else 'neg_infinity'
    h = x.hex()
    return '(%s)' % h


def flist(xs):
    return '[' + '; '.join(flit(x) for x in xs) + ']'


def blist(xs):
    return '[' + '; '.join(boollit(b) for b in xs) + ']'


def undecode(d):
    """(class, negative, mantissa, exponent) printed by Corr.decode -> float"""
    if d is None:
        return None
    if d[0] == 'Some':
        d = d[1]
    cls, neg, m, e = d
    if cls == 2:
        return NAN
    if cls == 1:
        return -INF if neg else INF
    v = math.ldexp(float(m), e)
    return -v if neg else v


def fhex(x):
    x = float(x)
    return 'nan' if math.isnan(x) else x.hex()


def unhex(s):
    return NAN if s == 'nan' else float.fromhex(s)


def ulp(x):
    return math.ulp(abs(float(x)))


# ------------------------------------------------------------------------------------------
# state layouts: a layout is a list of entries, None = scalar, n = 1-D array of length n
def gen_layout(rng):
    n = int(rng.choice([1, 2, 3, 4], p=[0.3, 0.35, 0.25, 0.1]))
    lay = []
    for _ in range(n):
        r = rng.random()
        if r < 0.4:
            lay.append(None)
        elif r < 0.47:
            lay.append(0)
        elif r < 0.55:
            lay.append(1)
        else:
            lay.append(int(rng.integers(2, 7)))
    if all(e == 0 for e in lay):
        lay.append(None)
    return lay


def make_state(lay, start=1.0, pyscalar=True):
    """a state with the given layout; entries numbered consecutively from `start`"""
    out, v = [], start
    for e in lay:
        if e is None:
            out.append(float(v) if pyscalar else np.float64(v))
            v += 1
        elif isinstance(e, (list, tuple)):
            n = int(np.prod(e))
            out.append(np.arange(v, v + n, dtype=float).reshape(tuple(e)))
            v += n
        else:
            out.append(np.arange(v, v + e, dtype=float))
            v += e
    return out


def sig(x):
    """shape signature of a nested state: the container kind and the shape of every entry"""
    if isinstance(x, (list, tuple)):
        return [type(x).__name__] + [sig_entry(e) for e in x]
    return ['?' + type(x).__name__, list(np.shape(x))]


def sig_entry(e):
    if isinstance(e, (list, tuple)):
        return sig(e)
    return list(np.shape(e))


def lay_sig(lay):
    return ['list'] + [[] if e is None else (list(e) if isinstance(e, (list, tuple)) else [e]) for e in lay]


def entry_size(e):
    return 1 if e is None else (int(np.prod(e)) if isinstance(e, (list, tuple)) else e)


def lay_size(lay):
    return sum(entry_size(e) for e in lay)


# ---- sub-models with their own flatten / unflatten instructions ("for more complex nesting, this
# function should be overloaded"): state = one 2-D array
#   grid: written like the shipped DiffusionModel - reshape what it is given to the shape of the reference
#   rows: rows of a fixed width, the number of rows follows from what it is given (reshape(-1, width))
CODECS = ('default', 'grid', 'rows')


def gen_custom_layout(rng):
    return [[int(rng.integers(1, 4)), int(rng.integers(1, 5))]]


def with_codec(base, codec, on_unfl=None):
    """subclass of `base` (a GenericModel class) with the given instructions; every unflattenX call
    reports what it was handed to on_unfl(model, X_flat)"""
    class M(base):
        def flattenX(self, X):
            if codec == 'default':
                return super().flattenX(X)
            if codec == 'grid':
                return np.reshape(X[0], (np.prod(np.shape(X[0]))))
            return np.ravel(X[0])

        def unflattenX(self, X_flat, X_ref):
            if on_unfl is not None:
                on_unfl(self, X_flat)
            if codec == 'default':
                return super().unflattenX(X_flat, X_ref)
            if codec == 'grid':
                return [np.reshape(X_flat, np.shape(X_ref[0]))]
            return [np.reshape(X_flat, (-1, np.shape(X_ref[0])[1]))]
    return M


def codec_kind(codec, lay):
    """number understood by Corr.codec_of"""
    return 0 if codec == 'default' else 1 if codec == 'grid' else 1 + int(lay[0][1])


# ------------------------------------------------------------------------------------------
# scripted user model
class CapReached(Exception):
    pass


def make_model_class():
    from kawin.GenericModel import GenericModel

    class Scripted(GenericModel):
        def __init__(self, t0, lay, props, dflt, stops, relayouts, log, name):
            super().__init__()
            self.t = t0
            self.lay = list(lay)
            self.X = make_state(lay)
            self.props, self.dflt, self.stops = props, dflt, stops
            self.relayouts = relayouts      # {step index: new layout} applied by postProcess
            self.log = log
            self.name = name
            self.kdt = 0
            self.kpost = 0

        def getCurrentX(self):
            # keep the object handed to the solver and a copy: it must not be modified by the run
            self.supplied = (self.X, copy.deepcopy(self.X))
            return self.t, self.X

        def supplied_mutated(self):
            if getattr(self, 'supplied', None) is None:
                return False
            obj, snap = self.supplied
            return sig(obj) != sig(snap) or any(not np.array_equal(np.asarray(a, dtype=float), np.asarray(b, dtype=float), equal_nan=True) for a, b in zip(obj, snap))

        def getdXdt(self, t, x):
            self.log.append(('getdXdt', self.name, self.kpost, sig(x)))
            # bounded derivative: the state stays finite whatever step sizes the script forces
            return [np.cos(np.asarray(e, dtype=float)) if np.ndim(e) else float(np.cos(float(e))) for e in x]

        def correctdXdt(self, dt, x, dXdt):
            self.log.append(('correct', self.name, self.kpost, sig(x), sig(dXdt), float(dt)))

        def getDt(self, dXdt):
            self.log.append(('getDt', self.name, self.kpost, sig(dXdt)))
            k = self.kdt
            self.kdt += 1
            if self.kdt > CAP + 3:
                raise CapReached()      # also when postProcess is (wrongly) not called any more
            p = self.props[k] if k < len(self.props) else self.dflt
            pt = getattr(self, 'ptype', 'float')
            if pt == 'np':
                return np.float64(p)
            if pt == '0d':
                return np.array(p)
            if pt == 'int' and math.isfinite(p) and float(p).is_integer() and abs(p) < 2 ** 52:
                return int(p)
            return p

        def postProcess(self, time, x):
            k = self.kpost
            self.log.append(('post', self.name, k, sig(x), float(time)))
            self.kpost += 1
            if self.kpost > CAP:
                raise CapReached()
            stop = self.stops[k] if k < len(self.stops) else False
            self.t = time
            if k in self.relayouts:
                self.lay = list(self.relayouts[k])
                x = make_state(self.lay, start=100.0 * (k + 1))
                self.log.append(('relayout', self.name, k, lay_sig(self.lay)))
            self.X = x
            return x, stop

    return Scripted


SLOTS = ('preProcess', 'postProcess', 'printHeader', 'printStatus')


def segments(c):
    s0 = {k: c[k] for k in ('simTime', 'fmin', 'fmax', 'iterator')}
    s0['conv'] = c.get('conv', 'kw')
    s0['simtype'] = c.get('simtype', 'float')
    return [s0] + [dict(x) for x in c.get('more', [])]


def expected_hooks(calls):
    """documented semantics of DESolver.setFunctions: an omitted hook keeps the one registered before"""
    out = [None] * 4
    for i, call in enumerate(calls):
        for k in range(4):
            if call[k]:
                out[k] = i
    return out


class Runner:
    """one (possibly coupled) scripted model object; run_seg(i) performs its i-th solve() call"""
    def __init__(self, c):
        from kawin.GenericModel import Coupler
        Scripted = make_model_class()
        self.c = c
        self.log = log = []
        self.clog = clog = []
        self.hlog = []
        self.ms = []
        for j, m in enumerate(c['models']):
            cls = with_codec(Scripted, m.get('codec', 'default'),
                             lambda mdl, xf: log.append(('unfl', mdl.name, mdl.kpost, int(np.size(xf)))))
            mdl = cls(c['t0'], m['layout'], m['props'], c['dflt'], m['stops'],
                      {int(k): v for k, v in m.get('relayouts', {}).items()}, log, j)
            mdl.ptype = c.get('ptype', 'float')
            self.ms.append(mdl)
        if c['coupled']:
            class LoggedCoupler(Coupler):
                def flattenX(self, X):
                    r = super().flattenX(X)
                    clog.append(('F', list(self._sizeRef)))
                    return r

                def unflattenX(self, X_flat, X_ref):
                    clog.append(('U', list(getattr(self, '_sizeRef', [])), len(X_flat)))
                    return super().unflattenX(X_flat, X_ref)
            self.top = LoggedCoupler(self.ms)
            self.top.time = np.array([c['t0']])
        else:
            self.top = self.ms[0]
        self.segs = segments(c)
        self.results = []
        self.dead = False

    def now(self):
        return float(self.ms[0].t)

    def seg_case(self, i):
        """what a FRESH object in the current state of this one would be asked to do in segment i"""
        c, sg = self.c, self.segs[i]
        models = []
        for m, mdl in zip(c['models'], self.ms):
            models.append({'layout': list(mdl.lay), 'props': list(m['props'][mdl.kdt:]), 'stops': list(m['stops'][mdl.kpost:]),
                           'relayouts': {str(int(k) - mdl.kpost): v for k, v in m.get('relayouts', {}).items() if int(k) >= mdl.kpost},
                           'codec': m.get('codec', 'default')})
        ci = {'kind': c['kind'], 'iterator': sg['iterator'], 'coupled': c['coupled'], 't0': self.now(), 'simTime': float(sg['simTime']),
              'fmin': float(sg['fmin']), 'fmax': float(sg['fmax']), 'dflt': c['dflt'], 'models': models, 'segment': i}
        if i == 0 and c.get('direct'):
            ci['direct'] = c['direct']
        return ci

    def call(self, sg, direct):
        from kawin.solver import SolverType, DESolver
        import contextlib, io
        it = SolverType.EXPLICITEULER if sg['iterator'] == 'Euler' else SolverType.RK4
        sim, st = sg['simTime'], sg.get('simtype', 'float')
        simv = np.float64(sim) if st == 'np' else np.array(sim) if st == '0d' else \
            int(sim) if (st == 'int' and float(sim).is_integer()) else sim
        fmin, fmax, top = sg['fmin'], sg['fmax'], self.top
        dflt_frac = (fmin == 1e-8 and fmax == 1.0)
        conv = sg.get('conv', 'kw')
        if direct:
            # the model plugged into DESolver directly, hooks registered in several setFunctions calls
            ctor = direct.get('ctor', 'kw')
            if ctor == 'pos':
                solver = DESolver(it, 0.1, fmin, fmax)
            elif ctor == 'omit' and dflt_frac:
                solver = DESolver(it)
            else:
                solver = DESolver(iterator=it, minDtFrac=fmin, maxDtFrac=fmax)
            hl = self.hlog

            def mk(slot, tag):
                if slot == 0:
                    return lambda: (hl.append((0, tag)), top.preProcess())[1]
                if slot == 1:
                    return lambda t, x: (hl.append((1, tag)), top.postProcess(t, x))[1]
                if slot == 2:
                    return lambda: hl.append((2, tag))
                return lambda it_, t_, el_: hl.append((3, tag))
            for k, callspec in enumerate(direct['calls']):
                given = [mk(sl, k) if callspec[sl] else None for sl in range(4)]
                last = max([sl for sl in range(4) if callspec[sl]] + [-1])
                if direct.get('positional') and all(callspec[:last + 1]):
                    solver.setFunctions(*given[:last + 1])
                else:
                    solver.setFunctions(**{SLOTS[sl]: given[sl] for sl in range(4) if callspec[sl]})
            solver.setdXdtFunctions(top.getdXdt, top.correctdXdt, top.getDt, top.flattenX, top.unflattenX)
            t, X0 = top.getCurrentX()
            top.setTimeInfo(t, simv)
            with contextlib.redirect_stdout(io.StringIO()):
                solver.solve(top.initialTime, X0, top.finalTime, bool(direct.get('verbose')), 3)
        elif conv == 'pos':
            top.solve(simv, it, False, 10, fmin, fmax)
        elif conv == 'omit' and dflt_frac:
            if sg['iterator'] == 'RK4':
                top.solve(simv)
            else:
                top.solve(simv, it)
        elif conv == 'kwall':
            top.solve(simTime=simv, solverType=it, verbose=False, vIt=10, minDtFrac=fmin, maxDtFrac=fmax)
        else:
            top.solve(simv, it, minDtFrac=fmin, maxDtFrac=fmax)

    def run_seg(self, i):
        if self.dead or i >= len(self.segs):
            return
        ci = self.seg_case(i)
        l0, c0, h0 = len(self.log), len(self.clog), len(self.hlog)
        out = {'err': None, 'capped': False}
        try:
            self.call(self.segs[i], ci.get('direct'))
        except CapReached:
            out['capped'] = True
        except Exception as e:
            out['err'] = type(e).__name__ + ': ' + str(e)[:200]
        log = self.log[l0:]
        out['tf'] = float(self.top.finalTime) if hasattr(self.top, 'finalTime') else None
        # accepted times / dt as seen by model 0 (every model of a coupling sees the same ones)
        out['times'] = [e[4] for e in log if e[0] == 'post' and e[1] == 0]
        dts, last = [], None
        for e in log:
            if e[1] != 0:
                continue
            if e[0] == 'correct':
                last = e[5]
            elif e[0] == 'post':
                dts.append(last)
        out['dts'] = dts
        out['log'] = log
        out['clog'] = self.clog[c0:]
        out['hooks'] = [sorted(set(t for (sl, t) in self.hlog[h0:] if sl == k)) for k in range(4)]
        out['supplied_mutated'] = [j for j, m in enumerate(self.ms) if m.supplied_mutated()]
        self.results.append((ci, out))
        if out['capped'] or out['err'] or not math.isfinite(self.now()) or any(not math.isfinite(t) for t in out['times']):
            self.dead = True      # a broken clock is reported for this call; later calls would start from garbage


def run_history(c):
    r = Runner(c)
    for i in range(len(r.segs)):
        r.run_seg(i)
    return r.results


def run_interleaved(cs):
    """several objects alive at the same time, their solve() calls interleaved"""
    rs = [Runner(c) for c in cs]
    for i in range(max(len(r.segs) for r in rs)):
        for r in rs:
            r.run_seg(i)
    return [r.results for r in rs]


def run_impl(c):
    """first segment only (single-call cases)"""
    return run_history(c)[0][1]


def oracle_history(c, results=None):
    """the property text applied to every solve() call of the object; returns (segment, clause, cls, msg)"""
    out = []
    for (ci, im) in (results if results is not None else run_history(c)):
        for (clause, cls, msg) in oracle(ci, im):
            pre = 'solve call %d of the object: ' % (ci['segment'] + 1) if len(segments(c)) > 1 else ''
            out.append((ci['segment'], clause, cls, pre + msg))
    return out


# ------------------------------------------------------------------------------------------
# generators
def gen_props(rng, n, delta, fmin, fmax, wild):
    out = []
    for _ in range(n):
        r = rng.random()
        if r < 0.45 or not wild:
            out.append(float(delta * 10 ** rng.uniform(-3, 0.5)))
        elif r < 0.52:
            out.append(0.0)
        elif r < 0.56:
            out.append(-0.0)
        elif r < 0.63:
            out.append(-float(delta * 10 ** rng.uniform(-3, 3)))
        elif r < 0.70:
            out.append(INF)
        elif r < 0.74:
            out.append(-INF)
        elif r < 0.82:
            out.append(NAN)
        elif r < 0.86:
            out.append(float(rng.choice([1e-300, 5e-324, 1e300, 1.7976931348623157e308])))
        elif r < 0.92:
            out.append(float(fmin * delta * rng.choice([1.0, 0.999999, 1.000001])))
        else:
            out.append(float(fmax * delta * rng.choice([1.0, 0.999999, 1.000001, 0.5])))
    return out


def gen_case(rng, idx):
    kind = str(rng.choice(['plain', 'wild', 'wild', 'dyadic', 'default_frac', 'coupled', 'reshape', 'resolution'],
                          p=[0.12, 0.2, 0.2, 0.1, 0.1, 0.15, 0.1, 0.03]))
    c = {'kind': kind, 'iterator': str(rng.choice(['Euler', 'RK4'])), 'coupled': kind in ('coupled', 'reshape')}
    if kind == 'dyadic':
        t0 = float(rng.choice([0.0, 1.0, -4.0, 0.5, 1024.0]))
        sim = float(rng.choice([1.0, 2.0, 0.5, 8.0, 3.0]))
        fmin = float(rng.choice([0.125, 0.0625, 0.25]))
        fmax = float(rng.choice([0.25, 0.5, 1.0]))
    else:
        t0 = float(rng.choice([0.0, -3.5, 1e8, rng.uniform(0, 10), 10 ** rng.uniform(-6, 6), -10 ** rng.uniform(-3, 4)],
                              p=[0.2, 0.05, 0.05, 0.3, 0.3, 0.1]))
        sim = float(10 ** rng.uniform(-3, 5))
        if kind == 'default_frac':
            fmin, fmax = 1e-8, 1.0
        else:
            fmin = float(rng.choice([10 ** rng.uniform(-3, -0.3), 0.25, 0.5, 1.0, 1e-8], p=[0.6, 0.1, 0.1, 0.05, 0.15]))
            fmax = float(rng.choice([1.0, min(1.0, fmin * 10 ** rng.uniform(0, 2)), fmin, fmin * 10 ** rng.uniform(0, 1.5)],
                                    p=[0.4, 0.3, 0.1, 0.2]))
    if kind == 'resolution':
        # minimum step below the spacing of binary64 numbers at t0 (see notes/C05.md: absorption)
        t0 = float(rng.choice([1e9, 3e10, -2e9]))
        sim = float(rng.choice([1.0, 0.25]))
        fmin, fmax = 1e-8, 1.0
    c.update(t0=t0, simTime=sim, fmin=fmin, fmax=fmax)
    delta = sim
    wild = kind not in ('plain', 'dyadic')
    nm = int(rng.integers(2, 4)) if c['coupled'] else 1
    # default proposal (used beyond the scripted prefix): must let the run finish within the cap
    if kind == 'resolution':
        dflt = 0.0
    elif fmin * CAP > 4 and rng.random() < 0.5:
        dflt = float(rng.choice([0.0, NAN, -1.0, fmin * delta]))
    else:
        dflt = float(rng.choice([INF, delta * 10 ** rng.uniform(-1.5, 0), delta]))
    if kind == 'dyadic':
        dflt = float(rng.choice([0.0, 0.125, 0.25, 1.0, INF]))
    c['dflt'] = dflt
    models = []
    for j in range(nm):
        n = int(rng.integers(0, 25))
        if kind == 'dyadic':
            props = [float(rng.choice([0.0, 0.125, 0.25, 0.375, 0.5, 1.0, 2.0, -1.0, INF, NAN])) for _ in range(n)]
        else:
            props = gen_props(rng, n, delta, fmin, fmax, wild)
        ns = int(rng.integers(0, 30)) if rng.random() < 0.35 else 0
        stops = [False] * ns
        if ns:
            stops[-1] = True
            if rng.random() < 0.3:
                stops.append(True)
        m = {'layout': gen_layout(rng), 'props': props, 'stops': stops, 'relayouts': {}, 'codec': 'default'}
        if kind == 'reshape' and j == 0:
            every = int(rng.integers(1, 4))
            m['relayouts'] = {str(k): gen_layout(rng) for k in range(0, 40, every)}
        elif (c['coupled'] and rng.random() < 0.4) or (kind in ('plain', 'wild') and rng.random() < 0.12):
            # a model with its own flatten / unflatten instructions, at any position of the coupling
            m['codec'] = str(rng.choice(['grid', 'rows']))
            m['layout'] = gen_custom_layout(rng)
            if m['codec'] == 'rows' and rng.random() < 0.3:
                w = m['layout'][0][1]
                m['relayouts'] = {str(k): [[int(rng.integers(1, 4)), w]] for k in range(0, 40, int(rng.integers(1, 4)))}
        models.append(m)
    c['models'] = models
    # calling conventions of the public entry points: positional / keyword / omitted optional arguments,
    # duration and proposals as Python float / numpy scalar / 0-d array / int
    if kind != 'resolution':
        c['conv'] = str(rng.choice(['kw', 'pos', 'kwall', 'omit']))
        c['simtype'] = str(rng.choice(['float', 'np', '0d', 'int'], p=[0.4, 0.25, 0.25, 0.1]))
        c['ptype'] = str(rng.choice(['float', 'np', '0d', 'int'], p=[0.4, 0.25, 0.25, 0.1]))
        r = rng.random()
        if r < 0.25:
            # the same object is used for further solve() calls with other durations / fractions / iterators
            c['more'] = []
            for _ in range(int(rng.integers(1, 3))):
                f1 = float(rng.choice([10 ** rng.uniform(-2.5, -0.3), 0.25, 0.5, 1e-8], p=[0.55, 0.15, 0.1, 0.2]))
                f2 = float(rng.choice([1.0, min(1.0, f1 * 10 ** rng.uniform(0, 2)), f1], p=[0.35, 0.45, 0.2]))
                c['more'].append({'simTime': float(sim * 10 ** rng.uniform(-1, 1)) if kind != 'dyadic' else float(rng.choice([0.5, 1.0, 2.0])),
                                  'fmin': f1, 'fmax': f2, 'iterator': str(rng.choice(['Euler', 'RK4'])),
                                  'conv': str(rng.choice(['kw', 'pos', 'kwall', 'omit'])),
                                  'simtype': str(rng.choice(['float', 'np', '0d']))})
        elif r < 0.37:
            # the model plugged into DESolver directly; hooks registered in several setFunctions calls
            ncalls = int(rng.integers(1, 5))
            calls = [[bool(rng.random() < 0.4) for _ in range(4)] for _ in range(ncalls)]
            calls[int(rng.integers(0, ncalls))][1] = True       # postProcess is registered by some call
            c['direct'] = {'calls': calls, 'ctor': str(rng.choice(['kw', 'pos', 'omit'])),
                           'positional': bool(rng.random() < 0.5), 'verbose': bool(rng.random() < 0.5)}
    return c


def hexcase(c):
    d = copy.deepcopy(c)
    for k in ('t0', 'simTime', 'fmin', 'fmax', 'dflt'):
        d[k] = fhex(c[k])
    for m in d['models']:
        m['props'] = [fhex(p) for p in m['props']]
    for sg in d.get('more', []):
        for k in ('simTime', 'fmin', 'fmax'):
            sg[k] = fhex(sg[k])
    d['decimal'] = {k: c[k] for k in ('t0', 'simTime', 'fmin', 'fmax')}
    if c.get('more'):
        d['decimal']['more'] = [{k: sg[k] for k in ('simTime', 'fmin', 'fmax')} for sg in c['more']]
    return d


def unhexcase(d):
    c = copy.deepcopy(d)
    for k in ('t0', 'simTime', 'fmin', 'fmax', 'dflt'):
        c[k] = unhex(d[k]) if isinstance(d[k], str) else float(d[k])
    for m in c['models']:
        m['props'] = [unhex(p) if isinstance(p, str) else float(p) for p in m['props']]
        m.setdefault('stops', [])
        m.setdefault('relayouts', {})
        m.setdefault('codec', 'default')
    for sg in c.get('more', []):
        for k in ('simTime', 'fmin', 'fmax'):
            sg[k] = unhex(sg[k]) if isinstance(sg[k], str) else float(sg[k])
    c.pop('decimal', None)
    c.setdefault('coupled', len(c['models']) > 1)
    return c


def corpus_cases():
    out = []
    p = os.path.join(VERIF, 'corpus', 'C05')
    if os.path.isdir(p):
        for f in sorted(os.listdir(p)):
            if f.endswith('.json'):
                d = json.load(open(os.path.join(p, f)))
                d = d.get('input', d)
                c = unhexcase(d)
                c['kind'] = 'corpus:' + f
                out.append(c)
    return out


# ------------------------------------------------------------------------------------------
# independent oracle: the property text evaluated on the recorded run (exact rationals)
def py_amin(vals):
    m = vals[0]
    for x in vals[1:]:
        if math.isnan(m):
            return m
        if math.isnan(x) or x < m:
            m = x
    return m


def expected_stop_index(c, nsteps):
    for k in range(nsteps):
        if any((m['stops'][k] if k < len(m['stops']) else False) for m in c['models']):
            return k
    return None


def below_resolution(c):
    tf = c['t0'] + c['simTime']
    return c['fmin'] * abs(tf - c['t0']) < 0.5 * max(ulp(c['t0']), ulp(tf))


def oracle_clock(c, im):
    """returns list of (clause, cls, message)"""
    v = []
    if im['err']:
        return [('no_internal_error', 'exception', 'solve raised ' + im['err'])]
    t0, sim, fmin, fmax = c['t0'], c['simTime'], c['fmin'], c['fmax']
    tf = t0 + sim                      # "exactly t0 + dt_total": the binary64 sum, as the caller computes it
    ts = im['times']
    T0, TF = Fraction(t0), Fraction(tf)
    D = TF - T0
    n = len(ts)
    if any(math.isnan(t) or math.isinf(t) for t in ts):
        k = [i for i, t in enumerate(ts) if not math.isfinite(t)][0]
        return [('never_exceeds', 'non-finite time', 'accepted time %d is %r' % (k, ts[k]))]
    stop_at = expected_stop_index(c, max([n] + [len(m['stops']) for m in c['models']]))
    prev = t0
    # float slack: dtmin/dtmax are computed as fmin*(tf-t0) in binary64 and the clock adds rounded steps
    slack = lambda a, b: 4 * Fraction(max(ulp(a), ulp(b), ulp(tf))) + Fraction(1, 2 ** 48) * abs(D)
    for k, t in enumerate(ts):
        if not t > prev:
            cls = 'step below float resolution' if below_resolution(c) else 'not increasing'
            v.append(('times_strict', cls, 'accepted time %d = %s does not exceed the previous time %s (t0=%r, dt_total=%r, minDtFrac=%r)'
                      % (k, fhex(t), fhex(prev), t0, sim, fmin)))
            break
        if t > tf:
            v.append(('never_exceeds', 'overshoot', 'accepted time %d = %s (%r) exceeds the end time %s (%r)' % (k, fhex(t), t, fhex(tf), tf)))
            break
        step = Fraction(t) - Fraction(prev)
        last = (k == n - 1) and not im['capped']
        lo, hi = Fraction(fmin) * D, Fraction(fmax) * D
        sl = slack(prev, t)
        if step > hi + sl:
            v.append(('dt_bounds', 'above maximum', 'step %d = %r exceeds maxDtFrac*dt_total = %r' % (k, float(step), float(hi))))
            break
        if step < lo - sl and not (last and t == tf):
            # only the step that reaches the end time may be shorter than the minimum
            v.append(('dt_bounds', 'below minimum', 'step %d = %r is below minDtFrac*dt_total = %r and does not end the run at the end time' % (k, float(step), float(lo))))
            break
        # the step size handed to the iterator / correctdXdt is the amount the clock advanced
        dk = im['dts'][k] if k < len(im['dts']) else None
        if dk is not None and math.isfinite(dk) and abs(Fraction(dk) - step) > sl:
            v.append(('dt_bounds', 'dt differs from time increment',
                      'step %d: the model was integrated with dt = %r but the clock advanced by %r' % (k, dk, float(step))))
            break
        prev = t
    if v:
        return v
    if im['capped']:
        bound = 2 + math.ceil(1 / fmin)
        if n > bound:
            cls = 'step below float resolution' if below_resolution(c) else 'no termination'
            v.append(('terminates', cls, 'run did not reach the end time within %d steps (bound 2+ceil(1/minDtFrac) = %d)' % (n, bound)))
        return v
    if stop_at is not None and stop_at < n:
        if n != stop_at + 1:
            v.append(('stops_at_first', 'ran past stop', 'model asked to stop at step %d but the run made %d steps' % (stop_at, n)))
    else:
        # no stop request among the steps made: the run must have reached the end time, exactly
        end = ts[-1] if n else t0
        if sim > 0 and end != tf:
            v.append(('ends_exactly', 'end time', 'run ended at %s (%r) after %d steps without a stop request, expected t0+dt_total = %s (%r)' % (fhex(end), end, n, fhex(tf), tf)))
    return v


def oracle_shapes(c, im):
    """every state handed to a callback has the nested structure and shapes the model supplied
    (initially by getCurrentX, afterwards by its latest postProcess)"""
    v = []
    if im.get('supplied_mutated'):
        return [('shape_preserved', 'supplied state modified',
                 'the state object model %d returned from getCurrentX was modified in place by the run' % im['supplied_mutated'][0])]
    cur = {j: lay_sig(m['layout']) for j, m in enumerate(c['models'])}
    for e in im['log']:
        kind, j = e[0], e[1]
        if kind == 'relayout':
            cur[j] = e[3]
            continue
        if kind == 'unfl':
            continue
        sigs = [e[3]] + ([e[4]] if kind == 'correct' else [])
        for s in sigs:
            if s != cur[j]:
                v.append(('shape_preserved', 'callback ' + kind,
                          '%s of model %d at step %d received layout %r, the model supplied %r' % (kind, j, e[2], s, cur[j])))
                return v
    return v


def oracle_hooks(c, im):
    """model plugged into DESolver directly: a hook that was registered (and not replaced later) is the
    one the solver calls - in particular the model's postProcess is told about every accepted step"""
    d = c.get('direct')
    if not d or im['err']:
        return []
    exp = expected_hooks(d['calls'])
    if exp[1] is not None and c['simTime'] > 0 and not any(e[0] == 'post' for e in im['log']):
        return [('stops_at_first', 'registered postProcess not called',
                 'postProcess was registered by setFunctions call %d of %r (given slots per call, order preProcess/postProcess/printHeader/printStatus) '
                 'but was never called: no accepted step was reported to the model and its stop requests are ignored' % (exp[1], d['calls']))]
    return []


def oracle(c, im):
    h = oracle_hooks(c, im)
    if h:
        return h + oracle_shapes(c, im)
    return oracle_clock(c, im) + oracle_shapes(c, im)


def sig_size(sg):
    return sum(int(np.prod(e)) if e else 1 for e in sg[1:])


def handed_disagreements(c, im):
    """model: every unflattenX of a (sub-)model is handed exactly as many values as its current state
    flattens to (Model.cunflatten_args / C05_coupler_args_exact; DESolver hands a single model the whole array)"""
    cur = {j: lay_sig(m['layout']) for j, m in enumerate(c['models'])}
    for e in im['log']:
        if e[0] == 'relayout':
            cur[e[1]] = e[3]
        elif e[0] == 'unfl' and e[3] != sig_size(cur[e[1]]):
            return ['unflattenX of model %d (%s instructions) at step %d was handed %d values, its state holds %d' % (
                e[1], c['models'][e[1]].get('codec', 'default'), e[2], e[3], sig_size(cur[e[1]]))]
    return []


# ------------------------------------------------------------------------------------------
# model terms
def clock_term(c, im, snap=True):
    props = '[' + '; '.join(flist(m['props']) for m in c['models']) + ']'
    stops = '[' + '; '.join(blist(m['stops']) for m in c['models']) + ']'
    n = len(im['times'])
    fuel = n if im['capped'] else n + 1
    return 'check_clock %s %s %s %s %s %s %s %s %s %s %s' % (
        boollit(snap), props, flit(c['dflt']), stops, natlit(fuel), flit(c['t0']), flit(c['simTime']),
        flit(c['fmin']), flit(c['fmax']), flist(im['times']), flist(im['dts']))


def zstate_lit(lay, start=0):
    parts, v = [], start
    for e in lay:
        if e is None:
            parts.append('Sc %s' % zlit(v))
            v += 1
        else:
            n = entry_size(e)
            parts.append('Arr [%s]' % '; '.join(zlit(v + i) for i in range(n)))
            v += n
    return '[' + '; '.join(parts) + ']'


def layouts_by_step(c, nsteps):
    """reference layouts of every model at each iteration"""
    lays = [list(m['layout']) for m in c['models']]
    out = []
    for k in range(nsteps):
        out.append([list(l) for l in lays])
        for j, m in enumerate(c['models']):
            if str(k) in m.get('relayouts', {}):
                lays[j] = list(m['relayouts'][str(k)])
    return out


def events_term(c, nsteps):
    steps = layouts_by_step(c, nsteps)
    lit = '[' + '; '.join('[' + '; '.join(zstate_lit(l) for l in st) + ']' for st in steps) + ']'
    return 'check_events %s %s %s' % (c['iterator'], natlit(len(c['models'])), lit)


def compare_clock(c, im, res):
    fin, nmod, dt_, dd = res
    dis = []
    if fin != (not im['capped']):
        dis.append('termination: implementation %s after %d steps, model %s after %d' % (
            'capped' if im['capped'] else 'finished', len(im['times']), 'finished' if fin else 'out of fuel', nmod))
    if dt_ is not None:
        k, mv = dt_[1]
        dis.append('time[%d]: implementation %s, model %s' % (
            k, fhex(im['times'][k]) if k < len(im['times']) else 'none', fhex(undecode(mv)) if mv is not None else 'none'))
    if dd is not None:
        k, mv = dd[1]
        dis.append('dt[%d]: implementation %s, model %s' % (
            k, fhex(im['dts'][k]) if k < len(im['dts']) and im['dts'][k] is not None else 'none', fhex(undecode(mv)) if mv is not None else 'none'))
    return dis


def compare_events(c, im, res):
    model = [('F' if f else 'U', list(reg)) for f, reg in res]
    impl = [(e[0], e[1]) for e in im['clog']]
    if impl != model:
        k = next((i for i, (a, b) in enumerate(zip(impl, model)) if a != b), min(len(impl), len(model)))
        return ['Coupler call %d: implementation %r, model %r (of %d / %d calls)' % (
            k, impl[k] if k < len(impl) else None, model[k] if k < len(model) else None, len(impl), len(model))]
    return []


# ------------------------------------------------------------------------------------------
# flatten / unflatten correspondence (D3)
def gen_flat_case(rng):
    lay = gen_layout(rng)
    ref = gen_layout(rng) if rng.random() < 0.5 else list(lay)
    need = lay_size(ref)
    r = rng.random()
    nflat = need if r < 0.6 else max(0, need + int(rng.integers(-3, 4)))
    return {'layout': lay, 'ref': ref, 'nflat': nflat}


def state_to_py(x):
    """nested state -> comparable python structure of ints"""
    out = []
    for e in x:
        if np.ndim(e) == 0:
            out.append(('Sc', int(round(float(e)))))
        else:
            out.append(('Arr', [int(round(float(t))) for t in np.ravel(e)]))
    return out


def model_state_to_py(s):
    out = []
    for e in s:
        if e[0] == 'Sc':
            out.append(('Sc', e[1]))
        else:
            out.append(('Arr', list(e[1])))
    return out


def run_flat_impl(fc):
    from kawin.GenericModel import GenericModel
    g = GenericModel()
    s = make_state(fc['layout'], start=1.0, pyscalar=(fc['nflat'] % 2 == 0))
    ref = make_state(fc['ref'], start=1000.0)
    flat_in = np.arange(500, 500 + fc['nflat'], dtype=float)
    out = {}
    try:
        out['flat'] = [int(round(x)) for x in np.ravel(g.flattenX(s))]
    except Exception as e:
        out['flat'] = 'raised ' + type(e).__name__
    ref_before = copy.deepcopy(ref)
    try:
        u = g.unflattenX(flat_in, ref)
        out['unflat'] = state_to_py(u)
        out['unflat_sig'] = sig(u)
    except (IndexError, ValueError) as e:
        out['unflat'] = None
        out['exc'] = type(e).__name__
    out['ref_mutated'] = sig(ref) != sig(ref_before) or any(
        not np.array_equal(np.asarray(a), np.asarray(b)) for a, b in zip(ref, ref_before))
    # round trip on the model's own state
    try:
        rt = g.unflattenX(g.flattenX(s), s)
        out['roundtrip_ok'] = (sig(rt) == lay_sig(fc['layout'])) and all(
            np.array_equal(np.asarray(a), np.asarray(b)) for a, b in zip(rt, s))
    except Exception as e:
        out['roundtrip_ok'] = False
        out['roundtrip_exc'] = type(e).__name__ + ': ' + str(e)[:120]
    return out


def flat_term(fc):
    return 'check_flat %s [%s] %s' % (zstate_lit(fc['layout'], 1), '; '.join(zlit(500 + i) for i in range(fc['nflat'])),
                                      zstate_lit(fc['ref'], 1000))


def gen_coupler_case(rng):
    nm = int(rng.integers(1, 4))
    codecs = [str(rng.choice(CODECS, p=[0.55, 0.25, 0.2])) for _ in range(nm)]
    lays = [gen_layout(rng) if cd == 'default' else gen_custom_layout(rng) for cd in codecs]
    if rng.random() < 0.6:
        refs = [list(l) for l in lays]
    else:
        # reference of another layout (a 'rows' model keeps its width)
        refs = [gen_layout(rng) if cd == 'default' else
                ([[int(rng.integers(1, 4)), l[0][1]]] if cd == 'rows' else gen_custom_layout(rng))
                for cd, l in zip(codecs, lays)]
    return {'layouts': lays, 'refs': refs, 'codecs': codecs}


def run_coupler_impl(cc):
    from kawin.GenericModel import GenericModel, Coupler
    handed = []
    codecs = cc.get('codecs', ['default'] * len(cc['layouts']))
    ms = [with_codec(GenericModel, cd, lambda mdl, xf: handed.append([int(round(float(v))) for v in np.ravel(xf)]))()
          for cd in codecs]
    cp = Coupler(ms)
    X, v = [], 1.0
    for l in cc['layouts']:
        X.append(make_state(l, start=v))
        v += lay_size(l)
    flat = cp.flattenX(X)
    out = {'flat': [int(round(x)) for x in flat], 'sizeRef': [int(s) for s in cp._sizeRef]}
    Xref = [make_state(l, start=1000.0) for l in cc['refs']]
    flat_in = np.arange(500, 500 + len(flat), dtype=float)
    del handed[:]
    try:
        u = cp.unflattenX(flat_in, Xref)
        out['unflat'] = [state_to_py(x) for x in u]
    except (IndexError, ValueError) as e:
        out['unflat'] = None
    out['handed'] = [list(h) for h in handed]
    del handed[:]
    try:
        rt = cp.unflattenX(cp.flattenX(X), X)
        out['roundtrip_ok'] = all(sig(a) == lay_sig(l) and all(np.array_equal(np.asarray(p), np.asarray(q)) for p, q in zip(a, b))
                                  for a, b, l in zip(rt, X, cc['layouts'])) and len(rt) == len(X)
        # property text: each model gets back the structure and shapes it supplied
        out['roundtrip_sigs'] = [sig(a) for a in rt]
    except Exception as e:
        out['roundtrip_ok'] = False
        out['roundtrip_exc'] = type(e).__name__ + ': ' + str(e)[:120]
    return out


def coupler_term(cc, im):
    X, v = [], 1
    for l in cc['layouts']:
        X.append(zstate_lit(l, v))
        v += lay_size(l)
    n = len(im['flat'])
    codecs = cc.get('codecs', ['default'] * len(cc['layouts']))
    return 'check_coupler [%s] [%s] [%s] [%s] [%s]' % (
        '; '.join(natlit(codec_kind(cd, l)) for cd, l in zip(codecs, cc['layouts'])),
        '; '.join(X), '; '.join(natlit(s) for s in im['sizeRef']), '; '.join(zlit(500 + i) for i in range(n)),
        '; '.join(zstate_lit(l, 1000) for l in cc['refs']))


# ------------------------------------------------------------------------------------------
def nontrivial(c, im):
    """non-trivial: at least two accepted steps and a proposal that had to be clamped, a stop, or a
    non-finite proposal"""
    wildp = any((not math.isfinite(p)) or p <= 0 for m in c['models'] for p in m['props'])
    return len(im['times']) >= 2 and (wildp or any(m['stops'] for m in c['models']) or c['coupled'])


def report_hits(ctx, hits):
    """hits: (case, segment, clause, cls, msg)"""
    seen = set()
    for (c, seg, clause, cls, msg) in hits:
        if (clause, cls) in seen:
            continue
        seen.add((clause, cls))
        small, smsg = shrink(c, clause, cls, msg)
        site = 'GenericModel' if clause == 'shape_preserved' else SITE
        ctx.violation(clause, {'site': site, 'cls': cls},
                      {'kind': 'history', 'input': hexcase(small), 'observed': smsg,
                       'oracle': 'property text evaluated on every recorded solve() call with exact rationals (harness/c05.py: oracle)'},
                      smsg)


def shrink(c, clause, cls, msg):
    """drop solve calls / models / scripted proposals / re-layouts while the same oracle clause keeps failing"""
    def fails(d):
        try:
            hs = [h for h in oracle_history(d) if h[1] == clause and h[2] == cls]
        except Exception:
            return None
        return hs[0][3] if hs else None
    cur, curmsg = c, msg
    changed = True
    rounds = 0
    while changed and rounds < 6:
        changed = False
        rounds += 1
        cands = []
        more = cur.get('more', [])
        for k in range(len(more)):
            d = copy.deepcopy(cur)
            del d['more'][k]
            cands.append(d)
        if cur.get('direct') and len(cur['direct']['calls']) > 1:
            for k in range(len(cur['direct']['calls'])):
                d = copy.deepcopy(cur)
                del d['direct']['calls'][k]
                cands.append(d)
        for key in ('ptype', 'simtype', 'conv'):
            if cur.get(key) not in (None, 'float', 'kw'):
                d = copy.deepcopy(cur)
                d.pop(key)
                cands.append(d)
        if len(cur['models']) > 1:
            for j in range(len(cur['models'])):
                d = copy.deepcopy(cur)
                del d['models'][j]
                d['coupled'] = True
                cands.append(d)
        for j, m in enumerate(cur['models']):
            if len(m['props']) > 0:
                for keep in (len(m['props']) // 2, len(m['props']) - 1):
                    d = copy.deepcopy(cur)
                    d['models'][j]['props'] = m['props'][:keep]
                    cands.append(d)
                d = copy.deepcopy(cur)
                d['models'][j]['props'] = m['props'][1:]
                cands.append(d)
            if m.get('relayouts'):
                d = copy.deepcopy(cur)
                d['models'][j]['relayouts'] = {}
                cands.append(d)
            if m['stops']:
                d = copy.deepcopy(cur)
                d['models'][j]['stops'] = []
                cands.append(d)
            if len(m['layout']) > 1:
                d = copy.deepcopy(cur)
                d['models'][j]['layout'] = m['layout'][:1]
                d['models'][j]['relayouts'] = {}
                cands.append(d)
        if cur['iterator'] == 'RK4':
            d = copy.deepcopy(cur)
            d['iterator'] = 'Euler'
            cands.append(d)
        for d in cands:
            r = fails(d)
            if r:
                cur, curmsg, changed = d, r, True
                break
    return cur, curmsg


def hooks_term(d):
    def opt(on, k):
        return 'Some %s' % natlit(k) if on else 'None'
    return 'check_hooks [%s]' % '; '.join('(%s, %s, %s, %s)' % tuple(opt(call[sl], k) for sl in range(4))
                                            for k, call in enumerate(d['calls']))


def compare_hooks(c, im, res):
    """slots in force per the model vs the tags of the hooks the solver actually called"""
    dis = []
    model = [None if r is None else r[1] for r in res]
    for sl in range(4):
        obs = im['hooks'][sl]
        want = [] if model[sl] is None else [model[sl]]
        must = (sl in (0, 1) and len(im['times']) > 0) or (sl in (2, 3) and c['direct'].get('verbose'))
        if any(t not in want for t in obs) or (must and want and not obs and not im['capped']):
            dis.append('setFunctions history %r: slot %s is served by call(s) %r, model says %r' % (c['direct']['calls'], SLOTS[sl], obs, model[sl]))
    return dis


def explore(ctx, cases, label):
    # objects with several solve() calls are run in pairs, their calls interleaved (two objects alive at
    # the same time must not influence each other); every call is then judged on its own
    multi = [k for k, c in enumerate(cases) if c.get('more')]
    results = {}
    for a, b in zip(multi[0::2], multi[1::2]):
        ra, rb = run_interleaved([cases[a], cases[b]])
        results[a], results[b] = ra, rb
        ctx.hist('objects', 'interleaved pair')
    for k, c in enumerate(cases):
        if k not in results:
            results[k] = run_history(c)
    terms, owner = [], []
    for k, c in enumerate(cases):
        for (ci, im) in results[k]:
            if im['err'] is None and all(d is not None for d in im['dts']):
                terms.append(clock_term(ci, im))
                owner.append((k, ci, im, 'clock'))
                if ci['coupled'] and not im['capped']:
                    terms.append(events_term(ci, len(im['times'])))
                    owner.append((k, ci, im, 'events'))
            if ci.get('direct'):
                terms.append(hooks_term(ci['direct']))
                owner.append((k, ci, im, 'hooks'))
    res = ctx.coq_eval('cases_' + label, HEADER, terms)
    dis_all, hits = [], []
    got = set()
    for (k, ci, im, what), r in zip(owner, res):
        c = cases[k]
        if what == 'clock':
            got.add((k, ci['segment']))
            for d in compare_clock(ci, im, r):
                dis_all.append((c, 'solve call %d: %s' % (ci['segment'] + 1, d)))
        elif what == 'events':
            for d in compare_events(ci, im, r):
                dis_all.append((c, d))
            ctx.cov['traces_validated_against_impl'] += 1
        else:
            for d in compare_hooks(ci, im, r):
                dis_all.append((c, d))
    for k, c in enumerate(cases):
        segs = results[k]
        im0 = segs[0][1]
        ctx.count(hexcase(c), nontrivial(c, im0))
        ctx.hist('kind', c['kind'].split(':')[0])
        ctx.hist('solve_calls_per_object', len(segs))
        ctx.hist('convention', '%s/%s/%s' % (c.get('conv', 'kw'), c.get('simtype', 'float'), c.get('ptype', 'float')))
        if c.get('direct'):
            ctx.hist('direct_DESolver', 'calls=%d' % len(c['direct']['calls']))
        for m in c['models']:
            for p in m['props']:
                ctx.hist('proposal', 'nan' if math.isnan(p) else 'inf' if p == INF else '-inf' if p == -INF else 'zero' if p == 0 else 'negative' if p < 0 else 'positive')
            ctx.hist('instructions', m.get('codec', 'default'))
        for (ci, im) in segs:
            ctx.hist('iterator', ci['iterator'])
            ctx.hist('steps', '0' if not im['times'] else '1' if len(im['times']) == 1 else '2-10' if len(im['times']) <= 10 else '11-100' if len(im['times']) <= 100 else '>100')
            if (k, ci['segment']) not in got:
                dis_all.append((c, 'implementation raised ' + str(im['err']) if im['err'] else 'implementation recorded no dt'))
            for d in handed_disagreements(ci, im):
                dis_all.append((c, d))
        for (seg, clause, cls, msg) in oracle_history(c, segs):
            hits.append((c, seg, clause, cls, msg))
        if k < 4:
            ctx.sample({'input': hexcase(c), 'impl_times': [fhex(t) for t in im0['times'][:6]], 'steps': len(im0['times']),
                        'capped': im0['capped']})
    return dis_all, hits


def explore_layout(ctx, n):
    """flatten / unflatten / Coupler bookkeeping: implementation vs D3 model, plus the round-trip oracle"""
    rng = ctx.rng
    fcs = [gen_flat_case(rng) for _ in range(n)]
    ccs = [gen_coupler_case(rng) for _ in range(n // 2)]
    fis = [run_flat_impl(fc) for fc in fcs]
    cis = [run_coupler_impl(cc) for cc in ccs]
    res = ctx.coq_eval('layout', HEADER.replace('Open Scope float_scope.', ''),
                       [flat_term(fc) for fc in fcs] + [coupler_term(cc, ci) for cc, ci in zip(ccs, cis)])
    dis, hits = [], []
    for fc, fi, r in zip(fcs, fis, res[:len(fcs)]):
        ctx.count({'flat': fc}, lay_size(fc['layout']) > 1)
        mflat, munfl = r
        if list(mflat) != fi['flat']:
            dis.append((fc, 'flattenX: implementation %r, model %r' % (fi['flat'], mflat)))
        mu = None if munfl is None else model_state_to_py(munfl[1])
        if mu != fi['unflat']:
            dis.append((fc, 'unflattenX: implementation %r, model %r' % (fi['unflat'], mu)))
        if not fi['roundtrip_ok']:
            hits.append((fc, 'unflatten_flatten', 'round trip', 'unflattenX(flattenX(X), X) differs from X for layout %r' % (fc['layout'],)))
        if fi['unflat'] is not None and fc['nflat'] == lay_size(fc['ref']) and fi['unflat_sig'] != lay_sig(fc['ref']):
            hits.append((fc, 'shape_preserved', 'unflattenX', 'unflattenX returned layout %r for reference %r' % (fi['unflat_sig'], lay_sig(fc['ref']))))
        if fi['ref_mutated']:
            hits.append((fc, 'shape_preserved', 'reference mutated', 'unflattenX modified its reference state'))
    for cc, ci, r in zip(ccs, cis, res[len(fcs):]):
        ctx.count({'coupler': cc}, len(cc['layouts']) > 1)
        mflat, msz, margs, munfl = r
        ctx.hist('coupler_instructions', '+'.join(cc.get('codecs', [])))
        if list(mflat) != ci['flat'] or list(msz) != ci['sizeRef']:
            dis.append((cc, 'Coupler.flattenX: implementation %r %r, model %r %r' % (ci['flat'], ci['sizeRef'], mflat, msz)))
        mu = None if munfl is None else [model_state_to_py(s) for s in munfl[1]]
        if mu != ci['unflat']:
            dis.append((cc, 'Coupler.unflattenX: implementation %r, model %r' % (ci['unflat'], mu)))
        # what each sub-model's unflattenX was handed (the calls made before a failing one)
        margs = [list(a) for a in margs]
        if ci['handed'] != margs[:len(ci['handed'])] or (ci['unflat'] is not None and len(ci['handed']) != len(margs)):
            dis.append((cc, 'Coupler.unflattenX handed its sub-models %r, model %r' % (ci['handed'], margs)))
        if not ci['roundtrip_ok']:
            what = ci.get('roundtrip_exc') or ('shapes %r, supplied %r' % (ci.get('roundtrip_sigs'), [lay_sig(l) for l in cc['layouts']]))
            hits.append((cc, 'unflatten_flatten', 'coupler round trip',
                         'Coupler.unflattenX(flattenX(X), X) does not give back X for models %r with layouts %r: %s' % (cc.get('codecs'), cc['layouts'], what)))
    return dis, hits


def run(ctx):
    quick = ctx.quick
    ctx.cov['rule'] = ('scripted GenericModel / Coupler runs: kinds plain / wild (proposals 0, -0, negative, +-inf, NaN, 1e+-300, at the clamp bounds) / '
                       'dyadic (binary64-exact) / default fractions / coupled (2-3 models) / reshape (state layout changes in postProcess) / '
                       'resolution (minimum step below float spacing), both iterators, start times 0, -3.5, 1e8, random; plus flatten/unflatten '
                       'layout cases; a clock case is non-trivial when it makes >= 2 steps and has a clamped / non-finite proposal, a stop '
                       'request or a coupling; distinct by hash of the exact input')
    axioms, failed = ctx.prove(['C05/Properties.v'])
    ncases = 420 if quick else 12000
    cases = corpus_cases() + [gen_case(ctx.rng, i) for i in range(ncases)]
    dis, hits = explore(ctx, cases, 'main')
    ldis, lhits = explore_layout(ctx, 160 if quick else 3000)
    report_hits(ctx, hits)
    seen = set()
    for (inp, clause, cls, msg) in lhits:
        if (clause, cls) not in seen:
            seen.add((clause, cls))
            ctx.violation(clause, {'site': 'GenericModel', 'cls': cls}, {'kind': 'input', 'input': inp, 'observed': msg}, msg)
    alld = dis + ldis
    if alld and not ctx.violations:
        # the implementation no longer behaves like the model the theorems are about and no NEW
        # property violation explains it yet (known findings do not count): search harder
        more = [gen_case(ctx.rng, 100000 + i) for i in range(1500)]
        hits2 = []
        for c in more:
            ctx.cov['evaluations'] += 1
            hits2 += [(c, *h) for h in oracle_history(c)]
        report_hits(ctx, hits2)
        if not ctx.violations:
            c, d = alld[0]
            ctx.violation('correspondence', {'site': SITE, 'cls': d.split(':')[0].split('[')[0]},
                          {'broken': {'correspondence': 'coq/C05/Model.v vs kawin/solver/Solver.py, kawin/GenericModel.py', 'first_disagreement': d},
                           'input': hexcase(c) if 'models' in c else c, 'disagreements': len(alld)},
                          'model and implementation disagree (%d cases), e.g. %s' % (len(alld), d), no_input=True)
    for t in failed:
        ctx.violation(t, {'site': 'coq/C05/Properties.v', 'cls': 'proof'},
                      {'broken': {'theorem': t, 'file': 'coq/C05/Properties.v'}},
                      'theorem %s no longer checks' % t, no_input=True)
    ctx.notes['disagreements'] = len(alld)
    ctx.notes['oracle_hits'] = len(hits) + len(lhits)
    ctx.assumptions += [
        'the clock model is compared bit for bit (binary64, no tolerance) with the times and step sizes recorded from scripted runs; the hand-written model coq/C05/Model.v is tied to the code only through this correspondence',
        'binary64 theorems assume finite t0 < tf, a finite tf - t0 and finite positive dtmin, dtmax (stated hypotheses); termination and the step-count bound are proved on the real instance only',
        'strict increase of binary64 times needs minDtFrac*(tf-t0) to be resolvable at the current time (t + dtmin > t); below that the unchanged code does not terminate (open known finding C05-step-below-float-resolution)',
        'state layouts: lists whose entries are scalars or 1-D arrays (the documented default domain of flattenX); derivatives returned by the model have the layout of the state']
    ctx.cov['trusted_base'] += ['Coq 8.16.1 kernel, vm_compute, primitive binary64 floats of the kernel',
                                'Flocq 4.1 (IEEE754.PrimFloat / BinarySingleNaN) linking primitive floats to their specification through the FloatAxioms of the standard library',
                                'hand-written model coq/C05/Model.v + correspondence harness harness/c05.py (scripted models, float.hex transport, output parser in harness/common.py)']


def replay(ctx, obj):
    inp = obj.get('input', obj)
    if 'models' not in inp:
        print('replay: layout case', inp)
        r = run_coupler_impl(inp) if 'layouts' in inp else run_flat_impl(inp)
        print(r)
        bad = (not r.get('roundtrip_ok', True)) or r.get('ref_mutated', False)
        print('replay: round trip %s' % ('FAILS on this input' if bad else 'holds on this input'))
        return 1 if bad else 0
    c = unhexcase(inp)
    res = run_history(c)
    hits = oracle_history(c, res)
    for (ci, im) in res:
        print('replay: solve call %d: times' % (ci['segment'] + 1), [fhex(t) for t in im['times'][:12]], '... end time', fhex(ci['t0'] + ci['simTime']))
    for h in hits:
        print('replay:', h)
    print('replay: %d oracle violations on this input' % len(hits))
    return 1 if hits else 0
