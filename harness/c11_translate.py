"""Fail-closed Python-ast -> Gallina translator for the element-order index idioms of kawin (C11).

For every function of the target files that calls np.argsort it extracts, in source order,
  * index variables     sortIndices = np.argsort(<obj>.elements[a:b]) ; unsortIndices = np.argsort(sortIndices)
                        (or a parameter named sortIndices / unsortIndices)
  * the reference index refIndex = <list>.index(<obj>.elements[0])
  * every expression that indexes an array with such a variable, following straight-line
    re-assignments of the indexed array (X = X[u,:] ; X = X[:,u] ; xP = np.delete(x, refIndex) ; ...)
and emits one Gallina definition per index use.  Anything it does not understand about these
variables raises TranslateError (the tie is then reported as broken).

Gallina vocabulary (coq/C11/Model.v): argsort lexleb / argsort Nat.leb, reorder, delete_at, index_of,
removelast (elements[:-1]), tl (elements[1:...], X[1:]), map over rows for X[:,u].
`<obj>.elements` is the user's list [reference, solutes..., 'VA'];  a `.index(elements[0])` is taken on
the alphabetical list of the non-vacant elements (pycalphad's phase_record.nonvacant_elements).
"""
import ast, os, re

TARGETS = ['kawin/thermo/Thermodynamics.py', 'kawin/thermo/MultiTherm.py',
           'kawin/diffusion/DiffusionParameters.py', 'kawin/diffusion/HomogenizationParameters.py']


class TranslateError(Exception):
    pass


def _is_np(node, name):
    return (isinstance(node, ast.Call) and isinstance(node.func, ast.Attribute) and node.func.attr == name
            and isinstance(node.func.value, ast.Name) and node.func.value.id == 'np')


def _const(n):
    if n is None:
        return None
    if isinstance(n, ast.Constant) and isinstance(n.value, int):
        return n.value
    if isinstance(n, ast.UnaryOp) and isinstance(n.op, ast.USub) and isinstance(n.operand, ast.Constant):
        return -n.operand.value
    raise TranslateError('non-constant slice bound: ' + ast.unparse(n))


def _elements_slice(node):
    """<obj>.elements[a:b] -> Gallina list of names, or None"""
    if not (isinstance(node, ast.Subscript) and isinstance(node.value, ast.Attribute) and node.value.attr == 'elements'):
        return None
    s = node.slice
    if isinstance(s, ast.Slice):
        if s.step is not None:
            raise TranslateError('stepped slice of elements: ' + ast.unparse(node))
        lo, hi = _const(s.lower), _const(s.upper)
        g = 'els'
        if hi is not None:
            if hi != -1:
                raise TranslateError('unsupported upper bound in ' + ast.unparse(node))
            g = '(removelast %s)' % g
        if lo not in (None, 0):
            if lo != 1:
                raise TranslateError('unsupported lower bound in ' + ast.unparse(node))
            g = '(tl %s)' % g
        return g
    k = _const(s)
    if k == 0:
        return ('elem0',)
    raise TranslateError('unsupported index of elements: ' + ast.unparse(node))


class FuncTranslator:
    """Normalising translator for one function.  Index variables are whatever is assigned from np.argsort (any name, nested
    calls allowed) or received through a parameter that a caller fills with an index variable.  Arrays indexed with them
    are followed through single-assignment temporaries (substituted), both branches of an `if` (merged) and chained
    subscripts; a Gallina definition is emitted where such a value LEAVES the tracked world (returned, passed to a call,
    stored into an attribute / element, used in arithmetic) - once per distinct expression - so that named or inlined
    temporaries, renamed locals and merged / split indexing steps give the same definitions."""
    def __init__(self, fname, func, idx_params=()):
        self.fname, self.func = fname, func
        self.idx = {}        # index variable -> gallina (list nat)
        self.nat = {}        # refIndex-like variable -> gallina nat
        self.env = {}        # array variable -> (gallina expr, frozenset of opaque params)
        self.params = {}     # opaque name -> type ('vec' | 'mat')
        self.opaque_src = {}
        self.defs = []       # (name, params(list of (name,type)), body, source text, lineno)
        self.seen = set()
        self.k = 0
        self.calls = []      # (callee name, position | keyword) where an index variable is passed on
        self.idx_params = [a.arg for a in func.args.args if a.arg in idx_params]
        for a in self.idx_params:
            self.idx[a] = a

    # ---- expressions --------------------------------------------------------------------
    def opaque(self, node):
        if isinstance(node, ast.Name) and node.id in self.env:
            return self.env[node.id]
        src = ast.unparse(node)
        name = node.id if isinstance(node, ast.Name) else None
        if name is None:
            for n, s in self.opaque_src.items():
                if s == src:
                    name = n
            if name is None:
                name = 'X%d' % (len([n for n in self.opaque_src if re.fullmatch(r'X\d+', n)]) + 1)
        if name in self.idx or name in self.nat:
            raise TranslateError('index variable used as an array: ' + src)
        self.opaque_src.setdefault(name, src)
        self.params.setdefault(name, 'vec')
        return (name, frozenset([name]))

    def argsort_expr(self, node):
        """np.argsort(E) with E a slice of <obj>.elements or (recursively) an index expression"""
        if not _is_np(node, 'argsort'):
            return None
        if len(node.args) != 1 or node.keywords:
            raise TranslateError('argsort with options: ' + ast.unparse(node))
        a = node.args[0]
        es = _elements_slice(a)
        if isinstance(es, str):
            return '(argsort lexleb %s)' % es
        inner = self.idx_expr(a)
        if inner is not None:
            return '(argsort Nat.leb %s)' % inner
        raise TranslateError('argsort of something else: ' + ast.unparse(node))

    def idx_expr(self, node):
        """gallina list-nat expression for an index, or None if the node is not index-like"""
        if isinstance(node, ast.Name) and node.id in self.idx:
            return self.idx[node.id]
        if _is_np(node, 'argsort'):
            return self.argsort_expr(node)
        if isinstance(node, ast.Subscript) and self.idx_expr(node.value) is not None:
            s = node.slice
            if isinstance(s, ast.Slice) and s.step is None and _const(s.upper) is None and _const(s.lower) == 1:
                return '(tl %s)' % self.idx_expr(node.value)
            raise TranslateError('unsupported slice of an index variable: ' + ast.unparse(node))
        return None

    def mentions_idx(self, node):
        return any((isinstance(n, ast.Name) and n.id in self.idx) or _is_np(n, 'argsort') for n in ast.walk(node))

    def translate(self, node):
        """returns (gallina, params) when `node` is a tracked array expression, else None"""
        if isinstance(node, ast.Name):
            return self.env.get(node.id)
        if _is_np(node, 'squeeze') and len(node.args) == 1 and not node.keywords:
            return self.translate(node.args[0])            # squeeze keeps the order of the entries
        if _is_np(node, 'delete') and len(node.args) == 2 and isinstance(node.args[1], ast.Name) and node.args[1].id in self.nat:
            g, ps = self.translate(node.args[0]) or self.opaque(node.args[0])
            return ('(delete_at %s %s)' % (self.nat[node.args[1].id], g), ps)
        if isinstance(node, ast.Subscript):
            s = node.slice
            base = node.value
            if self.idx_expr(base) is not None:
                return None                                   # a slice of an index variable: handled by idx_expr
            ie = self.idx_expr(s)
            if ie is not None:
                g, ps = self.translate(base) or self.opaque(base)
                return ('(reorder d %s %s)' % (g, ie), ps)
            if isinstance(s, ast.Tuple) and len(s.elts) == 2 and any(self.idx_expr(e) is not None for e in s.elts):
                a, b = s.elts
                full = lambda e: isinstance(e, ast.Slice) and e.lower is None and e.upper is None and e.step is None
                g, ps = self.translate(base) or self.opaque(base)
                for p in ps:
                    self.params[p] = 'mat'
                if self.idx_expr(a) is not None and full(b):
                    return ('(reorder [] %s %s)' % (g, self.idx_expr(a)), ps)
                if self.idx_expr(b) is not None and full(a):
                    return ('(map (fun row => reorder d row %s) %s)' % (self.idx_expr(b), g), ps)
                raise TranslateError('unsupported matrix indexing: ' + ast.unparse(node))
            if self.mentions_idx(s):
                raise TranslateError('unsupported use of an index variable: ' + ast.unparse(node))
            t = self.translate(base)
            if t is not None:
                if isinstance(s, ast.Slice) and s.step is None and _const(s.upper) is None and _const(s.lower) == 1:
                    return ('(tl %s)' % t[0], t[1])
                if 'reorder' in t[0]:
                    raise TranslateError('unsupported slice of a reordered array: ' + ast.unparse(node))
        return None

    def emit(self, node, t):
        ps = sorted(t[1])
        key = (t[0], tuple(ps))
        if key in self.seen:
            return
        self.seen.add(key)
        self.k += 1
        name = 'gen_%s_%d' % (self.func.name.lstrip('_'), self.k)
        self.defs.append((name, [(p, self.params[p]) for p in ps], t[0], ast.unparse(node), node.lineno))

    # ---- sinks ---------------------------------------------------------------------------------
    def scan_expr(self, node):
        """emit a definition for every maximal tracked sub-expression that leaves the tracked world here"""
        if node is None:
            return
        t = None
        if isinstance(node, (ast.Subscript, ast.Call, ast.Name)):
            t = self.translate(node)
        if t is not None and ('reorder' in t[0]):
            self.emit(node, t)
            return
        if isinstance(node, ast.Call) and not _is_np(node, 'argsort'):
            fname = node.func.attr if isinstance(node.func, ast.Attribute) else node.func.id if isinstance(node.func, ast.Name) else None
            for pos, a in enumerate(node.args):
                ie = self.idx_expr(a) if isinstance(a, (ast.Name, ast.Call)) else None
                if ie is not None:
                    self._pass_on(node, fname, pos, ie, a)
                else:
                    self.scan_expr(a)
            for kw in node.keywords:
                ie = self.idx_expr(kw.value) if isinstance(kw.value, (ast.Name, ast.Call)) else None
                if ie is not None:
                    self._pass_on(node, fname, kw.arg, ie, kw.value)
                else:
                    self.scan_expr(kw.value)
            self.scan_expr(node.func)
            return
        if self.idx_expr(node) is not None if isinstance(node, (ast.Name, ast.Call)) else False:
            raise TranslateError('index variable escapes: line %d' % node.lineno)
        for ch in ast.iter_child_nodes(node):
            if isinstance(ch, ast.expr):
                self.scan_expr(ch)
            elif isinstance(ch, (ast.keyword, ast.Slice, ast.comprehension)):
                for g in ast.iter_child_nodes(ch):
                    if isinstance(g, ast.expr):
                        self.scan_expr(g)

    def _pass_on(self, call, fname, where, ie, a):
        if fname is None:
            raise TranslateError('index variable passed to an unknown callee: ' + ast.unparse(call))
        self.calls.append((fname, where))
        key = (ie, ())
        if key not in self.seen:
            self.seen.add(key)
            self.k += 1
            self.defs.append(('gen_%s_%d' % (self.func.name.lstrip('_'), self.k), [], ie,
                              'index argument %s of %s' % (ast.unparse(a), ast.unparse(call.func)), call.lineno))

    # ---- statements -----------------------------------------------------------------------
    def assign(self, target, value):
        if isinstance(target, (ast.Tuple, ast.List)) and isinstance(value, (ast.Tuple, ast.List)) and len(target.elts) == len(value.elts):
            for tg, v in zip(target.elts, value.elts):
                self.assign(tg, v)
            return
        if isinstance(target, ast.Name):
            nm = target.id
            ie = self.idx_expr(value) if isinstance(value, (ast.Call, ast.Name, ast.Subscript)) else None
            if ie is not None:
                self.idx[nm] = ie
                self.env.pop(nm, None)
                return
            if nm in self.idx:
                raise TranslateError('index variable %s assigned from %s' % (nm, ast.unparse(value)))
            # refIndex = <list>.index(<obj>.elements[0])
            if (isinstance(value, ast.Call) and isinstance(value.func, ast.Attribute) and value.func.attr == 'index'
                    and len(value.args) == 1 and _elements_slice(value.args[0]) == ('elem0',)):
                self.nat[nm] = '(index_of lexleb (hd [] els) (sorted lexleb (removelast els)))'
                return
            if nm in self.nat:
                del self.nat[nm]
            t = self.translate(value) if isinstance(value, (ast.Subscript, ast.Call, ast.Name)) else None
            if t is not None:
                self.env[nm] = t                              # a temporary: substituted where it is used
            else:
                self.scan_expr(value)
                self.env.pop(nm, None)
            return
        self.scan_expr(value)
        self.scan_expr(target)

    def _snapshot(self):
        return dict(self.env), dict(self.idx), dict(self.nat)

    def _merge(self, a, b, line):
        out = []
        for da, db, what in zip(a, b, ('array', 'index variable', 'position')):
            m = {}
            for k in set(da) | set(db):
                va, vb = da.get(k), db.get(k)
                if va is not None and vb is not None and va != vb:
                    raise TranslateError('%s %s is permuted differently on two paths reaching line %d' % (what, k, line))
                m[k] = va if va is not None else vb
            out.append(m)
        self.env, self.idx, self.nat = out

    def branches(self, bodies, line):
        start = self._snapshot()
        ends = []
        for body in bodies:
            self.env, self.idx, self.nat = (dict(x) for x in start)
            self.stmts(body)
            ends.append(self._snapshot())
        acc = ends[0]
        for e in ends[1:]:
            self._merge(acc, e, line)
            acc = self._snapshot()
        self.env, self.idx, self.nat = (dict(x) for x in acc)

    def stmts(self, body):
        for st in body:
            if isinstance(st, ast.Assign):
                for tg in st.targets:
                    self.assign(tg, st.value)
            elif isinstance(st, ast.AnnAssign):
                if st.value is not None:
                    self.assign(st.target, st.value)
            elif isinstance(st, ast.AugAssign):
                self.scan_expr(st.value)
                if isinstance(st.target, ast.Name):
                    if st.target.id in self.idx:
                        raise TranslateError('index variable modified at line %d' % st.lineno)
                    self.scan_expr(ast.copy_location(ast.Name(id=st.target.id, ctx=ast.Load()), st))
                    self.env.pop(st.target.id, None)
                else:
                    self.scan_expr(st.target)
            elif isinstance(st, (ast.Expr, ast.Return)):
                self.scan_expr(st.value)
            elif isinstance(st, ast.If):
                self.scan_expr(st.test)
                self.branches([st.body, st.orelse], st.lineno)
            elif isinstance(st, (ast.For, ast.While)):
                self.scan_expr(st.iter if isinstance(st, ast.For) else st.test)
                self.branches([st.body + st.orelse, []], st.lineno)
            elif isinstance(st, ast.Try):
                self.branches([st.body + st.orelse] + [h.body for h in st.handlers], st.lineno)
                self.stmts(st.finalbody)
            elif isinstance(st, ast.With):
                self.stmts(st.body)
            elif isinstance(st, (ast.Pass, ast.Raise, ast.Import, ast.ImportFrom, ast.Assert, ast.Break, ast.Continue)):
                for ch in ast.walk(st):
                    if isinstance(ch, ast.Name) and ch.id in self.idx:
                        raise TranslateError('index variable in unsupported statement at line %d' % st.lineno)
            elif isinstance(st, (ast.FunctionDef, ast.ClassDef)):
                raise TranslateError('nested definition in %s' % self.func.name)
            else:
                raise TranslateError('unsupported statement %s at line %d' % (type(st).__name__, st.lineno))


def uses_index_idiom(func):
    return any(_is_np(n, 'argsort') for n in ast.walk(func))


def translate_repo(repo):
    """returns (gallina text, summary list).  Raises TranslateError."""
    out = ['(* GENERATED by harness/c11_translate.py from the current kawin source - do not edit *)',
           'From Coq Require Import List ZArith Arith.',
           'Require Import Kawin.C11.Model.',
           'Import ListNotations.',
           '']
    summary = []
    trees = {rel: ast.parse(open(os.path.join(repo, rel)).read()) for rel in TARGETS}
    allfuncs = {rel: sorted([n for n in ast.walk(t) if isinstance(n, ast.FunctionDef)], key=lambda f: f.lineno) for rel, t in trees.items()}
    # pass 1: functions that compute element indices; pass 2: functions that receive them through a parameter
    todo = [(rel, f, ()) for rel in TARGETS for f in allfuncs[rel] if uses_index_idiom(f)]
    done, results = set(), []
    while todo:
        rel, f, idxp = todo.pop(0)
        if (rel, f.name) in done:
            continue
        done.add((rel, f.name))
        ft = FuncTranslator(rel, f, idxp)
        ft.stmts(f.body)
        if not ft.defs:
            raise TranslateError('%s.%s computes or receives element indices but never uses them' % (rel, f.name))
        results.append((rel, f, ft))
        for callee, where in ft.calls:
            cands = [(r2, g) for r2 in TARGETS for g in allfuncs[r2] if g.name == callee]
            if len(cands) != 1:
                raise TranslateError('index variable passed to %s, which is not a unique function of the translated modules' % callee)
            r2, g = cands[0]
            names = [a.arg for a in g.args.args]
            pname = where if isinstance(where, str) else (names[where + 1] if names and names[0] == 'self' else names[where]) if isinstance(where, int) and where < len(names) else None
            if pname is None or pname not in names:
                raise TranslateError('cannot match the index argument of %s with a parameter' % callee)
            if (r2, g.name) in done:
                continue
            prev = [t for t in todo if t[0] == r2 and t[1] is g]
            if prev:
                todo.remove(prev[0])
                todo.append((r2, g, tuple(set(prev[0][2]) | {pname})))
            else:
                todo.append((r2, g, (pname,)))
    results.sort(key=lambda r: (TARGETS.index(r[0]), r[1].lineno))
    for rel, f, ft in results:
        modname = os.path.basename(rel)[:-3]
        out.append('(* %s : %s (line %d) *)' % (rel, f.name, f.lineno))
        for (name, params, body, text, line) in ft.defs:
            full = '%s_%s' % (modname, name[4:])
            is_index = not params and 'reorder' not in body
            args = '' if is_index else ' {A : Type} (d : A)'
            args += ''.join(' (%s : list nat)' % p for p in ft.idx_params)
            args += ' (els : list (list Z))'
            args += ''.join(' (%s : %s)' % (p, 'list A' if ty == 'vec' else 'list (list A)') for p, ty in params)
            out.append('(* line %d: %s *)' % (line, text.replace('*)', '* )')))
            for p, ty in params:
                if ft.opaque_src.get(p) not in (None, p):
                    out.append('(*   %s stands for %s *)' % (p, ft.opaque_src[p].replace('*)', '* )')))
            out.append('Definition gen_%s%s := %s.' % (full, args, body))
            summary.append({'def': 'gen_' + full, 'file': rel, 'function': f.name, 'line': line, 'source': text, 'gallina': body})
        out.append('')
    for fn in (translate_build_profile, translate_growth_call, translate_phase_closures, translate_phase_stores):
        text, summ = fn(repo)
        out.append(text)
        summary += summ
    return '\n'.join(out) + '\n', summary


# ------------------------------------------------------------------------------------------------
# CompositionProfile.buildProfile: which row of the profile array the steps of an element are written to
def _find_method(tree, cls, name):
    for node in ast.walk(tree):
        if isinstance(node, ast.ClassDef) and node.name == cls:
            for f in node.body:
                if isinstance(f, ast.FunctionDef) and f.name == name:
                    return f
    raise TranslateError('%s.%s not found' % (cls, name))


def _is_self_attr(n, attr):
    return isinstance(n, ast.Attribute) and n.attr == attr and isinstance(n.value, ast.Name) and n.value.id == 'self'


def translate_build_profile(repo):
    rel = 'kawin/diffusion/DiffusionParameters.py'
    f = _find_method(ast.parse(open(os.path.join(repo, rel)).read()), 'CompositionProfile', 'buildProfile')
    params = [a.arg for a in f.args.args]
    if params != ['self', 'elements', 'x', 'z']:
        raise TranslateError('buildProfile signature changed: %r' % params)
    loops = [st for st in f.body if isinstance(st, (ast.For, ast.While))]
    if len(loops) != 1 or not isinstance(loops[0], ast.For):
        raise TranslateError('buildProfile: expected exactly one top-level for loop')
    lp = loops[0]
    why = 'buildProfile (line %d): ' % lp.lineno
    # for i in range(len(elements)):
    it = lp.iter
    if not (isinstance(lp.target, ast.Name) and isinstance(it, ast.Call) and isinstance(it.func, ast.Name) and it.func.id == 'range'
            and len(it.args) == 1 and isinstance(it.args[0], ast.Call) and isinstance(it.args[0].func, ast.Name) and it.args[0].func.id == 'len'
            and len(it.args[0].args) == 1 and isinstance(it.args[0].args[0], ast.Name) and it.args[0].args[0].id == 'elements') or lp.orelse:
        raise TranslateError(why + 'the outer loop is not `for i in range(len(elements))` but `for %s in %s`' % (ast.unparse(lp.target), ast.unparse(it)))
    i = lp.target.id
    key = lambda n: (isinstance(n, ast.Subscript) and isinstance(n.value, ast.Name) and n.value.id == 'elements'
                     and isinstance(n.slice, ast.Name) and n.slice.id == i)
    if len(lp.body) != 1 or not isinstance(lp.body[0], ast.If) or lp.body[0].orelse:
        raise TranslateError(why + 'loop body is not a single `if`')
    cond = lp.body[0]
    t = cond.test
    if not (isinstance(t, ast.Compare) and len(t.ops) == 1 and isinstance(t.ops[0], ast.In) and key(t.left) and _is_self_attr(t.comparators[0], 'compositionSteps')):
        raise TranslateError(why + 'condition is not `elements[%s] in self.compositionSteps`: %s' % (i, ast.unparse(t)))
    if len(cond.body) != 1 or not isinstance(cond.body[0], ast.For) or cond.body[0].orelse:
        raise TranslateError(why + 'body of the condition is not a single for loop')
    inner = cond.body[0]
    if not (isinstance(inner.target, ast.Name) and isinstance(inner.iter, ast.Subscript) and _is_self_attr(inner.iter.value, 'compositionSteps') and key(inner.iter.slice)):
        raise TranslateError(why + 'inner loop is not over self.compositionSteps[elements[%s]]: %s' % (i, ast.unparse(inner.iter)))
    s = inner.target.id
    if len(inner.body) != 1 or not isinstance(inner.body[0], ast.Expr) or not isinstance(inner.body[0].value, ast.Call):
        raise TranslateError(why + 'inner loop body is not a single call')
    call = inner.body[0].value
    sub = lambda n, k: (isinstance(n, ast.Subscript) and isinstance(n.value, ast.Name) and n.value.id == s and isinstance(n.slice, ast.Constant) and n.slice.value == k)
    if not (isinstance(call.func, ast.Subscript) and isinstance(call.func.value, ast.Name) and sub(call.func.slice, 0)):
        raise TranslateError(why + 'the builder is not selected by %s[0]: %s' % (s, ast.unparse(call.func)))
    a = call.args
    if not (len(a) == 4 and isinstance(a[1], ast.Name) and a[1].id == 'x' and isinstance(a[2], ast.Name) and a[2].id == 'z'
            and isinstance(a[3], ast.Starred) and sub(a[3].value, 1) and len(call.keywords) == 1 and call.keywords[0].arg is None and sub(call.keywords[0].value, 2)):
        raise TranslateError(why + 'unexpected builder call: ' + ast.unparse(call))
    if not (isinstance(a[0], ast.Name) and a[0].id == i):
        raise TranslateError(why + 'row index passed to the builder is %s, not the loop index %s' % (ast.unparse(a[0]), i))
    row = i
    text = ['(* %s : CompositionProfile.buildProfile (line %d) *)' % (rel, lp.lineno),
            'Definition gen_buildProfile {K Step Row : Type} (keq : K -> K -> bool) (apply : Step -> Row -> Row)',
            '    (elements : list K) (compositionSteps : list (K * list Step)) (x : list Row) : list Row :=',
            '  fold_left (fun x %s =>' % i,
            '      match nth_error elements %s with' % i,
            '      | Some e => match lookup keq e compositionSteps with',
            '                  | Some steps => fold_left (fun x %s => upd_row %s (apply %s) x) steps x' % (s, row, s),
            '                  | None => x end',
            '      | None => x end) (seq 0 (length elements)) x.', '']
    return '\n'.join(text), [{'def': 'gen_buildProfile', 'file': rel, 'function': 'buildProfile', 'line': lp.lineno,
                               'source': ast.unparse(lp).split('\n')[0], 'gallina': 'row %s, key elements[%s]' % (row, i)}]


# ------------------------------------------------------------------------------------------------
# PrecipitateModel._singleGrowthMulti: what is handed to the backend for the phase at position p
def translate_growth_call(repo):
    rel = 'kawin/precipitation/KWNEuler.py'
    f = _find_method(ast.parse(open(os.path.join(repo, rel)).read()), 'PrecipitateModel', '_singleGrowthMulti')
    params = [a.arg for a in f.args.args]
    if len(params) < 2 or params[0] != 'self':
        raise TranslateError('_singleGrowthMulti signature changed: %r' % params)
    p = params[1]
    Q = '(nth %s ps d)' % p
    env = {}

    def at_p(n, attr):
        return (isinstance(n, ast.Subscript) and _is_self_attr(n.value, attr) and isinstance(n.slice, ast.Name) and n.slice.id == p)

    def is_params(n):
        return at_p(n, 'precipitateParameters') or (isinstance(n, ast.Name) and env.get(n.id) == ('params',))

    def arr(n):
        """array-valued expression -> gallina of type A / B / C"""
        if isinstance(n, ast.Name) and n.id in env and env[n.id][0] == 'expr':
            return env[n.id][1]
        if isinstance(n, ast.Attribute) and n.attr == 'PSDbounds' and at_p(n.value, 'PBM'):
            return '(gbounds %s)' % Q
        if at_p(n, '_precBetaTemp'):
            return '(gbeta %s)' % Q
        if isinstance(n, ast.Call) and _is_self_attr(n.func, 'particleGibbs'):
            radius, phase = None, None
            if len(n.args) > 2:
                raise TranslateError('particleGibbs with %d positional arguments' % len(n.args))
            if len(n.args) >= 1:
                radius = n.args[0]
            if len(n.args) == 2:
                phase = n.args[1]
            for kw in n.keywords:
                if kw.arg == 'radius':
                    radius = kw.value
                elif kw.arg == 'phase':
                    phase = kw.value
                else:
                    raise TranslateError('particleGibbs keyword %r' % kw.arg)
            r = 'None' if radius is None or (isinstance(radius, ast.Constant) and radius.value is None) else '(Some %s)' % arr(radius)
            ph = 'None' if phase is None or (isinstance(phase, ast.Constant) and phase.value is None) else '(Some %s)' % name(phase)
            return '(particleGibbs gname gbounds gibbs ps d %s %s)' % (r, ph)
        raise TranslateError('_singleGrowthMulti: cannot tell which phase `%s` belongs to' % ast.unparse(n))

    def name(n):
        if isinstance(n, ast.Attribute) and n.attr == 'phase' and is_params(n.value):
            return '(gname %s)' % Q
        if isinstance(n, ast.Subscript) and _is_self_attr(n.value, 'phases') and isinstance(n.slice, ast.Name) and n.slice.id == p:
            return '(gname %s)' % Q
        if isinstance(n, ast.Name) and n.id in env and env[n.id][0] == 'name':
            return env[n.id][1]
        raise TranslateError('_singleGrowthMulti: cannot tell which phase name `%s` is' % ast.unparse(n))

    found = []

    def visit(body):
        for st in body:
            if isinstance(st, ast.Assign) and len(st.targets) == 1 and isinstance(st.targets[0], ast.Name):
                nm, v = st.targets[0].id, st.value
                if at_p(v, 'precipitateParameters'):
                    env[nm] = ('params',)
                else:
                    try:
                        env[nm] = ('expr', arr(v))
                    except TranslateError:
                        try:
                            env[nm] = ('name', name(v))
                        except TranslateError:
                            env.pop(nm, None)
            for ch in ast.walk(st) if not isinstance(st, (ast.If, ast.For, ast.While, ast.Try, ast.With)) else []:
                if isinstance(ch, ast.Call) and isinstance(ch.func, ast.Attribute) and ch.func.attr == 'getGrowthAndInterfacialComposition':
                    found.append(ch)
            for sub in ('body', 'orelse', 'finalbody'):
                if isinstance(st, (ast.If, ast.For, ast.While, ast.Try, ast.With)) and getattr(st, sub, None):
                    if isinstance(st, ast.If) and sub == 'body':
                        for ch in ast.walk(st.test):
                            if isinstance(ch, ast.Call) and isinstance(ch.func, ast.Attribute) and ch.func.attr == 'getGrowthAndInterfacialComposition':
                                found.append(ch)
                    visit(getattr(st, sub))

    visit(f.body)
    if len(found) != 1:
        raise TranslateError('_singleGrowthMulti: expected one call of getGrowthAndInterfacialComposition, found %d' % len(found))
    c = found[0]
    kws = {k.arg: k.value for k in c.keywords}
    if len(c.args) != 5 or 'precPhase' not in kws or 'searchDir' not in kws:
        raise TranslateError('_singleGrowthMulti: unexpected argument list ' + ast.unparse(c))
    body = '(%s, %s, %s, %s)' % (arr(c.args[3]), arr(c.args[4]), name(kws['precPhase']), arr(kws['searchDir']))
    text = ['(* %s : PrecipitateModel._singleGrowthMulti (line %d): (radii, Gibbs-Thomson energies, precPhase, searchDir) *)' % (rel, c.lineno),
            '(* %s *)' % ast.unparse(c).replace('*)', '* )'),
            'Definition gen_singleGrowthMulti_call {P A B C : Type} (gname : P -> nat) (gbounds : P -> A) (gibbs : P -> A -> B) (gbeta : P -> C)',
            '    (ps : list P) (d : P) (%s : nat) : A * B * nat * C :=' % p,
            '  %s.' % body, '']
    return '\n'.join(text), [{'def': 'gen_singleGrowthMulti_call', 'file': rel, 'function': '_singleGrowthMulti', 'line': c.lineno,
                               'source': ast.unparse(c), 'gallina': body}]


# ------------------------------------------------------------------------------------------------
# callbacks created in loops over the phases: is the phase index bound when the closure is made or when it is called?
PHASE_LOOP_FILES = ['kawin/precipitation/KWNBase.py', 'kawin/precipitation/KWNEuler.py']
PHASE_LISTS = ('phases', 'precipitateParameters', 'PBM')


def _phase_loop_var(st):
    """loop variable of `for p in range(len(self.<phases|precipitateParameters|PBM>))`, else None"""
    if not (isinstance(st, ast.For) and isinstance(st.target, ast.Name) and isinstance(st.iter, ast.Call)
            and isinstance(st.iter.func, ast.Name) and st.iter.func.id == 'range' and len(st.iter.args) == 1):
        return None
    a = st.iter.args[0]
    if (isinstance(a, ast.Call) and isinstance(a.func, ast.Name) and a.func.id == 'len' and len(a.args) == 1
            and any(_is_self_attr(a.args[0], nm) for nm in PHASE_LISTS)):
        return st.target.id
    return None


def translate_phase_closures(repo):
    out, summary = [], []
    for rel in PHASE_LOOP_FILES:
        tree = ast.parse(open(os.path.join(repo, rel)).read())
        for f in [n for n in ast.walk(tree) if isinstance(n, ast.FunctionDef)]:
            k = 0
            for loop in [n for n in ast.walk(f) if _phase_loop_var(n) is not None]:
                v = _phase_loop_var(loop)
                for cl in [n for st in loop.body for n in ast.walk(st) if isinstance(n, (ast.Lambda, ast.FunctionDef))]:
                    args = cl.args
                    if args.vararg or args.kwarg or args.kwonlyargs:
                        raise TranslateError('%s.%s: closure with *args / keyword-only arguments in a phase loop (line %d)' % (rel, f.name, cl.lineno))
                    names = [a.arg for a in args.posonlyargs + args.args]
                    defaults = dict(zip(names[len(names) - len(args.defaults):], args.defaults))
                    early = set(a for a, dflt in defaults.items() if isinstance(dflt, ast.Name) and dflt.id == v)
                    for a, dflt in defaults.items():
                        if a not in early and any(isinstance(n, ast.Name) and n.id == v for n in ast.walk(dflt)):
                            raise TranslateError('%s.%s: default argument %s computed from the phase index (line %d)' % (rel, f.name, a, cl.lineno))
                    body = [cl.body] if isinstance(cl, ast.Lambda) else cl.body
                    uses = []
                    for b in body:
                        for n in ast.walk(b):
                            if isinstance(n, (ast.Lambda, ast.FunctionDef)) and n is not cl:
                                raise TranslateError('%s.%s: nested closure in a phase loop (line %d)' % (rel, f.name, cl.lineno))
                            if isinstance(n, ast.Name) and isinstance(n.ctx, ast.Load):
                                if n.id in early:
                                    uses.append('Early')
                                elif n.id == v and v not in names:
                                    uses.append('Late')
                    if not uses:
                        continue
                    k += 1
                    name = 'gen_%s_closure_%d' % (f.name.lstrip('_'), k)
                    src = ast.unparse(cl).split('\n')[0]
                    out += ['(* %s : %s (line %d): %s *)' % (rel, f.name, cl.lineno, src.replace('*)', '* )')),
                            'Definition %s {P T : Type} (table : P -> T) (ps : list P) (d : P) (%s : nat) : list T :=' % (name, v),
                            '  [%s].' % '; '.join('callback table %s ps d %s' % (u, v) for u in uses), '']
                    summary.append({'def': name, 'file': rel, 'function': f.name, 'line': cl.lineno, 'source': src, 'gallina': ', '.join(uses)})
    return '\n'.join(out), summary


# ------------------------------------------------------------------------------------------------
# stores into per-phase histories inside loops over the phases: does the target carry the loop's phase index?
PHASE_FIELDS = ('xEqAlpha', 'xEqBeta', 'drivingForce', 'impingement', 'Gcrit', 'Rcrit', 'nucRate', 'precipitateDensity',
                'Rnuc', 'Ravg', 'ARavg', 'volFrac', 'fconc')


def translate_phase_stores(repo):
    flags, summary = [], []
    for rel in PHASE_LOOP_FILES:
        tree = ast.parse(open(os.path.join(repo, rel)).read())
        for f in [n for n in ast.walk(tree) if isinstance(n, ast.FunctionDef)]:
            for loop in [n for n in ast.walk(f) if _phase_loop_var(n) is not None]:
                v = _phase_loop_var(loop)
                for st in [n for b in loop.body for n in ast.walk(b) if isinstance(n, (ast.Assign, ast.AugAssign))]:
                    for tg in (st.targets if isinstance(st, ast.Assign) else [st.target]):
                        node, idx = tg, []
                        while isinstance(node, ast.Subscript):
                            idx = (list(node.slice.elts) if isinstance(node.slice, ast.Tuple) else [node.slice]) + idx
                            node = node.value
                        if isinstance(node, ast.Attribute) and node.attr in PHASE_FIELDS and idx:
                            ok = len(idx) >= 2 and isinstance(idx[1], ast.Name) and idx[1].id == v
                            flags.append('true' if ok else 'false')
                            summary.append({'def': 'gen_phase_stores', 'file': rel, 'function': f.name, 'line': st.lineno,
                                            'source': ast.unparse(tg), 'gallina': 'indexed by the phase index' if ok else 'NOT indexed by the phase index'})
    if not flags:
        raise TranslateError('no store into a per-phase history found in a loop over the phases')
    text = ['(* stores into per-phase histories (%s) inside loops over the phases: is position 1 of the index the loop\'s phase index? *)' % ', '.join(PHASE_FIELDS)]
    text += ['(*   %s:%d %s : %s *)' % (d['file'], d['line'], d['source'].replace('*)', '* )'), d['gallina']) for d in summary]
    text += ['Definition gen_phase_stores : list bool := [%s].' % '; '.join(flags), '']
    return '\n'.join(text), summary


if __name__ == '__main__':
    import sys
    text, summ = translate_repo(sys.argv[1] if len(sys.argv) > 1 else '/repo')
    print(text)
