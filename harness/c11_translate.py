"""Fail-closed Python-ast -> Gallina translator for the element-order index idioms of kawin (C11).

For every function of the target files that calls np.argsort it extracts, in source order,
  * index variables     sortIndices = np.argsort(<obj>.elements[a:b]) ; unsortIndices = np.argsort(sortIndices)
                        (or a parameter named sortIndices / unsortIndices)
  * the reference index refIndex = <list>.index(<obj>.elements[0])
  * every expression that indexes an array with such a variable, following straight-line
    re-assignments of the indexed array (X = X[u,:] ; X = X[:,u] ; xP = np.delete(x, refIndex) ; ...)
and emits one Gallina definition per index use.  Anything it does not understand about these
variables raises TranslateError (the tie is then reported as broken).

Gallina vocabulary (coq/C11/Model.v): argsort lexleb / argsort Nat.leb, reorder, delete_at, index_of,
removelast (elements[:-1]), tl (elements[1:...], X[1:]), map over rows for X[:,u].
`<obj>.elements` is the user's list [reference, solutes..., 'VA'];  a `.index(elements[0])` is taken on
the alphabetical list of the non-vacant elements (pycalphad's phase_record.nonvacant_elements).
"""
import ast, os, re

IDX_NAMES = ('sortIndices', 'unsortIndices')
TARGETS = ['kawin/thermo/Thermodynamics.py', 'kawin/thermo/MultiTherm.py',
           'kawin/diffusion/DiffusionParameters.py', 'kawin/diffusion/HomogenizationParameters.py']


class TranslateError(Exception):
    pass


def _is_np(node, name):
    return (isinstance(node, ast.Call) and isinstance(node.func, ast.Attribute) and node.func.attr == name
            and isinstance(node.func.value, ast.Name) and node.func.value.id == 'np')


def _const(n):
    if n is None:
        return None
    if isinstance(n, ast.Constant) and isinstance(n.value, int):
        return n.value
    if isinstance(n, ast.UnaryOp) and isinstance(n.op, ast.USub) and isinstance(n.operand, ast.Constant):
        return -n.operand.value
    raise TranslateError('non-constant slice bound: ' + ast.unparse(n))


def _elements_slice(node):
    """<obj>.elements[a:b] -> Gallina list of names, or None"""
    if not (isinstance(node, ast.Subscript) and isinstance(node.value, ast.Attribute) and node.value.attr == 'elements'):
        return None
    s = node.slice
    if isinstance(s, ast.Slice):
        if s.step is not None:
            raise TranslateError('stepped slice of elements: ' + ast.unparse(node))
        lo, hi = _const(s.lower), _const(s.upper)
        g = 'els'
        if hi is not None:
            if hi != -1:
                raise TranslateError('unsupported upper bound in ' + ast.unparse(node))
            g = '(removelast %s)' % g
        if lo not in (None, 0):
            if lo != 1:
                raise TranslateError('unsupported lower bound in ' + ast.unparse(node))
            g = '(tl %s)' % g
        return g
    k = _const(s)
    if k == 0:
        return ('elem0',)
    raise TranslateError('unsupported index of elements: ' + ast.unparse(node))


class FuncTranslator:
    def __init__(self, fname, func):
        self.fname, self.func = fname, func
        self.idx = {}        # index variable -> gallina (list nat)
        self.nat = {}        # refIndex-like variable -> gallina nat
        self.env = {}        # array variable -> (gallina expr, set of opaque params)
        self.params = {}     # opaque name -> type ('vec' | 'mat')
        self.opaque_src = {}
        self.defs = []       # (name, params(list of (name,type)), body, source text, lineno)
        self.k = 0
        for a in func.args.args:
            if a.arg in IDX_NAMES:
                self.idx[a.arg] = a.arg
        self.idx_params = [a.arg for a in func.args.args if a.arg in IDX_NAMES]

    # ---- expressions --------------------------------------------------------------------
    def opaque(self, node):
        if isinstance(node, ast.Name) and node.id in self.env:
            return self.env[node.id]
        src = ast.unparse(node)
        name = node.id if isinstance(node, ast.Name) else None
        if name is None:
            for n, s in self.opaque_src.items():
                if s == src:
                    name = n
            if name is None:
                name = 'X%d' % (len([n for n in self.opaque_src if re.fullmatch(r'X\d+', n)]) + 1)
        if name in IDX_NAMES or name in self.idx or name in self.nat:
            raise TranslateError('index variable used as an array: ' + src)
        self.opaque_src.setdefault(name, src)
        self.params.setdefault(name, 'vec')
        return (name, {name})

    def idx_expr(self, node):
        """gallina list-nat expression for an index, or None if the node is not index-like"""
        if isinstance(node, ast.Name) and node.id in self.idx:
            return self.idx[node.id]
        if isinstance(node, ast.Subscript) and isinstance(node.value, ast.Name) and node.value.id in self.idx:
            s = node.slice
            if isinstance(s, ast.Slice) and s.step is None and _const(s.upper) is None and _const(s.lower) == 1:
                return '(tl %s)' % self.idx[node.value.id]
            raise TranslateError('unsupported slice of an index variable: ' + ast.unparse(node))
        return None

    def mentions_idx(self, node):
        return any(isinstance(n, ast.Name) and (n.id in self.idx or n.id in IDX_NAMES) for n in ast.walk(node))

    def translate(self, node):
        """returns (gallina, params) when `node` is a tracked array expression, else None"""
        if isinstance(node, ast.Name):
            return self.env.get(node.id)
        if _is_np(node, 'squeeze') and len(node.args) == 1 and not node.keywords:
            return self.translate(node.args[0])            # squeeze keeps the order of the entries
        if _is_np(node, 'delete') and len(node.args) == 2 and isinstance(node.args[1], ast.Name) and node.args[1].id in self.nat:
            g, ps = self.translate(node.args[0]) or self.opaque(node.args[0])
            return ('(delete_at %s %s)' % (self.nat[node.args[1].id], g), ps)
        if isinstance(node, ast.Subscript):
            s = node.slice
            base = node.value
            if isinstance(base, ast.Name) and base.id in self.idx:
                raise TranslateError('index variable used outside a subscript position: ' + ast.unparse(node))
            ie = self.idx_expr(s)
            if ie is not None:
                g, ps = self.translate(base) or self.opaque(base)
                return ('(reorder d %s %s)' % (g, ie), ps)
            if isinstance(s, ast.Tuple) and len(s.elts) == 2 and any(self.idx_expr(e) is not None for e in s.elts):
                a, b = s.elts
                full = lambda e: isinstance(e, ast.Slice) and e.lower is None and e.upper is None and e.step is None
                g, ps = self.translate(base) or self.opaque(base)
                for p in ps:
                    self.params[p] = 'mat'
                if self.idx_expr(a) is not None and full(b):
                    return ('(reorder [] %s %s)' % (g, self.idx_expr(a)), ps)
                if self.idx_expr(b) is not None and full(a):
                    return ('(map (fun row => reorder d row %s) %s)' % (self.idx_expr(b), g), ps)
                raise TranslateError('unsupported matrix indexing: ' + ast.unparse(node))
            if self.mentions_idx(s):
                raise TranslateError('unsupported use of an index variable: ' + ast.unparse(node))
            t = self.translate(base)
            if t is not None:
                if isinstance(s, ast.Slice) and s.step is None and _const(s.upper) is None and _const(s.lower) == 1:
                    return ('(tl %s)' % t[0], t[1])
                raise TranslateError('unsupported slice of a reordered array: ' + ast.unparse(node))
        return None

    def emit(self, node, t):
        self.k += 1
        name = 'gen_%s_%d' % (self.func.name.lstrip('_'), self.k)
        ps = sorted(t[1])
        self.defs.append((name, [(p, self.params[p]) for p in ps], t[0], ast.unparse(node), node.lineno))

    # ---- statements -----------------------------------------------------------------------
    def scan_expr(self, node, top=True):
        """emit a definition for every maximal tracked sub-expression that involves an index variable"""
        if node is None:
            return
        t = None
        if isinstance(node, (ast.Subscript, ast.Call)):
            t = self.translate(node)
        if t is not None and ('reorder' in t[0]):
            self.emit(node, t)
            return
        if isinstance(node, ast.Call):
            for a in list(node.args) + [kw.value for kw in node.keywords]:
                if isinstance(a, ast.Name) and a.id in self.idx:
                    self.k += 1
                    self.defs.append(('gen_%s_%d' % (self.func.name.lstrip('_'), self.k), [], self.idx[a.id],
                                      'argument %s of %s' % (a.id, ast.unparse(node.func)), node.lineno))
                else:
                    self.scan_expr(a, False)
            self.scan_expr(node.func, False)
            return
        if isinstance(node, ast.Name) and node.id in self.idx:
            raise TranslateError('index variable escapes: line %d' % node.lineno)
        for ch in ast.iter_child_nodes(node):
            if isinstance(ch, ast.expr):
                self.scan_expr(ch, False)
            elif isinstance(ch, (ast.keyword, ast.Slice, ast.comprehension)):
                for g in ast.iter_child_nodes(ch):
                    if isinstance(g, ast.expr):
                        self.scan_expr(g, False)

    def assign(self, target, value):
        if isinstance(target, ast.Name):
            nm = target.id
            if _is_np(value, 'argsort'):
                if len(value.args) != 1 or value.keywords:
                    raise TranslateError('argsort with options: ' + ast.unparse(value))
                a = value.args[0]
                es = _elements_slice(a)
                if isinstance(es, str):
                    self.idx[nm] = '(argsort lexleb %s)' % es
                elif isinstance(a, ast.Name) and a.id in self.idx:
                    self.idx[nm] = '(argsort Nat.leb %s)' % self.idx[a.id]
                else:
                    raise TranslateError('argsort of something else: ' + ast.unparse(value))
                if nm not in IDX_NAMES:
                    raise TranslateError('argsort result bound to unexpected name ' + nm)
                return
            if nm in IDX_NAMES or nm in self.idx:
                raise TranslateError('index variable %s assigned from %s' % (nm, ast.unparse(value)))
            # refIndex = <list>.index(<obj>.elements[0])
            if (isinstance(value, ast.Call) and isinstance(value.func, ast.Attribute) and value.func.attr == 'index'
                    and len(value.args) == 1 and _elements_slice(value.args[0]) == ('elem0',)):
                self.nat[nm] = '(index_of lexleb (hd [] els) (sorted lexleb (removelast els)))'
                return
            if nm in self.nat:
                del self.nat[nm]
            t = self.translate(value) if isinstance(value, (ast.Subscript, ast.Call, ast.Name)) else None
            self.scan_expr(value)
            if t is not None:
                self.env[nm] = t
            else:
                self.env.pop(nm, None)
            return
        self.scan_expr(value)
        self.scan_expr(target)

    def stmts(self, body):
        for st in body:
            if isinstance(st, ast.Assign):
                if len(st.targets) != 1:
                    raise TranslateError('chained assignment at line %d' % st.lineno)
                self.assign(st.targets[0], st.value)
            elif isinstance(st, ast.AugAssign):
                self.scan_expr(st.value)
                if isinstance(st.target, ast.Name):
                    if st.target.id in self.idx:
                        raise TranslateError('index variable modified at line %d' % st.lineno)
                    self.env.pop(st.target.id, None)
            elif isinstance(st, (ast.Expr, ast.Return)):
                self.scan_expr(st.value)
            elif isinstance(st, ast.If):
                self.scan_expr(st.test)
                self.stmts(st.body)
                self.stmts(st.orelse)
            elif isinstance(st, (ast.For, ast.While)):
                self.scan_expr(st.iter if isinstance(st, ast.For) else st.test)
                self.stmts(st.body)
                self.stmts(st.orelse)
            elif isinstance(st, ast.Try):
                self.stmts(st.body)
                for h in st.handlers:
                    self.stmts(h.body)
                self.stmts(st.orelse)
                self.stmts(st.finalbody)
            elif isinstance(st, ast.With):
                self.stmts(st.body)
            elif isinstance(st, (ast.Pass, ast.Raise, ast.Import, ast.ImportFrom, ast.Assert, ast.Break, ast.Continue)):
                for ch in ast.walk(st):
                    if isinstance(ch, ast.Name) and ch.id in self.idx:
                        raise TranslateError('index variable in unsupported statement at line %d' % st.lineno)
            elif isinstance(st, (ast.FunctionDef, ast.ClassDef)):
                raise TranslateError('nested definition in %s' % self.func.name)
            else:
                raise TranslateError('unsupported statement %s at line %d' % (type(st).__name__, st.lineno))


def uses_index_idiom(func):
    for n in ast.walk(func):
        if _is_np(n, 'argsort'):
            return True
    return any(a.arg in IDX_NAMES for a in func.args.args)


def translate_repo(repo):
    """returns (gallina text, summary list).  Raises TranslateError."""
    out = ['(* GENERATED by harness/c11_translate.py from the current kawin source - do not edit *)',
           'From Coq Require Import List ZArith Arith.',
           'Require Import Kawin.C11.Model.',
           'Import ListNotations.',
           '']
    summary = []
    for rel in TARGETS:
        src = open(os.path.join(repo, rel)).read()
        tree = ast.parse(src)
        funcs = []
        for node in ast.walk(tree):
            if isinstance(node, ast.FunctionDef) and uses_index_idiom(node):
                funcs.append(node)
        funcs.sort(key=lambda f: f.lineno)
        modname = os.path.basename(rel)[:-3]
        for f in funcs:
            ft = FuncTranslator(rel, f)
            ft.stmts(f.body)
            for n in ast.walk(f):
                if _is_np(n, 'argsort'):
                    pass
            if not ft.defs:
                raise TranslateError('%s.%s computes element indices but never uses them' % (modname, f.name))
            out.append('(* %s : %s (line %d) *)' % (rel, f.name, f.lineno))
            for (name, params, body, text, line) in ft.defs:
                full = '%s_%s' % (modname, name[4:])
                is_index = not params and 'reorder' not in body
                args = '' if is_index else ' {A : Type} (d : A)'
                args += ''.join(' (%s : list nat)' % p for p in ft.idx_params)
                args += ' (els : list (list Z))'
                args += ''.join(' (%s : %s)' % (p, 'list A' if ty == 'vec' else 'list (list A)') for p, ty in params)
                out.append('(* line %d: %s *)' % (line, text.replace('*)', '* )')))
                for p, ty in params:
                    if ft.opaque_src.get(p) not in (None, p):
                        out.append('(*   %s stands for %s *)' % (p, ft.opaque_src[p].replace('*)', '* )')))
                out.append('Definition gen_%s%s := %s.' % (full, args, body))
                summary.append({'def': 'gen_' + full, 'file': rel, 'function': f.name, 'line': line, 'source': text, 'gallina': body})
            out.append('')
    return '\n'.join(out) + '\n', summary


if __name__ == '__main__':
    import sys
    text, summ = translate_repo(sys.argv[1] if len(sys.argv) > 1 else '/repo')
    print(text)
