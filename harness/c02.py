"""C02 - reported precipitate statistics are moments of the size distribution; the number density
changes only by nucleation and by dissolution through the ends of the grid.

proof:          coq/C02/Properties.v (statistics = moments; truncation bounds; step balance;
                density increase <= nucleation rate * step; zero nucleation => no increase)
correspondence: recorded Euler steps of stub-backend runs: state returned by the iterator and PSD stored
                after the step vs the model (flux step, zeroing, truncation) on exact rationals;
                statistics themselves are covered by the C01 correspondence of the same code.
search:         independent per-step oracle on public run data (recorded PSD, histories, iterator log).
"""
import json, math, io, contextlib
import numpy as np
from common import *
import kwn_trace, stubs

LEVEL = 'proof'
SITE = 'KWNEuler run'

HEADER = '''From Coq Require Import QArith List ZArith.
Require Import Kawin.Common.Ops Kawin.Common.Vec Kawin.Common.Out Kawin.C07.Model Kawin.C02.Model Kawin.C02.Corr.
Import ListNotations.
Open Scope Q_scope.
'''
RT = '(1 # 68719476736)'


def trace_cfgs(quick):
    cfgs = [
        {'name': 'euler-1phase', 'phases': ('B1',), 'iterator': 'euler', 'segments': [3e3]},
        {'name': 'euler-1phase-long-remesh', 'phases': ('B1',), 'iterator': 'euler', 'segments': [2e5, 3e5], 'bins': (1e-10, 2e-9, 60, 40, 80)},
        {'name': 'euler-2phase-split', 'phases': ('B1', 'B2'), 'gammas': [0.15, 0.12], 'iterator': 'euler', 'segments': [300.0, 1500.0]},
        {'name': 'rk4-1phase', 'phases': ('B1',), 'iterator': 'rk4', 'segments': [40.0]},
        # fixed grid (adaptive=False): the grid must still gain classes when the last one fills
        {'name': 'euler-fixedgrid-small', 'phases': ('B1',), 'iterator': 'euler', 'segments': [1500.0], 'adaptive': False, 'bins': (1e-10, 1e-9, 40, 20, 60)},
        # a populated phase listed before a phase that never nucleates
        {'name': 'euler-populated-then-empty', 'phases': ('B1', 'B3'), 'gammas': [0.15, 0.9], 'iterator': 'euler', 'segments': [1500.0]},
        {'name': 'euler-grain-boundary', 'phases': ('B1',), 'iterator': 'euler', 'segments': [2e3], 'site': 'grain boundaries', 'gamma': 0.22},
        {'name': 'euler-grain-corner-edge', 'phases': ('B1', 'B2'), 'gammas': [0.25, 0.2], 'sites': ['grain corners', 'grain edges'], 'iterator': 'euler', 'segments': [2e3]},
        # two-stage ageing on one model object: a temperature change between two solve calls must not touch the distribution
        {'name': 'euler-two-stage-ageing', 'phases': ('B1',), 'iterator': 'euler', 'segments': [600.0, 600.0], 'between': [[('setTemperature', (715.0,))]]},
        # the package's own record of the size distribution (setPSDrecording) over extensions and re-meshes
        {'name': 'euler-recorded-psd', 'phases': ('B1',), 'iterator': 'euler', 'segments': [2000.0, 2000.0], 'bins': (1e-10, 1e-9, 40, 30, 50), 'psdrecord': True},
        {'name': 'euler-heat-dissolve', 'phases': ('B1',), 'iterator': 'euler', 'segments': [3e3, 4e3], 'T': ([0, 0.8, 1.2, 2.0], [700.0, 700.0, 900.0, 900.0])},
    ]
    if not quick:
        cfgs += [
            {'name': 'euler-3phase', 'phases': ('B1', 'B2', 'B3'), 'gammas': [0.15, 0.12, 0.17], 'iterator': 'euler', 'segments': [2e4]},
            {'name': 'euler-fixedgrid', 'phases': ('B1',), 'iterator': 'euler', 'segments': [5e4], 'adaptive': False, 'bins': (1e-10, 2e-8, 120, 50, 150)},
            {'name': 'rk4-2phase', 'phases': ('B1', 'B3'), 'gammas': [0.15, 0.17], 'iterator': 'rk4', 'segments': [150.0]},
            {'name': 'euler-coarse-grid', 'phases': ('B2',), 'gamma': 0.12, 'iterator': 'euler', 'segments': [1e5], 'bins': (1e-10, 1e-9, 30, 20, 40)},
            {'name': 'euler-cool', 'phases': ('B1',), 'iterator': 'euler', 'segments': [6e3], 'T': ([0, 1, 2], [760.0, 660.0, 700.0])},
        ]
    return cfgs


def split(flat, bins):
    out, pos = [], 0
    for nb in bins:
        out.append(np.array(flat[pos:pos + nb], dtype=float))
        pos += nb
    return out


def grid_same(bef, aft, p):
    return bef['bins'][p] == aft['bins'][p] and np.array_equal(bef['bounds'][p], aft['bounds'][p])


def step_terms(tr, si):
    """Coq terms (one per phase) for Euler step si, or [] when not applicable"""
    m = tr.model
    st = tr.steps[si]
    bef, aft, it = st['before'], st['after'], st['iter']
    if bef is None or it is None or bef['growth'] is None:
        return []
    P = len(m.phases)
    X = split(it['X'], bef['bins'])
    Xn = split(it['Xn'], bef['bins'])
    ev = it['evals'][0]
    terms = []
    for p in range(P):
        if 'nucRate' not in ev:
            continue
        if not (np.all(np.isfinite(Xn[p])) and np.all(np.isfinite(bef['growth'][p]))):
            continue
        was_reset = aft['slice']['drivingForce'][p] < 0 and np.all(aft['slice']['xEqAlpha'][p] == 0)
        cmp_stored = grid_same(bef, aft, p) and not was_reset and np.array_equal(bef['rdfi'], aft['rdfi'])
        terms.append(('check02 %s %s %s %s %s %s %s %s %s %s %s %s %s' % (
            RT, qlit(it['dt']), qlist(bef['bounds'][p]), qlist(X[p]), qlist(bef['growth'][p]), qlit(ev['nucRate'][p]), qlit(ev['Rnuc'][p]),
            natlit(bef['rdfi'][p]), qlit(m.constraints.minRadius), qlist(bef['size'][p]), qlist(Xn[p]), boollit(cmp_stored),
            qlist(aft['psd'][p] if cmp_stored else [])), (si, p)))
    return terms


def oracle_trace(tr, tol=1e-9):
    """independent per-step checks on public data; returns list of (clause, cls, msg, step index)"""
    m = tr.model
    P = len(m.phases)
    v = []
    name = tr.meta.get('name')
    euler = tr.meta.get('iterator', 'euler') == 'euler'
    for si, st in enumerate(tr.steps):
        bef, aft, it = st['before'], st['after'], st['iter']
        if bef is None or it is None:
            continue
        n = aft['n']
        dt = it['dt']
        Xn = split(it['Xn'], bef['bins'])
        rate = it['evals'][-1].get('nucRate') if it['evals'] else None
        for p in range(P):
            Nrec = float(aft['slice']['precipitateDensity'][p])
            Nprev = float(bef['slice']['precipitateDensity'][p])
            was_reset = aft['slice']['drivingForce'][p] < 0 and np.all(aft['slice']['xEqAlpha'][p] == 0)
            # (i) statistics vs the distribution of this step (stored PSD when the grid did not change)
            if grid_same(bef, aft, p) and not was_reset and np.array_equal(bef['rdfi'], aft['rdfi']):
                psd = aft['psd'][p]
                r = 0.5 * (aft['bounds'][p][1:] + aft['bounds'][p][:-1])
                M0 = float(np.sum(psd))
                nb = len(psd)
                if Nrec >= m.constraints.minNucleateDensity or M0 > 0:
                    if M0 - Nrec > tol * max(M0, Nrec) + 1e-9:
                        v.append(('stats_are_moments', 'stored distribution exceeds recorded density',
                                  'step %d of run %s, phase %d: recorded number density %r but the size distribution holds %r particles (%.3e more than recorded; truncation can only remove)' % (n, name, p, Nrec, M0, M0 - Nrec), si))
                    elif Nrec - M0 > nb + tol * max(M0, Nrec):
                        v.append(('stats_are_moments', 'density', 'step %d of run %s, phase %d: recorded number density %r, zeroth moment of the distribution %r' % (n, name, p, Nrec, M0), si))
                    if M0 > 1e3 and Nrec >= m.constraints.minNucleateDensity:
                        Rrec = float(aft['slice']['Ravg'][p])
                        Rm = float(np.sum(psd * r) / M0)
                        if abs(Rrec - Rm) > 1e-6 * Rm + nb * r[-1] / M0:
                            v.append(('stats_are_moments', 'mean radius', 'step %d of run %s, phase %d: recorded mean radius %r, first/zeroth moment %r' % (n, name, p, Rrec, Rm), si))
                        k = m.matrixParameters.volume.Vm / m.precipitateParameters[p].volume.Vm * 4 * math.pi / 3
                        sitename = type(m.precipitateParameters[p].nucleation.description).name
                        if sitename in ('bulk', 'dislocations'):
                            frec = float(aft['slice']['volFrac'][p])
                            fm = min(k * float(np.sum(psd * r ** 3)), 1.0)
                            if abs(frec - fm) > 1e-6 * fm + k * nb * r[-1] ** 3:
                                v.append(('stats_are_moments', 'volume fraction', 'step %d of run %s, phase %d: recorded volume fraction %r, scaled third moment %r' % (n, name, p, frec, fm), si))
            # (iii) nothing may leave through the upper end of the grid beyond the one particle the last class
            #       may hold before the grid is extended (the density changes only by nucleation and by
            #       dissolution through the smallest class)
            if bef['growth'] is not None and len(bef['growth'][p]) == bef['bins'][p] + 1 and euler:
                Xg = split(it['X'], bef['bins'])[p]
                gtop = float(bef['growth'][p][-1])
                wtop = bef['bounds'][p][-1] - bef['bounds'][p][-2]
                out_top = min(max(gtop, 0.0) * float(Xg[-1]) / wtop * dt, float(Xg[-1]))
                if out_top > 1.0 + 1e-9 * max(1.0, float(np.sum(Xg))):
                    v.append(('density_step_bound', 'loss through the upper end of the grid',
                              'step %d of run %s, phase %d: %.3e particles leave through the largest size class (it holds %.3e; the grid was not extended)' % (n, name, p, out_top, float(Xg[-1])), si))
            # (0) the step starts from the distribution the previous step left behind: between two consecutive steps nothing but
            #     the flux step (and the documented zeroing below the thresholds) may change a size class
            if bef['psd'] is not None and len(it['X']) != int(np.sum(bef['bins'])):
                if p == 0:
                    v.append(('density_changes_only_by_transport', 'distribution replaced between steps',
                              'step %d of run %s: the step starts from %d size classes in total, the previous step left %d (%r particles in phase 0): the distribution was rebuilt outside a step'
                              % (n, name, len(it['X']), int(np.sum(bef['bins'])), float(np.sum(bef['psd'][0]))), si))
            elif bef['psd'] is not None and len(split(it['X'], bef['bins'])[p]) == len(bef['psd'][p]):
                X0 = split(it['X'], bef['bins'])[p]
                held = np.array(bef['psd'][p], dtype=float).copy()
                held[:bef['rdfi'][p] + 1] = 0
                held[bef['size'][p] < m.constraints.minRadius] = 0
                Xz = X0.copy()
                Xz[:bef['rdfi'][p] + 1] = 0
                Xz[bef['size'][p] < m.constraints.minRadius] = 0
                if not np.allclose(Xz, held, rtol=1e-12, atol=0):
                    k = int(np.argmax(np.abs(Xz - held)))
                    v.append(('density_changes_only_by_transport', 'distribution replaced between steps',
                              'step %d of run %s, phase %d: the step starts from a distribution holding %r particles, the previous step left %r (class %d: %r vs %r): particles appeared or vanished outside a step'
                              % (n, name, p, float(np.sum(Xz)), float(np.sum(held)), k, float(Xz[k]), float(held[k])), si))
            # (ii) density change <= nucleation rate in force * step
            if rate is not None and np.isfinite(Nrec) and np.isfinite(Nprev):
                bound = Nprev + dt * float(rate[p])
                if Nrec > bound + tol * max(abs(Nrec), abs(bound)) + 1e-6:
                    prev = tr.steps[si - 1] if si > 0 else None
                    remeshed = False
                    if prev is not None and prev['before'] is not None and not grid_same(prev['before'], prev['after'], p):
                        wb = prev['before']['bounds'][p][1] - prev['before']['bounds'][p][0]
                        wa = prev['after']['bounds'][p][1] - prev['after']['bounds'][p][0]
                        remeshed = abs(wa - wb) > 1e-9 * abs(wb)        # class width changed: re-mesh, not extension
                    Xgiven = split(it['X'], bef['bins'])[p]
                    negprev = (not remeshed) and float(np.sum(Xgiven)) > Nprev * (1 + 1e-12) + 1e-6
                    cls = 'after re-mesh' if remeshed else ('after negative class' if negprev else 'plain step')
                    v.append(('density_step_bound', cls,
                              'step %d of run %s, phase %d: number density rose from %r to %r (+%.3e) but nucleation rate * step = %.3e [%s]' % (n, name, p, Nprev, Nrec, Nrec - Nprev, dt * float(rate[p]), cls), si))
            # negative classes produced by the step itself
            if np.any(Xn[p] < -1e-9 * max(1.0, float(np.max(np.abs(Xn[p]))))):
                pass
    return v


def oracle_record(tr, tol=1e-9):
    """the package's own record of the size distribution (written through the public saveRecordedPSD): at every recorded time
    the reported density and mean radius are the moments of the recorded distribution of that time"""
    import tempfile
    m = tr.model
    v = []
    name = tr.meta.get('name')
    times = np.array(m.pData.time[:m.pData.n + 1], dtype=float)
    for p in range(len(m.phases)):
        with tempfile.TemporaryDirectory() as d:
            f = os.path.join(d, 'rec.npz')
            try:
                m.PBM[p].saveRecordedPSD(f, compressed=False)
                data = np.load(f)
                rt, rb, rp = np.array(data['time']), np.array(data['bins']), np.array(data['PSD'])
            except Exception as e:
                return [('record_readable', 'saveRecordedPSD', 'run %s: the recorded size distribution of phase %d could not be written and read back: %r' % (name, p, e), 0)]
        for k in range(len(rt)):
            idx = np.nonzero(times == rt[k])[0]
            if len(idx) != 1:
                continue
            n = int(idx[0])
            nbnd = int(np.count_nonzero(rb[k] > 0))
            if nbnd < 2:
                continue
            b = rb[k][:nbnd]
            psd = rp[k][:nbnd - 1]
            r = 0.5 * (b[1:] + b[:-1])
            M0 = float(np.sum(psd))
            Nrec = float(m.pData.precipitateDensity[n, p])
            if Nrec < m.constraints.minNucleateDensity and M0 < m.constraints.minNucleateDensity:
                continue
            if abs(Nrec - M0) > tol * max(M0, Nrec) + len(psd):
                v.append(('stats_are_moments', 'recorded distribution vs density',
                          'run %s, phase %d, recorded time %r (step %d): reported number density %r, zeroth moment of the distribution recorded for that time %r (%d classes)' % (name, p, float(rt[k]), n, Nrec, M0, len(psd)), n))
            elif M0 > 1e3 and Nrec >= m.constraints.minNucleateDensity:
                Rrec = float(m.pData.Ravg[n, p])
                Rm = float(np.sum(psd * r) / M0)
                if abs(Rrec - Rm) > 1e-6 * Rm + len(psd) * r[-1] / M0:
                    v.append(('stats_are_moments', 'recorded distribution vs mean radius',
                              'run %s, phase %d, recorded time %r (step %d): reported mean radius %r, first/zeroth moment of the distribution recorded for that time %r' % (name, p, float(rt[k]), n, Rrec, Rm), n))
            if len(v) > 3:
                return v
    return v


def run(ctx):
    quick = ctx.quick
    ctx.cov['rule'] = ('recorded steps of stub-backend precipitation runs (Euler/RK4, 1-3 phases, split solve calls, heating/cooling, grids that are '
                       'extended and re-meshed); correspondence on sampled Euler steps per phase; non-trivial step = populated distribution with '
                       'non-zero growth; distinct by hash of the exact step inputs')
    axioms, failed = ctx.prove(['C02/Properties.v'])
    hits = []
    terms, keys = [], []
    for cfg in trace_cfgs(quick):
        try:
            tr = kwn_trace.run_binary(cfg)
        except kwn_trace.RunTimeout as e:
            ctx.violation('run_terminates', {'site': SITE, 'cls': 'run did not finish'}, {'kind': 'trace', 'run': cfg['name'], 'observed': str(e)},
                          'precipitation run %s did not finish: %s' % (cfg['name'], e))
            continue
        ctx.cov['traces_validated_against_impl'] += 1
        ns = len(tr.steps)
        remesh = sum(1 for s in tr.steps if s['before'] is not None and any(not grid_same(s['before'], s['after'], p) for p in range(len(tr.model.phases))))
        ctx.hist('trace', '%s: %d steps, %d grid changes' % (cfg['name'], ns, remesh))
        for h in oracle_trace(tr):
            hits.append((cfg['name'], h))
        if cfg.get('psdrecord'):
            for h in oracle_record(tr):
                hits.append((cfg['name'], h))
        if cfg.get('iterator', 'euler') == 'euler':
            take = 18 if quick else 250
            idx = sorted(set(int(i) for i in np.linspace(1, ns - 1, take))) if ns > 2 else []
            for si in idx:
                for t, key in step_terms(tr, si):
                    terms.append(t)
                    keys.append((cfg['name'],) + key + (tr,))
    res = ctx.coq_eval('steps', HEADER, terms)
    dis_all = []
    for (name, si, p, tr), t, r in zip(keys, terms, res):
        vstep, ltie, vstored, ttie = r
        st = tr.steps[si]
        nontriv = bool(np.any(st['before']['psd'][p] > 0) and np.any(st['before']['growth'][p] != 0))
        ctx.count({'run': name, 'step': si, 'phase': p, 'term': hashlib.sha1(t.encode()).hexdigest()}, nontriv)
        if ltie or ttie:
            ctx.notes['indeterminate_near_tie'] = ctx.notes.get('indeterminate_near_tie', 0) + 1
        if vstep is not None:
            k, ap = vstep[1]
            dis_all.append((name, si, p, 'flux step: class %d of the state returned by the iterator, model %r' % (k, float(tofrac(ap)))))
        if vstored is not None:
            k, ap = vstored[1]
            dis_all.append((name, si, p, 'stored PSD after the step: class %d, model %r' % (k, float(tofrac(ap)))))
        if len(ctx.cov['samples']) < 4:
            ctx.sample({'run': name, 'step': si, 'phase': p, 'dt': st['iter']['dt'], 'bins': st['before']['bins'][p],
                        'density_before': float(st['before']['slice']['precipitateDensity'][p]), 'density_after': float(st['after']['slice']['precipitateDensity'][p])})
    seen = {}
    for name, (cl, cls, msg, si) in hits:
        seen.setdefault((cl, cls), []).append((name, msg, si))
    for (cl, cls), lst in seen.items():
        name, msg, si = lst[0]
        ctx.violation(cl, {'site': SITE, 'cls': cls},
                      {'kind': 'trace', 'run': name, 'step_index': si, 'occurrences': len(lst), 'observed': msg,
                       'how': 'harness/c02.py trace_cfgs entry %r, deterministic (stub backend), step index %d' % (name, si)}, msg)
    if dis_all and not hits:
        name, si, p, d = dis_all[0]
        ctx.violation('correspondence', {'site': SITE, 'cls': d.split(':')[0]},
                      {'broken': {'correspondence': 'coq/C02/Model.v (+C07/Model.v) vs recorded Euler steps', 'first_disagreement': d}, 'run': name, 'step_index': si, 'phase': p,
                       'disagreements': len(dis_all)}, 'model and implementation disagree on %d recorded steps, e.g. run %s step %d: %s' % (len(dis_all), name, si, d), no_input=True)
    for t in failed:
        ctx.violation(t, {'site': 'coq/C02/Properties.v', 'cls': 'proof'}, {'broken': {'theorem': t}}, 'theorem %s no longer checks' % t, no_input=True)
    ctx.notes['disagreements'] = len(dis_all)
    ctx.notes['oracle_hits'] = len(hits)
    ctx.assumptions += [
        'the density bound is evaluated with the nucleation rate in force when the final derivative was taken (Euler: recorded rate of step n; RK4: the fourth stage)',
        'statistics are compared with the stored distribution only on steps that leave the grid unchanged; on other steps only the density bound is checked',
        'stub thermodynamics backend drives the runs']
    ctx.cov['trusted_base'] += ['Coq 8.16.1 kernel and vm_compute', 'hand-written models coq/C02/Model.v, coq/C07/Model.v, coq/C01/Model.v + harness/c02.py, harness/kwn_trace.py']


def replay(ctx, obj):
    name = obj.get('run')
    for cfg in trace_cfgs(False):
        if cfg['name'] == name:
            tr = kwn_trace.run_binary(cfg)
            hs = [h for h in oracle_trace(tr) if h[0] == obj.get('clause')]
            for h in hs[:5]:
                print('replay:', h[2])
            print('replay: %d violations of clause %s in run %s' % (len(hs), obj.get('clause'), name))
            return 1 if hs else 0
    print('replay: unknown run')
    return 0
